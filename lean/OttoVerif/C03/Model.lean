/-
  C03/Model — transcription of otto's expression parser (parser/expression.go) over the token
  stream the real scanner produces (parser/lexer.go `scan`, obtained through the hook
  `parser.VerifScanAll`).

  * A token carries `nl` = `p.implicitSemicolon` after the scan (a line terminator precedes the token).
  * Every Go function `parseX` is `parseX : Nat → … → List Tok → Option (E × List Tok)`; the `Nat` is
    recursion-depth fuel (each call passes `n` to its callees), `none` = the Go code records an error
    (`p.error…`) or the fuel ran out.  The error-recovery paths (`BadExpression`, `nextStatement`) are not
    modelled: a recorded error already means "rejected".
  * `p.scope.allowIn` is passed as the parameter `ai` (it is only ever saved/overwritten/restored in a
    stack discipline: expression.go:508-512, 702-706, statement.go:564-595).
  * `SequenceExpression{[e0,…,en]}` is represented by the left-nested `bin comma`.
  * Argument lists are embedded in `E` (`anil/acons`, `noargs` = `new X` without parentheses) so that `E`
    stays a single inductive type.
-/
namespace OttoVerif.C03

/-- punctuators and keywords: token/token_const.go -/
inductive P where
  | plus | minus | star | slash | percent | amp | bar | caret | shl | shr | ushr | andnot
  | addA | subA | mulA | divA | remA | andA | orA | xorA | shlA | shrA | ushrA | andnotA
  | land | lor | inc | dec | eq | seq | lt | gt | assign | not | bnot | ne | sne | le | ge
  | lparen | lbrack | lbrace | comma | dot | rparen | rbrack | rbrace | semi | colon | quest
  | kIf | kIn | kDo | kVar | kFor | kNew | kTry | kThis | kElse | kCase | kVoid | kWith | kWhile | kBreak | kCatch | kThrow
  | kReturn | kTypeof | kDelete | kSwitch | kDefault | kFinally | kFunction | kContinue | kDebugger | kInstanceof
deriving DecidableEq, Repr, Inhabited

/-- token kinds with their literal text where the parser reads it -/
inductive Tk where
  | id (s : String) | num (s : String) | str (s : String) | bool (s : String) | null
  | p (x : P) | kw (s : String) | illegal | eof
  | regex (s : String)   -- a regular expression literal as the PARSER sees it after re-scanning `/` or `/=` (expression.go:121)
deriving DecidableEq, Repr, Inhabited

structure Tok where
  k : Tk
  nl : Bool := false
deriving DecidableEq, Repr, Inhabited

inductive BinOp where
  | mul | div | rem | add | sub | shl | shr | ushr | lt | gt | le | ge | instanceof | in_
  | eq | ne | seq | sne | band | bxor | bor | land | lor | comma
deriving DecidableEq, Repr, Inhabited

inductive UnOp where
  | pos | neg | not | bnot | delete | void | typeof | preinc | predec
deriving DecidableEq, Repr, Inhabited

inductive AsgOp where
  | assign | add | sub | mul | div | rem | band | andnot | bor | bxor | shl | shr | ushr
deriving DecidableEq, Repr, Inhabited

/-- expression trees (ast/node.go expression types that the ladder builds) -/
inductive E where
  | id (s : String) | num (s : String) | str (s : String) | bool (s : String) | null | this_
  | bin (o : BinOp) (l r : E)
  | un (o : UnOp) (e : E)
  | post (inc : Bool) (e : E)
  | cond (c a b : E)
  | asg (o : AsgOp) (l r : E)
  | dot (e : E) (name : String)
  | idx (e i : E)
  | call (f args : E)
  | new_ (f args : E)
  | anil | acons (hd tl : E) | noargs
deriving DecidableEq, Repr, Inhabited

abbrev R := Option (E × List Tok)

def hd (ts : List Tok) : Tk := match ts with | [] => .eof | t :: _ => t.k
def hdNl (ts : List Tok) : Bool := match ts with | [] => true | t :: _ => t.nl

/-- `p.expect(x)` on the success path (parser.go:290) -/
def expectP (x : P) (ts : List Tok) : Option (List Tok) :=
  match ts with
  | t :: r => if t.k = .p x then some r else none
  | [] => none

/-- the operand kinds `++ -- =` accept (expression.go:567, 616, 949) -/
def simpleTarget : E → Bool
  | .id _ | .dot _ _ | .idx _ _ => true
  | _ => false

def mulOps : Tk → Option BinOp | .p .star => some .mul | .p .slash => some .div | .p .percent => some .rem | _ => none
def addOps : Tk → Option BinOp | .p .plus => some .add | .p .minus => some .sub | _ => none
def shiftOps : Tk → Option BinOp | .p .shl => some .shl | .p .shr => some .shr | .p .ushr => some .ushr | _ => none
def relOps (ai : Bool) : Tk → Option BinOp
  | .p .lt => some .lt | .p .le => some .le | .p .gt => some .gt | .p .ge => some .ge
  | .p .kInstanceof => some .instanceof | .p .kIn => if ai then some .in_ else none | _ => none
def eqOps : Tk → Option BinOp | .p .eq => some .eq | .p .ne => some .ne | .p .seq => some .seq | .p .sne => some .sne | _ => none
def bandOps : Tk → Option BinOp | .p .amp => some .band | _ => none
def bxorOps : Tk → Option BinOp | .p .caret => some .bxor | _ => none
def borOps : Tk → Option BinOp | .p .bar => some .bor | _ => none
def landOps : Tk → Option BinOp | .p .land => some .land | _ => none
def lorOps : Tk → Option BinOp | .p .lor => some .lor | _ => none
def commaOps : Tk → Option BinOp | .p .comma => some .comma | _ => none

def unaryOps : Tk → Option UnOp
  | .p .plus => some .pos | .p .minus => some .neg | .p .not => some .not | .p .bnot => some .bnot
  | .p .kDelete => some .delete | .p .kVoid => some .void | .p .kTypeof => some .typeof | _ => none

/-- expression.go:914-941 -/
def asgOps : Tk → Option AsgOp
  | .p .assign => some .assign | .p .addA => some .add | .p .subA => some .sub | .p .mulA => some .mul
  | .p .divA => some .div | .p .remA => some .rem | .p .andA => some .band | .p .andnotA => some .andnot
  | .p .orA => some .bor | .p .xorA => some .bxor | .p .shlA => some .shl | .p .shrA => some .shr
  | .p .ushrA => some .ushr | _ => none

/-- the loop shared by the eleven left-associative levels (expression.go:633-653 and its nine copies, 973-992):
    `for p.token ∈ ops { tkn := p.token; p.next(); left = &BinaryExpression{tkn, left, next()} }` -/
def binLoop (ops : Tk → Option BinOp) (next : List Tok → R) : Nat → E → List Tok → R
  | 0, _, _ => none
  | n+1, left, ts =>
    match ops (hd ts) with
    | some o => (next ts.tail).bind fun p => binLoop ops next n (.bin o left p.1) p.2
    | none => some (left, ts)

/-- the literal after `.` must match `matchIdentifier` (expression.go:429): identifiers, keywords, true/false/null -/
def dotName : Tk → Option String
  | .id s => some s
  | .bool s => some s
  | .null => some "null"
  | .kw s => some s
  | _ => none   -- keyword tokens as property names (`a.if`) are outside the modelled fragment

mutual

/-- parsePrimaryExpression, expression.go:30-119 (identifier, literals, this, parenthesis) -/
def parsePrimary : Nat → List Tok → R
  | 0, _ => none
  | n+1, ts =>
    match ts with
    | [] => none
    | t :: r =>
      match t.k with
      | .id s => some (.id s, r)
      | .num s => some (.num s, r)
      | .str s => some (.str s, r)
      | .bool s => some (.bool s, r)
      | .null => some (.null, r)
      | .p .kThis => some (.this_, r)
      | .p .lparen =>
        -- allowIn is true here: parsePrimaryExpression is only reached under
        -- parseLeftHandSideExpressionAllowCall, which sets it (expression.go:508-509)
        (parseExpression n true r).bind fun p => (expectP .rparen p.2).map fun r' => (p.1, r')
      | _ => none

/-- the loop of parseArgumentList, expression.go:387-400 (the opening parenthesis is already consumed) -/
def parseArgs : Nat → List Tok → R
  | 0, _ => none
  | n+1, ts =>
    if hd ts = .p .rparen then some (.anil, ts)
    else (parseAssign n true ts).bind fun p =>
      if hd p.2 = .p .comma then (parseArgs n p.2.tail).map fun q => (.acons p.1 q.1, q.2)
      else some (.acons p.1 .anil, p.2)

/-- parseNewExpression, expression.go:458-477 (`new` already consumed) -/
def parseNew : Nat → List Tok → R
  | 0, _ => none
  | n+1, ts =>
    (parseLHS n ts).bind fun p =>
      if hd p.2 = .p .lparen then
        (parseArgs n p.2.tail).bind fun q => (expectP .rparen q.2).map fun r => (.new_ p.1 q.1, r)
      else some (.new_ p.1 .noargs, p.2)

/-- parseLeftHandSideExpression, expression.go:479-505 -/
def parseLHS : Nat → List Tok → R
  | 0, _ => none
  | n+1, ts =>
    (if hd ts = .p .kNew then parseNew n ts.tail else parsePrimary n ts).bind fun p => memberLoop n false p.1 p.2

/-- the `for { switch p.token … }` loops of expression.go:495-504 (`calls = false`) and 538-549 (`calls = true`) -/
def memberLoop : Nat → Bool → E → List Tok → R
  | 0, _, _, _ => none
  | n+1, calls, left, ts =>
    match hd ts with
    | .p .dot =>
      match dotName (hd ts.tail) with
      | some s => memberLoop n calls (.dot left s) ts.tail.tail
      | none => none
    | .p .lbrack =>
      (parseExpression n true ts.tail).bind fun p =>
        (expectP .rbrack p.2).bind fun r => memberLoop n calls (.idx left p.1) r
    | .p .lparen =>
      if calls then
        (parseArgs n ts.tail).bind fun q =>
          (expectP .rparen q.2).bind fun r => memberLoop n calls (.call left q.1) r
      else some (left, ts)
    | _ => some (left, ts)

/-- parseLeftHandSideExpressionAllowCall, expression.go:507-550 -/
def parseLHSCall : Nat → List Tok → R
  | 0, _ => none
  | n+1, ts =>
    (if hd ts = .p .kNew then parseNew n ts.tail else parsePrimary n ts).bind fun p => memberLoop n true p.1 p.2

/-- parsePostfixExpression, expression.go:552-589 -/
def parsePostfix : Nat → List Tok → R
  | 0, _ => none
  | n+1, ts =>
    (parseLHSCall n ts).bind fun p =>
      if (hd p.2 = .p .inc ∨ hd p.2 = .p .dec) ∧ hdNl p.2 = false then
        if simpleTarget p.1 then some (.post (hd p.2 = .p .inc) p.1, p.2.tail) else none
      else some p

/-- parseUnaryExpression, expression.go:591-631 -/
def parseUnary : Nat → List Tok → R
  | 0, _ => none
  | n+1, ts =>
    match unaryOps (hd ts) with
    | some o => (parseUnary n ts.tail).map fun p => (.un o p.1, p.2)
    | none =>
      if hd ts = .p .inc ∨ hd ts = .p .dec then
        (parseUnary n ts.tail).bind fun p =>
          if simpleTarget p.1 then some (.un (if hd ts = .p .inc then .preinc else .predec) p.1, p.2) else none
      else parsePostfix n ts

/-- parseMultiplicativeExpression, expression.go:633 -/
def parseMul : Nat → List Tok → R
  | 0, _ => none
  | n+1, ts => (parseUnary n ts).bind fun p => binLoop mulOps (parseUnary n) n p.1 p.2

/-- parseAdditiveExpression, expression.go:655 -/
def parseAdd : Nat → List Tok → R
  | 0, _ => none
  | n+1, ts => (parseMul n ts).bind fun p => binLoop addOps (parseMul n) n p.1 p.2

/-- parseShiftExpression, expression.go:676 -/
def parseShift : Nat → List Tok → R
  | 0, _ => none
  | n+1, ts => (parseAdd n ts).bind fun p => binLoop shiftOps (parseAdd n) n p.1 p.2

/-- parseRelationalExpression, expression.go:698-749: the same loop as the other levels; `in` is an operator of the level
    only when allowIn holds (expression.go:732) -/
def parseRel : Nat → Bool → List Tok → R
  | 0, _, _ => none
  | n+1, ai, ts => (parseShift n ts).bind fun p => binLoop (relOps ai) (parseShift n) n p.1 p.2

/-- parseEqualityExpression, expression.go:757 -/
def parseEq : Nat → Bool → List Tok → R
  | 0, _, _ => none
  | n+1, ai, ts => (parseRel n ai ts).bind fun p => binLoop eqOps (parseRel n ai) n p.1 p.2

/-- parseBitwiseAndExpression, expression.go:780 -/
def parseBand : Nat → Bool → List Tok → R
  | 0, _, _ => none
  | n+1, ai, ts => (parseEq n ai ts).bind fun p => binLoop bandOps (parseEq n ai) n p.1 p.2

/-- parseBitwiseExclusiveOrExpression, expression.go:801 -/
def parseBxor : Nat → Bool → List Tok → R
  | 0, _, _ => none
  | n+1, ai, ts => (parseBand n ai ts).bind fun p => binLoop bxorOps (parseBand n ai) n p.1 p.2

/-- parseBitwiseOrExpression, expression.go:822 -/
def parseBor : Nat → Bool → List Tok → R
  | 0, _, _ => none
  | n+1, ai, ts => (parseBxor n ai ts).bind fun p => binLoop borOps (parseBxor n ai) n p.1 p.2

/-- parseLogicalAndExpression, expression.go:843 -/
def parseLand : Nat → Bool → List Tok → R
  | 0, _, _ => none
  | n+1, ai, ts => (parseBor n ai ts).bind fun p => binLoop landOps (parseBor n ai) n p.1 p.2

/-- parseLogicalOrExpression, expression.go:864 -/
def parseLor : Nat → Bool → List Tok → R
  | 0, _, _ => none
  | n+1, ai, ts => (parseLand n ai ts).bind fun p => binLoop lorOps (parseLand n ai) n p.1 p.2

/-- parseConditionalExpression: the middle operand is parsed with allowIn = true (saved and restored around it),
    the last one under the current allowIn -/
def parseCond : Nat → Bool → List Tok → R
  | 0, _, _ => none
  | n+1, ai, ts =>
    (parseLor n ai ts).bind fun p =>
      if hd p.2 = .p .quest then
        (parseAssign n true p.2.tail).bind fun a =>
          (expectP .colon a.2).bind fun r =>
            (parseAssign n ai r).map fun b => (.cond p.1 a.1 b.1, b.2)
      else some p

/-- parseAssignmentExpression, expression.go:911-971 -/
def parseAssign : Nat → Bool → List Tok → R
  | 0, _, _ => none
  | n+1, ai, ts =>
    (parseCond n ai ts).bind fun p =>
      match asgOps (hd p.2) with
      | some o =>
        if simpleTarget p.1 then (parseAssign n ai p.2.tail).map fun q => (.asg o p.1 q.1, q.2) else none
      | none => some p

/-- parseExpression, expression.go:973-992 -/
def parseExpression : Nat → Bool → List Tok → R
  | 0, _, _ => none
  | n+1, ai, ts => (parseAssign n ai ts).bind fun p => binLoop commaOps (parseAssign n ai) n p.1 p.2

end

end OttoVerif.C03
