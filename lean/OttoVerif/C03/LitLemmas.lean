/-  C03/LitLemmas — proof of the string-literal value theorem (core-only).  The ledger entries are in Theorems.lean. -/
import OttoVerif.C03.LitModel
import OttoVerif.C03.LitSpec
namespace OttoVerif.C03.LitThm
open OttoVerif OttoVerif.Str OttoVerif.C03

/-- a code unit that is not a surrogate -/
def OKU (u : Nat) : Prop := u < 0xD800 ∨ (0xDFFF < u ∧ u < 0x10000)

theorem encodeRunes_cons (x : Nat) (xs : List Nat) : encodeRunes (x :: xs) = encodeRune x ++ encodeRunes xs := by
  simp [encodeRunes]

theorem encodeRune_ascii {c : Nat} (h : c < 128) : encodeRune c = [c] := by
  unfold encodeRune
  have : ¬ ((0xD800 ≤ c ∧ c ≤ 0xDFFF) ∨ c > 0x10FFFF) := by omega
  simp [this, h]

theorem hexVal_dec (c d : Nat) (hc : LitSpec.hexVal c = some d) : LitModel.hex2decimal c = some d ∧ d < 16 := by
  unfold LitSpec.hexVal at hc
  unfold LitModel.hex2decimal
  by_cases h1 : 48 ≤ c ∧ c ≤ 57
  · simp only [h1, and_self, if_true, Option.some.injEq] at hc ⊢; omega
  · by_cases h2 : 97 ≤ c ∧ c ≤ 102
    · simp only [h1, h2, and_self, if_true, if_false, Option.some.injEq] at hc ⊢; omega
    · by_cases h3 : 65 ≤ c ∧ c ≤ 70
      · simp only [h1, h2, h3, and_self, if_true, if_false, Option.some.injEq] at hc ⊢; omega
      · simp [h1, h2, h3] at hc

theorem hexU_hexN2 (r : List Nat) (v : Nat) (h : LitSpec.hexU 2 r = some v) : LitModel.hexN 2 r 0 = some v ∧ v < 256 := by
  match r with
  | [] => simp [LitSpec.hexU] at h
  | [_] => simp [LitSpec.hexU] at h
  | a :: b :: r' =>
    simp only [LitSpec.hexU, List.length_cons, List.take, List.foldl] at h
    cases ha : LitSpec.hexVal a with
    | none => simp [ha] at h
    | some da =>
      cases hb : LitSpec.hexVal b with
      | none => simp [ha, hb] at h
      | some db =>
        simp [ha, hb] at h
        have h1 := hexVal_dec a da ha
        have h2 := hexVal_dec b db hb
        simp [LitModel.hexN, h1.1, h2.1]
        omega

theorem hexU_hexN4 (r : List Nat) (v : Nat) (h : LitSpec.hexU 4 r = some v) : LitModel.hexN 4 r 0 = some v ∧ v < 65536 := by
  match r with
  | [] => simp [LitSpec.hexU] at h
  | [_] => simp [LitSpec.hexU] at h
  | [_, _] => simp [LitSpec.hexU] at h
  | [_, _, _] => simp [LitSpec.hexU] at h
  | a :: b :: c :: d :: r' =>
    simp only [LitSpec.hexU, List.length_cons, List.take, List.foldl] at h
    cases ha : LitSpec.hexVal a with
    | none => simp [ha] at h
    | some da =>
      cases hb : LitSpec.hexVal b with
      | none => simp [ha, hb] at h
      | some db =>
        cases hc : LitSpec.hexVal c with
        | none => simp [ha, hb, hc] at h
        | some dc =>
          cases hd : LitSpec.hexVal d with
          | none => simp [ha, hb, hc, hd] at h
          | some dd =>
            simp [ha, hb, hc, hd] at h
            have h1 := hexVal_dec a da ha
            have h2 := hexVal_dec b db hb
            have h3 := hexVal_dec c dc hc
            have h4 := hexVal_dec d dd hd
            simp [LitModel.hexN, h1.1, h2.1, h3.1, h4.1]
            omega

theorem map_some_eq {α β : Type} {o : Option α} {f : α → β} {y : β} (h : o.map f = some y) : ∃ x, o = some x ∧ f x = y := by
  cases o <;> simp_all


theorem isOct_eq (c : Nat) : LitModel.isOct c = LitSpec.isOctD c := rfl

theorem bind_some_eq {α β : Type} {o : Option α} {f : α → Option β} {y : β} (h : o.bind f = some y) : ∃ x, o = some x ∧ f x = some y := by
  cases o <;> simp_all

/-- the model's octal-escape arm (lexer.go:781-802) -/
theorem model_oct (f e : Nat) (r buf : List Nat) (h1 : 48 ≤ e) (h2 : e ≤ 55) :
    LitModel.strLoop (f+1) (92 :: e :: r) buf =
      if e = 48 ∧ !(match r with | a :: _ => LitModel.isOct a | [] => false) then LitModel.strLoop f r (buf ++ [0])
      else LitModel.strLoop f (LitModel.octMore (decide (e < 52)) (e - 48) r).2 (buf ++ encodeRune (LitModel.octMore (decide (e < 52)) (e - 48) r).1) := by
  simp only [LitModel.strLoop]
  have h80 : ¬ e ≥ 128 := by omega
  simp only [show ¬ ((92:Nat) ≥ 128) by omega, show ¬ ((92:Nat) ≠ 92) by simp, h80, if_false,
    show ¬ e = 98 by omega, show ¬ e = 102 by omega, show ¬ e = 110 by omega, show ¬ e = 114 by omega,
    show ¬ e = 116 by omega, show ¬ e = 118 by omega, show ¬ e = 120 by omega, show ¬ e = 117 by omega]
  cases r with
  | nil => simp [h1, h2]
  | cons a r' => simp [h1, h2]

theorem octMore_two (two : Bool) (v a : Nat) (r1 : List Nat) (hoa : LitModel.isOct a = true)
    (h : two = true → ∀ b r2, r1 = b :: r2 → LitModel.isOct b = false) :
    LitModel.octMore two v (a :: r1) = (v * 8 + (a - 48), r1) := by
  cases two
  · simp [LitModel.octMore, hoa]
  · match r1, h rfl with
    | [], _ => simp [LitModel.octMore, hoa]
    | b :: r2, hnb => simp [LitModel.octMore, hoa, hnb b r2 rfl]

theorem strLoop_nil (f : Nat) (buf : List Nat) : LitModel.strLoop (f+1) [] buf = some buf := by
  simp [LitModel.strLoop]

theorem encodeRune_oku {v : Nat} (h : OKU v) : encodeRunes [v] = encodeRune v := by simp [encodeRunes]

/-- one recursion step of the model after an escape that yields the single value `v` and continues with `r'` -/
theorem core : ∀ (fuel : Nat) (s us : List Nat), (∀ c ∈ s, c < 128) →
    LitSpec.sv fuel s = some us → (∀ u ∈ us, OKU u) →
    ∀ (fuel' : Nat) (buf : List Nat), s.length < fuel' → LitModel.strLoop fuel' s buf = some (buf ++ encodeRunes us) := by
  intro fuel
  induction fuel with
  | zero => intro s us _ h; simp [LitSpec.sv] at h
  | succ fuel ih =>
    intro s us hasc hsv hoku fuel' buf hlen
    obtain ⟨f, rfl⟩ : ∃ f, fuel' = f + 1 := ⟨fuel' - 1, by omega⟩
    match s with
    | [] =>
      simp [LitSpec.sv] at hsv; subst hsv
      simp [LitModel.strLoop, encodeRunes]
    | c :: rest =>
      have hc : c < 128 := hasc c (by simp)
      have hrest : ∀ x ∈ rest, x < 128 := fun x hx => hasc x (by simp [hx])
      simp only [List.length_cons] at hlen
      by_cases hbs : c = 92
      · subst hbs
        match rest with
        | [] => simp [LitSpec.sv] at hsv
        | e :: r =>
          have he : e < 128 := hrest e (by simp)
          have hr : ∀ x ∈ r, x < 128 := fun x hx => hrest x (by simp [hx])
          simp only [List.length_cons] at hlen
          simp only [LitSpec.sv] at hsv
          simp only [show ((92:Nat) ≠ 92) = False by simp, if_false] at hsv
          -- the continuation step shared by every escape: the model goes on with `r2` and a buffer extended by `X`
          have fin : ∀ (r2 us' X : List Nat) (v : Nat), (∀ x ∈ r2, x < 128) → LitSpec.sv fuel r2 = some us' →
              encodeRune v = X → r2.length < f → us = v :: us' →
              LitModel.strLoop f r2 (buf ++ X) = some (buf ++ encodeRunes us) := by
            intro r2 us' X v h1 h3 h4 h5 h6
            rw [ih r2 us' h1 h3 (fun u hu => hoku u (by rw [h6]; simp [hu])) f (buf ++ X) h5, h6, encodeRunes_cons, h4, List.append_assoc]
          have h80 : ¬ e ≥ 0x80 := by omega
          by_cases h13 : e = 13
          · subst h13
            simp only [if_true] at hsv
            simp only [LitModel.strLoop, h80, if_false]
            simp only [show ¬ ((92:Nat) ≥ 128) by omega, show ¬ ((92:Nat) ≠ 92) by simp, if_false]
            simp only [show ¬ ((13:Nat) = 98) by omega, show ¬ ((13:Nat) = 102) by omega, show ¬ ((13:Nat) = 110) by omega,
              show ¬ ((13:Nat) = 114) by omega, show ¬ ((13:Nat) = 116) by omega, show ¬ ((13:Nat) = 118) by omega,
              show ¬ ((13:Nat) = 120) by omega, show ¬ ((13:Nat) = 117) by omega, show ¬ ((13:Nat) = 48) by omega,
              show ¬ ((48:Nat) ≤ 13) by omega, false_and, if_false, if_true]
            match r with
            | [] => simp only at hsv ⊢; exact ih [] us (by simp) hsv hoku f buf (by simp at hlen ⊢; omega)
            | x :: r' =>
              by_cases hx : x = 10
              · subst hx
                simp only at hsv ⊢
                exact ih r' us (fun y hy => hr y (by simp [hy])) hsv hoku f buf (by simp at hlen ⊢; omega)
              · have hsv' : LitSpec.sv fuel (x :: r') = some us := by
                  split at hsv
                  · rename_i heq; simp at heq; exact absurd heq.1 hx
                  · exact hsv
                split
                · rename_i heq; simp at heq; exact absurd heq.1 hx
                · exact ih (x :: r') us hr hsv' hoku f buf (by simp at hlen ⊢; omega)
          · simp only [h13, if_false] at hsv
            by_cases hlt : LitSpec.isLT e = true
            · -- `\` LF  (U+2028/2029 are not ASCII)
              have h10 : e = 10 := by simp [LitSpec.isLT] at hlt; omega
              subst h10
              simp only [hlt, if_true] at hsv
              simp only [LitModel.strLoop]
              simp only [show ¬ ((92:Nat) ≥ 128) by omega, show ¬ ((92:Nat) ≠ 92) by simp, show ¬ ((10:Nat) ≥ 128) by omega,
                show ¬ ((10:Nat) = 98) by omega, show ¬ ((10:Nat) = 102) by omega, show ¬ ((10:Nat) = 110) by omega,
                show ¬ ((10:Nat) = 114) by omega, show ¬ ((10:Nat) = 116) by omega, show ¬ ((10:Nat) = 118) by omega,
                show ¬ ((10:Nat) = 120) by omega, show ¬ ((10:Nat) = 117) by omega, show ¬ ((10:Nat) = 48) by omega,
                show ¬ ((48:Nat) ≤ 10) by omega, show ¬ ((10:Nat) = 13) by omega, false_and, if_false, if_true]
              exact ih r us hr hsv hoku f buf (by omega)
            · simp only [hlt, if_false] at hsv
              by_cases hx : e = 120
              · subst hx
                simp only [if_true] at hsv
                obtain ⟨v, hv, h2⟩ := bind_some_eq hsv
                obtain ⟨us', h3, h4⟩ := map_some_eq h2
                have hh := hexU_hexN2 r v hv
                simp only [LitModel.strLoop]
                simp only [show ¬ ((92:Nat) ≥ 128) by omega, show ¬ ((92:Nat) ≠ 92) by simp, show ¬ ((120:Nat) ≥ 128) by omega,
                  show ¬ ((120:Nat) = 98) by omega, show ¬ ((120:Nat) = 102) by omega, show ¬ ((120:Nat) = 110) by omega,
                  show ¬ ((120:Nat) = 114) by omega, show ¬ ((120:Nat) = 116) by omega, show ¬ ((120:Nat) = 118) by omega,
                  if_false, if_true, hh.1, Option.bind_some]
                exact fin (r.drop 2) us' _ v (fun x hx => hr x (List.mem_of_mem_drop hx)) h3 rfl
                  (by rw [List.length_drop]; omega) h4.symm
              · simp only [hx, if_false] at hsv
                by_cases hu : e = 117
                · subst hu
                  simp only [if_true] at hsv
                  obtain ⟨v, hv, h2⟩ := bind_some_eq hsv
                  obtain ⟨us', h3, h4⟩ := map_some_eq h2
                  have hh := hexU_hexN4 r v hv
                  simp only [LitModel.strLoop]
                  simp only [show ¬ ((92:Nat) ≥ 128) by omega, show ¬ ((92:Nat) ≠ 92) by simp, show ¬ ((117:Nat) ≥ 128) by omega,
                    show ¬ ((117:Nat) = 98) by omega, show ¬ ((117:Nat) = 102) by omega, show ¬ ((117:Nat) = 110) by omega,
                    show ¬ ((117:Nat) = 114) by omega, show ¬ ((117:Nat) = 116) by omega, show ¬ ((117:Nat) = 118) by omega,
                    show ¬ ((117:Nat) = 120) by omega, if_false, if_true, hh.1, Option.bind_some]
                  have hp : LitModel.pairLow v (r.drop 4) = none := by
                    have hv' := hoku v (by rw [← h4]; simp)
                    unfold OKU at hv'
                    have : ¬ (0xD800 ≤ v ∧ v < 0xDC00) := by omega
                    simp [LitModel.pairLow, this]
                  simp only [hp]
                  exact fin (r.drop 4) us' _ v (fun x hx => hr x (List.mem_of_mem_drop hx)) h3 rfl
                    (by rw [List.length_drop]; omega) h4.symm
                · simp only [hu, if_false] at hsv
                  have hne10 : e ≠ 10 := by intro h; subst h; simp [LitSpec.isLT] at hlt
                  by_cases hoc : LitSpec.isOctD e = true
                  · simp only [hoc, if_true] at hsv
                    have ho : 48 ≤ e ∧ e ≤ 55 := by simpa [LitSpec.isOctD] using hoc
                    rw [model_oct f e r buf ho.1 ho.2]
                    obtain ⟨f', rfl⟩ : ∃ f', f = f' + 1 := ⟨f - 1, by omega⟩
                    match r with
                    | [] =>
                      simp only [Bool.false_eq_true, if_false, Option.some.injEq] at hsv
                      subst hsv
                      by_cases e48 : e = 48
                      · subst e48; simp [strLoop_nil, encodeRunes, encodeRune]
                      · simp [e48, LitModel.octMore, strLoop_nil, encodeRunes]
                    | a :: r1 =>
                      have hr1 : ∀ x ∈ r1, x < 128 := fun x hx => hr x (by simp [hx])
                      simp only [List.length_cons] at hlen
                      by_cases hoa : LitSpec.isOctD a = true
                      · have hoa' : LitModel.isOct a = true := hoa
                        simp only [hoa, if_true] at hsv
                        have hn : ¬ (e = 48 ∧ (!LitModel.isOct a) = true) := by simp [hoa']
                        simp only [hn, if_false]
                        -- the two-digit continuation (shared)
                        have two : ∀ us', LitSpec.sv fuel r1 = some us' → ((e-48)*8 + (a-48)) :: us' = us →
                            (decide (e < 52) = true → ∀ b r2, r1 = b :: r2 → LitModel.isOct b = false) →
                            LitModel.strLoop (f'+1) (LitModel.octMore (decide (e < 52)) (e - 48) (a :: r1)).2
                              (buf ++ encodeRune (LitModel.octMore (decide (e < 52)) (e - 48) (a :: r1)).1) = some (buf ++ encodeRunes us) := by
                          intro us' h3 h4 hnb
                          have hom := octMore_two (decide (e < 52)) (e - 48) a r1 hoa' hnb
                          rw [hom]
                          exact fin r1 us' _ _ hr1 h3 rfl (by omega) h4.symm
                        by_cases he51 : e ≤ 51
                        · simp only [he51, if_true] at hsv
                          match r1 with
                          | [] =>
                            obtain ⟨us', h3, h4⟩ := map_some_eq hsv
                            exact two us' h3 h4 (fun _ b r2 h => by simp at h)
                          | b :: r2 =>
                            by_cases hob : LitSpec.isOctD b = true
                            · have hob' : LitModel.isOct b = true := hob
                              simp only [hob, if_true] at hsv
                              obtain ⟨us', h3, h4⟩ := map_some_eq hsv
                              have hd52 : decide (e < 52) = true := by simp; omega
                              have hom : LitModel.octMore (decide (e < 52)) (e - 48) (a :: b :: r2) = (((e-48)*8 + (a-48))*8 + (b-48), r2) := by
                                rw [hd52]; simp [LitModel.octMore, hoa', hob']
                              rw [hom]
                              have harith : ((e-48)*8 + (a-48))*8 + (b-48) = (e-48)*64 + (a-48)*8 + (b-48) := by omega
                              simp only [List.length_cons] at hlen
                              exact fin r2 us' _ _ (fun x hx => hr1 x (by simp [hx])) h3 rfl (by omega)
                                (by rw [harith]; exact h4.symm)
                            · simp only [hob, Bool.false_eq_true, if_false] at hsv
                              obtain ⟨us', h3, h4⟩ := map_some_eq hsv
                              exact two us' h3 h4 (fun _ b' r2' h => by
                                simp at h; rw [← h.1]; simpa [isOct_eq] using hob)
                        · simp only [he51, if_false] at hsv
                          obtain ⟨us', h3, h4⟩ := map_some_eq hsv
                          exact two us' h3 h4 (fun hd => absurd hd (by simp; omega))
                      · have hoa' : LitModel.isOct a = false := by simpa [isOct_eq] using hoa
                        simp only [hoa, Bool.false_eq_true, if_false] at hsv
                        by_cases hda : LitSpec.isDec a = true
                        · simp [hda] at hsv
                        · simp only [hda, Bool.false_eq_true, if_false] at hsv
                          obtain ⟨us', h3, h4⟩ := map_some_eq hsv
                          by_cases e48 : e = 48
                          · subst e48
                            simp only [hoa', Bool.not_false, and_self, if_true]
                            exact fin (a :: r1) us' _ 0 hr h3 (by simp [encodeRune]) (by simp; omega) (by simpa using h4.symm)
                          · simp only [e48, false_and, if_false]
                            have hom : LitModel.octMore (decide (e < 52)) (e - 48) (a :: r1) = (e - 48, a :: r1) := by
                              simp [LitModel.octMore, hoa']
                            rw [hom]
                            exact fin (a :: r1) us' _ _ hr h3 rfl (by simp; omega) h4.symm
                  · simp only [hoc, Bool.false_eq_true, if_false] at hsv
                    have hoc' : ¬ (48 ≤ e ∧ e ≤ 55) := by simpa [LitSpec.isOctD] using hoc
                    by_cases h89 : e = 56 ∨ e = 57
                    · simp [h89] at hsv
                    · simp only [h89, if_false] at hsv
                      obtain ⟨us', h3, h4⟩ := map_some_eq hsv
                      -- the value of a single-character escape
                      have key : ∀ (v : Nat), v < 128 →
                          (if e = 98 then 8 else if e = 116 then 9 else if e = 110 then 10 else if e = 118 then 11
                            else if e = 102 then 12 else if e = 114 then 13 else e) = v →
                          LitModel.strLoop (f+1) (92 :: e :: r) buf = LitModel.strLoop f r (buf ++ [v]) := by
                        intro v _ hv
                        simp only [LitModel.strLoop]
                        simp only [show ¬ ((92:Nat) ≥ 128) by omega, show ¬ ((92:Nat) ≠ 92) by simp, h80, if_false]
                        by_cases e1 : e = 98
                        · subst e1; simp at hv; subst hv; simp
                        by_cases e2 : e = 102
                        · subst e2; simp at hv; subst hv; simp
                        by_cases e3 : e = 110
                        · subst e3; simp at hv; subst hv; simp
                        by_cases e4 : e = 114
                        · subst e4; simp at hv; subst hv; simp
                        by_cases e5 : e = 116
                        · subst e5; simp at hv; subst hv; simp
                        by_cases e6 : e = 118
                        · subst e6; simp at hv; subst hv; simp
                        simp only [e1, e2, e3, e4, e5, e6, if_false] at hv
                        subst hv
                        have e48 : ¬ e = 48 := by omega
                        simp only [e1, e2, e3, e4, e5, e6, hx, hu, e48, hoc', h13, hne10, false_and, if_false]
                      have hsingle : (if e = 98 then 8 else if e = 116 then 9 else if e = 110 then 10 else if e = 118 then 11
                            else if e = 102 then 12 else if e = 114 then 13 else e) < 128 := by
                        repeat' split
                        all_goals omega
                      rw [key _ hsingle rfl]
                      have hunits : LitSpec.units (if e = 98 then 8 else if e = 116 then 9 else if e = 110 then 10 else if e = 118 then 11
                            else if e = 102 then 12 else if e = 114 then 13 else e) = [if e = 98 then 8 else if e = 116 then 9 else if e = 110 then 10 else if e = 118 then 11
                            else if e = 102 then 12 else if e = 114 then 13 else e] := by
                        simp only [LitSpec.units]; rw [if_pos (by omega)]
                      rw [hunits] at h4
                      exact fin r us' _ _ hr h3 (encodeRune_ascii hsingle) (by omega) (by simpa using h4.symm)
      · -- an ordinary character
        have hlt : LitSpec.isLT c = false ∨ LitSpec.isLT c = true := by cases LitSpec.isLT c <;> simp
        simp only [LitSpec.sv, hbs, ne_eq, not_false_eq_true, if_true] at hsv
        rcases hlt with hlt | hlt
        · simp only [hlt, Bool.false_eq_true, if_false] at hsv
          obtain ⟨us', h1, h2⟩ := map_some_eq hsv
          subst h2
          have hu : LitSpec.units c = [c] := by simp [LitSpec.units]; omega
          have h80 : ¬ c ≥ 0x80 := by omega
          simp only [LitModel.strLoop, h80, if_false, hbs, ne_eq, not_false_eq_true, if_true]
          rw [ih rest us' hrest h1 (fun u hu' => hoku u (by simp [hu'])) f (buf ++ [c]) (by omega), hu]
          simp [encodeRunes_cons, encodeRune_ascii hc]
        · simp [hlt] at hsv


theorem plain : ∀ (fuel : Nat) (s us : List Nat), (∀ c ∈ s, c < 128) → (∀ c ∈ s, c ≠ 92) →
    LitSpec.sv fuel s = some us → encodeRunes us = s := by
  intro fuel
  induction fuel with
  | zero => intro s us _ _ h; simp [LitSpec.sv] at h
  | succ fuel ih =>
    intro s us hasc hnb hsv
    match s with
    | [] => simp [LitSpec.sv] at hsv; subst hsv; simp [encodeRunes]
    | c :: rest =>
      have hc := hasc c (by simp)
      have hb := hnb c (by simp)
      simp only [LitSpec.sv, hb, ne_eq, not_false_eq_true, if_true] at hsv
      by_cases hlt : LitSpec.isLT c = true
      · simp [hlt] at hsv
      · simp only [hlt, if_false] at hsv
        obtain ⟨us', h1, h2⟩ := map_some_eq hsv
        have hu : LitSpec.units c = [c] := by simp [LitSpec.units]; omega
        rw [hu] at h2
        subst h2
        rw [List.singleton_append, encodeRunes_cons, encodeRune_ascii hc,
          ih rest us' (fun x hx => hasc x (by simp [hx])) (fun x hx => hnb x (by simp [hx])) h1]
        rfl

/-- STRING LITERAL VALUE (ASCII source text): whenever ES5 §7.8.4 (+ Annex B.1.2) assigns the characters between the quotes
    the string value `us` (UTF-16 code units) — for ALL escapes: single-character, `\0`, `\xHH`, `\uHHHH`, legacy octal
    with one, two or three digits, non-escape characters, and line continuations `\`LF, `\`CR, `\`CRLF — otto's
    parseStringLiteral returns the UTF-8 encoding of exactly those code points, provided the text is outside
    `octal_escape_4to7`.  (Non-ASCII source characters, where `line_continuation_ls_ps` lives, are not covered; for
    `surrogate_escape` see `strlit_value_ascii_units`.) -/
theorem strlit_enc (lit us : List Nat) (hasc : ∀ c ∈ lit, c < 128)
    (hsv : LitSpec.sv (lit.length + 1) lit = some us) (hoku : ∀ u ∈ us, OKU u) :
    LitModel.parseStringLiteral lit = some (encodeRunes us) := by
  unfold LitModel.parseStringLiteral
  by_cases he : lit.isEmpty = true
  · have : lit = [] := by simpa using he
    subst this
    simp [LitSpec.sv] at hsv; subst hsv
    simp [encodeRunes]
  · by_cases hb : lit.contains 92 = true
    · simp only [he, Bool.false_eq_true, if_false, hb, Bool.not_true]
      have := core (lit.length + 1) lit us hasc hsv hoku (lit.length + 1) [] (by omega)
      simpa using this
    · have hnb : ∀ c ∈ lit, c ≠ 92 := by
        intro c hc h92; subst h92
        exact hb (by simpa using hc)
      simp only [he, Bool.false_eq_true, if_false, hb, Bool.not_false, if_true]
      rw [plain _ lit us hasc hnb hsv]

theorem utf16Decode_oku : ∀ us : List Nat, (∀ u ∈ us, OKU u) → utf16Decode us = us
  | [], _ => rfl
  | [u], h => by
    have := h u (by simp)
    unfold OKU at this
    have hn : ¬ (0xD800 ≤ u ∧ u < 0xE000) := by omega
    simp [utf16Decode, hn]
  | u :: v :: rest, h => by
    have hu := h u (by simp)
    unfold OKU at hu
    have h1 : ¬ (0xD800 ≤ u ∧ u < 0xDC00 ∧ 0xDC00 ≤ v ∧ v < 0xE000) := by omega
    have h2 : ¬ (0xD800 ≤ u ∧ u < 0xE000) := by omega
    rw [utf16Decode]
    simp only [h1, h2, if_false]
    rw [utf16Decode_oku (v :: rest) (fun x hx => h x (by simp [hx]))]

/-- … and when the value contains no surrogate code unit (outside `surrogate_escape`) that is the Go string of the value:
    model = `bytesOfUnits (SV)`, the token the correspondence compares -/
theorem strlit_value_ascii_units (lit us : List Nat) (hasc : ∀ c ∈ lit, c < 128)
    (hsv : LitSpec.sv (lit.length + 1) lit = some us) (hsur : ∀ u ∈ us, OKU u) :
    LitModel.parseStringLiteral lit = some (bytesOfUnits us) := by
  rw [strlit_enc lit us hasc hsv hsur, bytesOfUnits, utf16Decode_oku us hsur]

/-! ### numeric literals -/

theorem digitVal_dec (c : Nat) (h : LitSpec.isDec c = true) : GoStd.digitVal c = some (c - 48) ∧ LitSpec.hexVal c = some (c - 48) ∧ c - 48 < 10 := by
  have hc : 48 ≤ c ∧ c ≤ 57 := by simpa [LitSpec.isDec] using h
  refine ⟨?_, ?_, by omega⟩
  · simp [GoStd.digitVal, GoStd.isDigit, hc]
  · simp [LitSpec.hexVal, hc]

/-- any step function that behaves like the digit loop of strconv.ParseUint on decimal digits -/
theorem fold_dec (F : Option (Nat × Bool) → Nat → Option (Nat × Bool)) (ds : List Nat) (acc : Nat)
    (hF : ∀ acc c, LitSpec.isDec c = true → F (some (acc, false)) c = some (acc * 10 + (c - 48), false))
    (hd : ∀ c ∈ ds, LitSpec.isDec c = true) :
    ds.foldl F (some (acc, false)) = some (ds.foldl (fun v c => v * 10 + ((LitSpec.hexVal c).getD 0)) acc, false) := by
  induction ds generalizing acc with
  | nil => rfl
  | cons c r ih =>
    have hc := digitVal_dec c (hd c (by simp))
    simp only [List.foldl_cons, hF acc c (hd c (by simp)), hc.2.1, Option.getD_some]
    exact ih _ (fun x hx => hd x (by simp [hx]))

/-- NUMERIC LITERAL VALUE (decimal integers): for every DecimalIntegerLiteral without leading zero whose mathematical value
    (§7.8.3 MV) is below 2^63, parseNumberLiteral yields exactly that integer (as the int64 → float64 conversion of it),
    and MV is what `LitSpec.mv` assigns. -/
theorem numlit_decimal_int (ds : List Nat) (hne : ds ≠ []) (hd : ∀ c ∈ ds, LitSpec.isDec c = true)
    (h0 : ds.head? ≠ some 48) (hv : LitSpec.digitsVal 10 ds < 2^63) :
    LitModel.parseNumberLiteral ds = some (F64.ofInt (LitSpec.digitsVal 10 ds)) := by
  match ds, hne with
  | c :: r, _ =>
    have hc : 48 ≤ c ∧ c ≤ 57 := by simpa [LitSpec.isDec] using hd c (by simp)
    have hc48 : c ≠ 48 := by intro h; subst h; simp at h0
    have hplus : ¬ c = GoStd.ch '+' := by simp [GoStd.ch]; omega
    have hminus : ¬ c = GoStd.ch '-' := by simp [GoStd.ch]; omega
    have hpi : GoStd.parseInt (c :: r) 0 = .ok (LitSpec.digitsVal 10 (c :: r)) := by
      have hv64 : ¬ List.foldl (fun v c => v * 10 + (LitSpec.hexVal c).getD 0) 0 (c :: r) ≥ 2^64 := by
        have : List.foldl (fun v c => v * 10 + (LitSpec.hexVal c).getD 0) 0 (c :: r) = LitSpec.digitsVal 10 (c :: r) := rfl
        omega
      have hv63 : ¬ List.foldl (fun v c => v * 10 + (LitSpec.hexVal c).getD 0) 0 (c :: r) ≥ 2^63 := by
        have : List.foldl (fun v c => v * 10 + (LitSpec.hexVal c).getD 0) 0 (c :: r) = LitSpec.digitsVal 10 (c :: r) := rfl
        omega
      have hi : ¬ ((List.foldl (fun v c => v * 10 + (LitSpec.hexVal c).getD 0) 0 (c :: r) : Nat) : Int) ≥ 2 ^ 63 := by
        intro h; apply hv63; exact_mod_cast h
      have hcs : c = 49 ∨ c = 50 ∨ c = 51 ∨ c = 52 ∨ c = 53 ∨ c = 54 ∨ c = 55 ∨ c = 56 ∨ c = 57 := by omega
      unfold GoStd.parseInt GoStd.parseUint
      rcases hcs with h|h|h|h|h|h|h|h|h <;> subst h <;>
        (simp only [List.isEmpty_cons, Bool.false_eq_true, if_false, hplus, hminus, if_true]
         rw [fold_dec]
         · simp only [Bool.false_eq_true, false_and, if_false, hv64, show ¬ ((10:Nat) < 2 ∨ 10 > 36) by omega]
           simp [hi, LitSpec.digitsVal]
           simp only [List.foldl_cons, Nat.zero_mul, Nat.zero_add] at hi
           omega
         · intro acc c hc
           have h1 := digitVal_dec c hc
           have hne : ¬ c = GoStd.ch '_' := by
             have : 48 ≤ c ∧ c ≤ 57 := by simpa [LitSpec.isDec] using hc
             simp [GoStd.ch]; omega
           have : ¬ c - 48 ≥ 10 := by omega
           simp [hne, h1.1, this]
         · exact hd)
    unfold LitModel.parseNumberLiteral
    rw [hpi]


/-- … and that integer is the MV the specification assigns to the literal -/
theorem mv_decimal_int (ds : List Nat) (hne : ds ≠ []) (hd : ∀ c ∈ ds, LitSpec.isDec c = true)
    (h0 : ds.head? ≠ some 48) : LitSpec.mv ds = some (LitSpec.digitsVal 10 ds, 1) := by
  have htw : ∀ (l : List Nat), (∀ c ∈ l, LitSpec.isDec c = true) → l.takeWhile LitSpec.isDec = l := by
    intro l
    induction l with
    | nil => intro _; rfl
    | cons x xs ih => intro h; simp [List.takeWhile, h x (by simp), ih (fun y hy => h y (by simp [hy]))]
  have htw := htw ds hd
  match ds, hne with
  | c :: r, _ =>
    have hc48 : c ≠ 48 := by intro h; subst h; simp at h0
    have hmv : LitSpec.mv (c :: r) = LitSpec.mv.decimal (c :: r) := by
      unfold LitSpec.mv
      split
      · rename_i heq; simp at heq; exact absurd heq.1 hc48
      · rfl
    rw [hmv]
    unfold LitSpec.mv.decimal
    simp only [htw, List.drop_length]
    cases r with
    | nil => simp [LitSpec.digitsVal]
    | cons d r' => simp [hc48, LitSpec.digitsVal]

end OttoVerif.C03.LitThm
