/-
  C03/Punct — punctuator tokenisation.

  Model: parser/lexer.go `scan`, the punctuator arms (242-347) with `switch2/3/4/6` (356-414) and the comment arms (290-309).
  Spec : ES5 §7.7 — the longest Punctuator / DivPunctuator that is a prefix of the remaining text (§7: "the longest possible
         sequence of characters"), §7.4 comments (`//` to the end of the line, `/* … */`; an unclosed one is an error).
  Texts are over the punctuator characters and the space; tokens are given by their spelling.
-/
namespace OttoVerif.C03.Punct

/-- tokens so far (reversed), error flag -/
abbrev Res := List (List Nat) × Bool

def afterBlockComment : List Nat → Option (List Nat)
  | 42 :: 47 :: r => some r
  | _ :: r => afterBlockComment r
  | [] => none

/-- MODEL: one token (or a skipped comment / blank): `some (tok?, rest)`; `none` = end of text or unclosed comment (err) -/
def modelStep (s : List Nat) : Option (Option (List Nat) × List Nat) × Bool :=
  match s with
  | [] => (none, false)
  | 32 :: r => (some (none, r), false)
  | 43 :: r => (match r with | 61 :: r' => some (some [43,61], r') | 43 :: r' => some (some [43,43], r') | _ => some (some [43], r), false)   -- + switch3
  | 45 :: r => (match r with | 61 :: r' => some (some [45,61], r') | 45 :: r' => some (some [45,45], r') | _ => some (some [45], r), false)   -- -
  | 42 :: r => (match r with | 61 :: r' => some (some [42,61], r') | _ => some (some [42], r), false)                                         -- * switch2
  | 47 :: r =>                                                                                                                               -- /
    (match r with
     | 47 :: _ => (some (none, []), false)                       -- skipSingleLineComment (the texts have no line terminator)
     | 42 :: r' => (match afterBlockComment r' with | some r'' => (some (none, r''), false) | none => (none, true))
     | 61 :: r' => (some (some [47,61], r'), false)
     | _ => (some (some [47], r), false))
  | 37 :: r => (match r with | 61 :: r' => some (some [37,61], r') | _ => some (some [37], r), false)
  | 94 :: r => (match r with | 61 :: r' => some (some [94,61], r') | _ => some (some [94], r), false)
  | 60 :: r =>                                                                                                                               -- < switch4
    (match r with
     | 61 :: r' => some (some [60,61], r')
     | 60 :: 61 :: r' => some (some [60,60,61], r')
     | 60 :: r' => some (some [60,60], r')
     | _ => some (some [60], r), false)
  | 62 :: r =>                                                                                                                               -- > switch6
    (match r with
     | 61 :: r' => some (some [62,61], r')
     | 62 :: 61 :: r' => some (some [62,62,61], r')
     | 62 :: 62 :: 61 :: r' => some (some [62,62,62,61], r')
     | 62 :: 62 :: r' => some (some [62,62,62], r')
     | 62 :: r' => some (some [62,62], r')
     | _ => some (some [62], r), false)
  | 61 :: r => (match r with | 61 :: 61 :: r' => some (some [61,61,61], r') | 61 :: r' => some (some [61,61], r') | _ => some (some [61], r), false)
  | 33 :: r => (match r with | 61 :: 61 :: r' => some (some [33,61,61], r') | 61 :: r' => some (some [33,61], r') | _ => some (some [33], r), false)
  | 38 :: r => (match r with | 61 :: r' => some (some [38,61], r') | 38 :: r' => some (some [38,38], r') | _ => some (some [38], r), false)
  | 124 :: r => (match r with | 61 :: r' => some (some [124,61], r') | 124 :: r' => some (some [124,124], r') | _ => some (some [124], r), false)
  | c :: r => (some (some [c], r), false)      -- ~ ? : . , ; ( ) [ ] { }

/-- ES5 §7.7 Punctuator and DivPunctuator, longest first -/
def punctuators : List (List Nat) :=
  [[62,62,62,61], [62,62,62], [61,61,61], [33,61,61], [60,60,61], [62,62,61],
   [60,61], [62,61], [61,61], [33,61], [43,43], [45,45], [60,60], [62,62], [38,38], [124,124],
   [43,61], [45,61], [42,61], [37,61], [38,61], [124,61], [94,61], [47,61],
   [123], [125], [40], [41], [91], [93], [46], [59], [44], [60], [62], [43], [45], [42], [37], [38], [124], [94], [33], [126],
   [63], [58], [61], [47]]

def isPrefix : List Nat → List Nat → Bool
  | [], _ => true
  | _ :: _, [] => false
  | a :: p, b :: s => a == b && isPrefix p s

/-- SPEC step -/
def specStep (s : List Nat) : Option (Option (List Nat) × List Nat) × Bool :=
  match s with
  | [] => (none, false)
  | 32 :: r => (some (none, r), false)
  | 47 :: 47 :: _ => (some (none, []), false)
  | 47 :: 42 :: r => (match afterBlockComment r with | some r' => (some (none, r'), false) | none => (none, true))
  | c :: r =>
    match punctuators.find? (fun p => isPrefix p (c :: r)) with
    | some p => (some (some p, (c :: r).drop p.length), false)
    | none => (some (some [c], r), false)

def run (step : List Nat → Option (Option (List Nat) × List Nat) × Bool) : Nat → List Nat → List (List Nat) → Res
  | 0, _, acc => (acc.reverse, false)
  | f+1, s, acc =>
    match step s with
    | (none, err) => (acc.reverse, err)
    | (some (none, r), _) => run step f r acc
    | (some (some t, r), _) => run step f r (t :: acc)

def modelTokens (s : List Nat) : Res := run modelStep (s.length + 1) s []
def specTokens (s : List Nat) : Res := run specStep (s.length + 1) s []

end OttoVerif.C03.Punct
