/-
  C09/Driver — line protocol front end (core-only).
  request:  <op> <how><receiver> <arg>*         reply:  <model> <spec> <dev>
    how       M  member call  r.op(args)              (receiver: string, []uint16 string, String object, u, n)
              C  String.prototype.op.call(r, args)
              F  f(args) with f = String.prototype.op inside a function (this = undefined; receiver token u)
    receiver  a value token (u n b:0 b:1 f:<16hex> s:<hex UTF-8 bytes> i64:<dec> …), w:<hex code units>
              (a []uint16 string built by String.fromCharCode), S:<hex bytes> (new String), O:<hex bytes>
              (object whose toString returns the string);  `-` for fromCharCode
    results   s:<hex code units>  i:<int>  nan  a<n>:<hex>,<hex>…  undef  throw:TypeError  panic
-/
import OttoVerif.Base.Proto
import OttoVerif.Base.ParseNumber
import OttoVerif.C09.Spec
namespace OttoVerif.C09.Driver
open OttoVerif.F64 OttoVerif.Proto OttoVerif.Str OttoVerif.C05 OttoVerif.C09

def decimal (i : Int) : List Nat :=
  let ds := (Nat.toDigits 10 i.natAbs).map (·.toNat)
  if i < 0 then 45 :: ds else ds

/-- number → string for the numbers the generator uses (integers below 10^21, NaN, ±Infinity) -/
def numStr : Val → List Nat
  | .int _ i => decimal i
  | .f64 .nan => [78, 97, 78]
  | .f64 (.inf s) => (if s then [45] else []) ++ [73, 110, 102, 105, 110, 105, 116, 121]
  | .f64 (.fin s m e) =>
    if isIntegral m e ∧ truncAbs m e < 10^21 then decimal (truncInt (.fin s m e)) else [63]
  | _ => [63]

def env : Env := { c5 := { pn := OttoVerif.PN.parseNumber }, numStr := numStr }

def nk? : String → Option NK
  | "i8" => some .i8 | "i16" => some .i16 | "i32" => some .i32 | "i64" => some .i64 | "int" => some .int
  | "u8" => some .u8 | "u16" => some .u16 | "u32" => some .u32 | "u64" => some .u64 | "uint" => some .uint
  | _ => none

def val? (t : String) : Option Val :=
  if t = "u" then some .undef
  else if t = "n" then some .null
  else match t.splitOn ":" with
    | ["b", "0"] => some (.bool false)
    | ["b", "1"] => some (.bool true)
    | ["f", h] => (f64? h).map .f64
    | ["s", h] => (bytes? h).map .str
    | [k, i] => do let k ← nk? k; let i ← int? i; pure (.int k i)
    | _ => none

def recv? (t : String) : Option Recv :=
  match t.splitOn ":" with
  | ["w", h] => (units? h).map .val16
  | ["S", h] => (bytes? h).map .strObj
  | ["O", h] => (bytes? h).map .obj
  | _ => (val? t).map .val

def resOut : Res → String
  | .str us => "s:" ++ unitsOut us
  | .int i => "i:" ++ toString i
  | .nan => "nan"
  | .arr xs => "a" ++ toString xs.length ++ ":" ++ ",".intercalate (xs.map unitsOut)
  | .undef => "undef"
  | .bool b => if b then "b:true" else "b:false"
  | .throwType => "throw:TypeError"
  | .throwScript => "throw:Error"
  | .panic => "panic"

def isSurr (u : Nat) : Bool := 0xD800 ≤ u ∧ u ≤ 0xDFFF
def hasAstral (s : List Nat) : Bool := (decodeRunes s).any (· ≥ 0x10000)
def loneSurrogate : Recv → Bool
  | .val16 us => U (bytesOfUnits us) != us
  | _ => false

def isNumArg (v : Val) : Bool := match v with | .undef => false | _ => true

/-- |ToNumber(v)| ≥ 2^63: Go's float→int64 conversion is out of range (C05 region toInt_big) -/
def bigInt (v : Val) : Bool :=
  match toFloat env.c5 v with
  | .fin s m e => decide ((truncInt (.fin s m e)).natAbs ≥ 2^63)
  | _ => false

def isStrObj : Recv → Bool | .strObj _ => true | _ => false
def isObj : Recv → Bool | .obj _ => true | _ => false
def optSurr : Option Nat → Bool | some u => isSurr u | none => false
def emptySep (v : Val) : Bool := match v with | .undef => false | sv => (toStr env sv).isEmpty

/-- deviation regions: decidable predicates of the request (never of model ≠ spec) -/
def devs (op : String) (how : String) (r0 : Recv) (rm : Recv) (args : List Val) : List String :=
  let value := C09.thisString env rm
  let a0 := argAt args 0
  let posUnit : Option Nat :=        -- the code unit the model's stringAt finds, for charAt-like ops
    if op = "index" then
      match rm with
      | .strObj s => stringAt s (stringToArrayIndex (toStr env a0))
      | _ => none
    else if coercible rm then stringAt value (number env a0).i
    else none
  -- own-property observers: the unit of the computed index property named by the key, unless an expando has that name
  let ownUnit : Option Nat :=
    if op == "desc" || op == "isenum" || op == "define" then
      let o := SObj.build value ((args.drop 1).map (toStr env))
      if o.props.contains (toStr env a0) then none else o.indexUnit (toStr env a0)
    else none
  let d : List (String × Bool) := [
    ("call_undefined_this", how == "C" && r0 == .val .undef),
    ("lone_surrogate", loneSurrogate r0),
    ("charAt_surrogate", ((op == "charAt" || op == "index") && optSurr posUnit) || (op == "desc" && optSurr ownUnit)),
    ("case_special", (op == "toLowerCase" && (U value).any (fun u => !isSurr u && Spec.lowerUnit u != [goLower u]))
        || (op == "toUpperCase" && (U value).any (fun u => !isSurr u && Spec.upperUnit u != [goUpper u]))),
    ("case_astral", (op == "toLowerCase" && (decodeRunes value).any (fun c => decide (c ≥ 0x10000) && goLower c != c))
        || (op == "toUpperCase" && (decodeRunes value).any (fun c => decide (c ≥ 0x10000) && goUpper c != c)))
  ]
  (d.filter (·.2)).map (·.1)

def reply (m s : Res) (dev : List String) : String :=
  resOut m ++ " " ++ resOut s ++ " " ++ (if dev.isEmpty then "-" else ",".intercalate dev)

abbrev Method := Env → Recv → List Val → Res

def methods (op : String) : Option (Method × Method) :=
  match op with
  | "charAt" => some (C09.charAt, Spec.charAt)
  | "charCodeAt" => some (C09.charCodeAt, Spec.charCodeAt)
  | "concat" => some (C09.concat, Spec.concat)
  | "indexOf" => some (C09.indexOf, Spec.indexOf)
  | "lastIndexOf" => some (C09.lastIndexOf, Spec.lastIndexOf)
  | "slice" => some (C09.slice, Spec.slice)
  | "substring" => some (C09.substring, Spec.substring)
  | "substr" => some (C09.substr, Spec.substr)
  | "split" => some (C09.split, Spec.split)
  | "trim" => some (C09.trim, Spec.trim)
  | "localeCompare" => some (C09.localeCompare, Spec.localeCompare)
  | "toLowerCase" => some (C09.toLowerCase, Spec.toLowerCase)
  | "toUpperCase" => some (C09.toUpperCase, Spec.toUpperCase)
  | "length" => some (fun E r _ => C09.length E r, fun E r _ => Spec.length E r)
  | "index" => some (fun E r a => C09.index E r (argAt a 0), fun E r a => Spec.index E r (argAt a 0))
  | _ => none

def lexLe : List Nat → List Nat → Bool
  | [], _ => true
  | _ :: _, [] => false
  | a :: as, b :: bs => if a < b then true else if a > b then false else lexLe as bs

def sortNames (xs : List (List Nat)) : List (List Nat) := xs.mergeSort lexLe

def ownOps : List String := ["hasown", "in", "desc", "isenum", "define", "keys", "ownnames", "forin"]

/-- own-property observers on a String object / primitive string (see Model `SObj`, Spec §15.5.5.2) -/
def handleOwn (op : String) (how : String) (r0 : Recv) (args : List Val) : String :=
  match (if how = "C" then some (callThis r0) else memberThis env r0) with
  | none => "bad-op"
  | some rm =>
    let listOp := op == "keys" || op == "ownnames" || op == "forin"
    let key := toStr env (argAt args 0)
    let exps := ((if listOp then args else args.drop 1).map (toStr env))
    let o := SObj.build (C09.thisString env rm) exps
    let S := Spec.thisStringNoCheck env r0
    let (m, sp) : Res × Res :=
      if op == "hasown" then (.bool (o.hasOwn key), .bool (Spec.hasOwn S exps key))
      else if op == "in" then (.bool (o.hasProperty key), .bool (Spec.hasOwn S exps key))
      else if op == "desc" then (o.desc key, Spec.desc S exps key)
      else if op == "isenum" then (.bool (o.isEnumerable key), .bool (Spec.isEnumerable S exps key))
      else if op == "define" then (o.defineX key, Spec.defineX S exps key)
      else if op == "ownnames" then (.arr (sortNames o.ownNames), .arr (sortNames (Spec.ownNames S exps)))
      else (.arr (sortNames o.keys), .arr (sortNames (Spec.keys S exps)))
    reply m sp (devs op how r0 rm args)

/-! scripted operands:  P<value>  a primitive;  O<out>/<out>/…  an object whose valueOf = toString logs the call
    and returns the next <out> (a value token) or throws (`!`);  reply tokens are `<log>;<result>` with the log
    written as R (receiver) and argument numbers -/
def outcome? (t : String) : Option Outcome :=
  if t = "!" then some .throw else if t = "@" then some .retObj else (val? t).map .ret

/-- a method script: `-` absent, `~` not callable, else `<out>/<out>/…` -/
def methodScript? (t : String) : Option MethodScript :=
  if t = "-" then some .absent else if t = "~" then some .notCallable
  else (t.splitOn "/").mapM outcome? |>.map .outs

def operand? (t : String) : Option Operand :=
  if t.startsWith "P" then (val? (t.drop 1).toString).map .prim
  else if t.startsWith "O" then ((t.drop 1).toString.splitOn "/").mapM outcome? |>.map .obj
  else if t.startsWith "D" then
    match (t.drop 1).toString.splitOn "|" with
    | [v, ts] => do let v ← methodScript? v; let ts ← methodScript? ts; pure (.dual v ts)
    | _ => none
  else none

def logOut (log : Log) : String :=
  if log.isEmpty then "-" else String.join (log.map fun e =>
    (if e.1 = 0 then "R" else toString (e.1 - 1)) ++ (if e.2 = 1 then "v" else if e.2 = 2 then "t" else ""))

def seqDevs (_m : String) (_r : Run) : List String := []    -- no order deviation left

def handleSeq (m : String) (rt : String) (as : List String) : String :=
  match operand? rt, as.mapM operand? with
  | some recv, some args =>
    let r : Run := ⟨recv, args⟩
    if (C09.pureMethod m).isNone then "bad-op" else
    let (ml, mr) := (goPlan env m).run r
    let (sl, sr) := (Spec.es5Plan env m).run r
    let dev := seqDevs m r
    logOut ml ++ ";" ++ resOut mr ++ " " ++ logOut sl ++ ";" ++ resOut sr ++ " " ++ (if dev.isEmpty then "-" else ",".intercalate dev)
  | _, _ => "bad-op"

/-- `plus w:<a> w:<b>`: a + b of two []uint16 strings;  `eqpair w:<a> w:<b>`: (a + b) === String.fromCharCode(a…, b…).
    The evaluator converts each operand with Value.string() (evaluate.go), so a lone surrogate becomes U+FFFD. -/
def handlePair (op : String) (ta tb : String) : String :=
  match recv? ta, recv? tb with
  | some (.val16 a), some (.val16 b) =>
    -- evaluate.go (since fix a08e94f): when an operand is held as []uint16 the code units are concatenated and
    -- the result is utf16Value(units); === compares the Value.string() of both sides
    let sum := utf16Value (a ++ b)
    if op == "plus" then reply (.str sum) (.str (a ++ b)) []
    else reply (.bool (bytesOfUnits sum == bytesOfUnits (a ++ b))) (.bool true) []
  | _, _ => "bad-op"

def handle (ws : List String) : String :=
  match ws with
  | ["plus", a, b] => handlePair "plus" a b
  | ["eqpair", a, b] => handlePair "eqpair" a b
  | "seq" :: m :: rt :: as => handleSeq m rt as
  | "fromCharCode" :: "-" :: as =>
    match as.mapM val? with
    | some args => reply (C09.fromCharCode env args) (Spec.fromCharCode env args) (devs "fromCharCode" "-" (.val .undef) (.val .undef) args)
    | none => "bad-op"
  | op :: rt :: as =>
    let how := (rt.take 1).toString
    if ownOps.contains op then
      match recv? (rt.drop 1).toString, as.mapM val? with
      | some r0, some args => handleOwn op how r0 args
      | _, _ => "bad-op"
    else
    match methods op, recv? (rt.drop 1).toString, as.mapM val? with
    | some (mf, sf), some r0, some args =>
      let nullish := r0 = .val .undef ∨ r0 = .val .null
      -- the `this` value the built-in receives on each side
      let rm? : Option Recv :=
        if how = "M" then (if op = "length" ∨ op = "index" then memberThis env r0 else memberCallThis r0)
        else if how = "T" then memberThisOverridden sZZZ r0         -- member call, String.prototype.toString replaced
        else if how = "C" then some (callThis r0) else some r0
      match rm? with
      | none => reply .throwType .throwType []          -- member access on undefined / null (§11.2.1)
      | some rm =>
        let s := if (how = "M" ∨ how = "T") ∧ nullish then Res.throwType
                 else if how = "T" then sf env (Spec.thisOverridden sZZZ r0) args else sf env r0 args
        reply (mf env rm args) s (devs op how r0 rm args)
    | _, _, _ => "bad-op"
  | _ => "bad-op"

end OttoVerif.C09.Driver
