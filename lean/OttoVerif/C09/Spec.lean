/-
  C09/Spec — what ES5 prescribes for the String built-ins, written from the standard
  (ES5.1 §15.5.3.2, §15.5.4.4–.20, §15.5.5, Annex B.2.3; §9.4 ToInteger, §9.7 ToUint16, §9.8 ToString,
  §9.10 CheckObjectCoercible).  A String value is a finite sequence of 16-bit code units: `List Nat`.
  Positions and lengths count code units.  Argument values are C05 `Val`s; a Go string argument denotes
  the code units `U bytes`.
-/
import OttoVerif.C09.Model
import OttoVerif.C05.Spec
namespace OttoVerif.C09.Spec
open OttoVerif.F64 OttoVerif.Str OttoVerif.C05 OttoVerif.C09

/-- §9.4 ToInteger as an integer or ±∞: ToNumber, then NaN ↦ +0, ±∞ kept, else sign(x)·floor(|x|) -/
def toInteger (E : Env) (v : Val) : EInt := EInt.ofNumber (C05.Spec.toNumber E.c5 v)

/-- min(max(x, lo), hi) -/
def clamp (x : EInt) (lo hi : Int) : Int :=
  match x with
  | .ninf => min lo hi
  | .pinf => hi
  | .fin i => min (max i lo) hi

/-- an optional position argument: `undefined` stands for the given default, anything else is ToInteger'd -/
def optPos (E : Env) (v : Val) (dflt : EInt) : EInt :=
  match v with
  | .undef => dflt
  | e => toInteger E e

/-- §9.8 ToString of an argument value, as code units -/
def toString (E : Env) (v : Val) : List Nat := U (toStr E v)

/-- §9.10 CheckObjectCoercible(this) then §9.8 ToString(this); `none` = TypeError.
    (ToString of an object is ToPrimitive(hint String), i.e. its toString() result.) -/
def thisString (E : Env) : Recv → Option (List Nat)
  | .val .undef => none
  | .val .null => none
  | .val v => some (toString E v)
  | .val16 us => some us
  | .strObj s => some (U s)
  | .obj s => some (U s)

/-- ToString(this) without the coercibility check (Annex B.2.3 step 1) -/
def thisStringNoCheck (E : Env) : Recv → List Nat
  | .val v => toString E v
  | .val16 us => us
  | .strObj s => U s
  | .obj s => U s

def withThis (E : Env) (r : Recv) (f : List Nat → Res) : Res :=
  match thisString E r with
  | none => .throwType
  | some S => f S

/-- the substring of S from position `a` (inclusive) to `b` (exclusive) -/
def sub (S : List Nat) (a b : Nat) : List Nat := (S.drop a).take (b - a)

/-- §15.5.3.2 String.fromCharCode -/
def fromCharCode (E : Env) (args : List Val) : Res :=
  .str (args.map fun v => (C05.Spec.toUint16 E.c5 v).toNat)

/-- §15.5.4.4 charAt -/
def charAt (E : Env) (r : Recv) (args : List Val) : Res :=
  withThis E r fun S =>
    match toInteger E (argAt args 0) with
    | .fin pos => if pos < 0 ∨ pos ≥ S.length then .str [] else .str [S.getD pos.toNat 0]
    | _ => .str []

/-- §15.5.4.5 charCodeAt -/
def charCodeAt (E : Env) (r : Recv) (args : List Val) : Res :=
  withThis E r fun S =>
    match toInteger E (argAt args 0) with
    | .fin pos => if pos < 0 ∨ pos ≥ S.length then .nan else .int (S.getD pos.toNat 0)
    | _ => .nan

/-- §15.5.4.6 concat -/
def concat (E : Env) (r : Recv) (args : List Val) : Res :=
  withThis E r fun S => .str (S ++ (args.map (toString E)).flatten)

/-- all code units of T occur in S starting at k -/
def matchAt (S T : List Nat) (k : Nat) : Bool :=
  decide (k + T.length ≤ S.length) && ((S.drop k).take T.length == T)

/-- smallest k' ≥ k (k' ≤ k + fuel - 1) with a match, else −1 -/
def searchUp (S T : List Nat) : Nat → Nat → Int
  | 0, _ => -1
  | fuel+1, k => if matchAt S T k then k else searchUp S T fuel (k + 1)

/-- largest k' ≤ k with a match, else −1 -/
def searchDown (S T : List Nat) : Nat → Int
  | 0 => if matchAt S T 0 then 0 else -1
  | k+1 => if matchAt S T (k + 1) then ((k + 1 : Nat) : Int) else searchDown S T k

/-- §15.5.4.7 indexOf -/
def indexOf (E : Env) (r : Recv) (args : List Val) : Res :=
  withThis E r fun S =>
    let searchStr := toString E (argAt args 0)
    let pos := toInteger E (argAt args 1)
    let start := (clamp pos 0 S.length).toNat
    .int (searchUp S searchStr (S.length - start + 1) start)

/-- §15.5.4.8 lastIndexOf: a NaN position means +∞ -/
def lastIndexOf (E : Env) (r : Recv) (args : List Val) : Res :=
  withThis E r fun S =>
    let searchStr := toString E (argAt args 0)
    let numPos := C05.Spec.toNumber E.c5 (argAt args 1)
    let pos := if isNaN numPos then EInt.pinf else toInteger E (argAt args 1)
    let start := (clamp pos 0 S.length).toNat
    .int (searchDown S searchStr start)

/-- §15.5.4.13 steps 6–7: a relative position (negative counts from the end), clamped to [0, len] -/
def relIndex (len : Int) (x : EInt) : Int :=
  match x with
  | .ninf => 0
  | .pinf => len
  | .fin i => if i < 0 then max (len + i) 0 else min i len

/-- §15.5.4.13 slice -/
def slice (E : Env) (r : Recv) (args : List Val) : Res :=
  withThis E r fun S =>
    let len : Int := S.length
    let from_ := relIndex len (toInteger E (argAt args 0))
    let to := relIndex len (optPos E (argAt args 1) (.fin len))      -- step 5: end undefined means len
    let span := max (to - from_) 0
    .str (sub S from_.toNat (from_ + span).toNat)

/-- §15.5.4.15 substring -/
def substring (E : Env) (r : Recv) (args : List Val) : Res :=
  withThis E r fun S =>
    let len : Int := S.length
    let finalStart := clamp (toInteger E (argAt args 0)) 0 len
    let finalEnd := clamp (optPos E (argAt args 1) (.fin len)) 0 len   -- step 5: end undefined means len
    .str (sub S (min finalStart finalEnd).toNat (max finalStart finalEnd).toNat)

/-- Annex B.2.3 step 5: Result(2) if it is positive or zero, else max(Result(4) + Result(2), 0) -/
def substrStart (len : Int) (x : EInt) : Int :=
  match x with
  | .ninf => 0
  | .pinf => len        -- +∞: Result(6) is −∞ ≤ 0, exactly as for any start ≥ len
  | .fin i => if i ≥ 0 then i else max (len + i) 0

/-- Annex B.2.3 substr (step 1 is a plain ToString(this): no coercibility check) -/
def substr (E : Env) (r : Recv) (args : List Val) : Res :=
  let S := thisStringNoCheck E r
  let len : Int := S.length
  let r5 := substrStart len (toInteger E (argAt args 0))
  let r3 : EInt := optPos E (argAt args 1) .pinf                       -- step 3: length undefined means +∞
  let r6 := clamp r3 0 (len - r5)
  if r6 ≤ 0 then .str [] else .str (sub S r5.toNat (r5 + r6).toNat)

/-- §15.5.4.14 SplitMatch(S, q, R) for a String R: the end index, or failure -/
def splitMatch (S : List Nat) (q : Nat) (R : List Nat) : Option Nat :=
  if matchAt S R q then some (q + R.length) else none

/-- §15.5.4.14 step 13 loop; A is the array built so far -/
def splitLoop (S R : List Nat) (lim : Nat) : Nat → Nat → Nat → List (List Nat) → List (List Nat)
  | 0, _, _, A => A
  | fuel+1, p, q, A =>
    if q ≥ S.length then A ++ [sub S p S.length]         -- steps 14–16
    else match splitMatch S q R with
      | none => splitLoop S R lim fuel p (q + 1) A
      | some e =>
        if e = p then splitLoop S R lim fuel p (q + 1) A
        else
          let A := A ++ [sub S p q]
          if A.length = lim then A else splitLoop S R lim fuel e e A

/-- §15.5.4.14 split with a separator that is not a RegExp -/
def split (E : Env) (r : Recv) (args : List Val) : Res :=
  withThis E r fun S =>
    let lim : Int := match argAt args 1 with
      | .undef => 4294967295
      | l => C05.Spec.toUint32 E.c5 l
    if lim = 0 then .arr [] else
    match argAt args 0 with
    | .undef => .arr [S]
    | sv =>
      let R := toString E sv
      if S.isEmpty then (if (splitMatch S 0 R).isSome then .arr [] else .arr [S])
      else .arr (splitLoop S R lim.toNat (2 * S.length + 2) 0 0 [])

/-- §7.2 WhiteSpace (TAB VT FF SP NBSP BOM and category Zs) and §7.3 LineTerminator (LF CR LS PS).
    Zs is taken at the Unicode versions contemporary with ES5 (5.1–6.2): it includes U+180E. -/
def isWhite (u : Nat) : Bool :=
  u = 0x9 || u = 0xB || u = 0xC || u = 0x20 || u = 0xA0 || u = 0xFEFF
  || u = 0x1680 || u = 0x180E || (0x2000 ≤ u && u ≤ 0x200A) || u = 0x202F || u = 0x205F || u = 0x3000
  || u = 0xA || u = 0xD || u = 0x2028 || u = 0x2029

/-- §15.5.4.20 trim -/
def trim (E : Env) (r : Recv) (_args : List Val) : Res :=
  withThis E r fun S => .str ((S.dropWhile isWhite).reverse.dropWhile isWhite).reverse

/-- code points of a unit sequence (a lone surrogate stands for itself) -/
def codePoints : List Nat → List Nat
  | [] => []
  | [u] => [u]
  | u :: v :: rest =>
    if 0xD800 ≤ u ∧ u < 0xDC00 ∧ 0xDC00 ≤ v ∧ v < 0xE000 then
      ((u - 0xD800) * 1024 + (v - 0xDC00) + 0x10000) :: codePoints rest
    else u :: codePoints (v :: rest)

def lexLt : List Nat → List Nat → Bool
  | [], [] => false
  | [], _ :: _ => true
  | _ :: _, [] => false
  | a :: as, b :: bs => if a < b then true else if a > b then false else lexLt as bs

/-- §15.5.4.9 localeCompare.  ES5 leaves the order implementation-defined but demands a consistent
    total order that returns 0 exactly for equal strings; the oracle fixes code-point order and the
    result is reported as a sign. -/
def localeCompare (E : Env) (r : Recv) (args : List Val) : Res :=
  withThis E r fun S =>
    let that := toString E (argAt args 0)
    if lexLt (codePoints S) (codePoints that) then .int (-1)
    else if S = that then .int 0 else .int 1

/-- §15.5.5.1 length -/
def length (E : Env) (r : Recv) : Res :=
  match r with
  | .val (.str s) => .int (U s).length
  | .val16 us => .int us.length
  | .strObj s => .int (U s).length
  | _ => let _ := E; .undef

/-- the array-index reading of a property name P with ToString(abs(ToInteger(P))) = P:
    "0", or a digit string without leading zero -/
def canonIndex (P : List Nat) : Option Nat :=
  match P with
  | [] => none
  | [48] => some 0
  | d :: rest =>
    if 49 ≤ d ∧ d ≤ 57 ∧ rest.all (fun c => 48 ≤ c ∧ c ≤ 57)
    then some ((d :: rest).foldl (fun n c => n * 10 + (c - 48)) 0) else none

/-- §15.5.5.2 [[GetOwnProperty]] for an index-like name on a String (no such ordinary property) -/
def index (E : Env) (r : Recv) (key : Val) : Res :=
  let S? : Option (List Nat) := match r with
    | .val (.str s) => some (U s)
    | .val16 us => some us
    | .strObj s => some (U s)
    | _ => none
  match S? with
  | none => .undef
  | some S =>
    match canonIndex (toStr E key) with
    | some i => if i < S.length then .str [S.getD i 0] else .undef
    | none => .undef

/-- the lower / upper case form of one code unit per the Unicode Character Database (simple mappings of
    UnicodeData.txt and the unconditional mappings of SpecialCasing.txt); surrogate code units and
    unlisted units map to themselves -/
def lowerUnit (u : Nat) : List Nat :=
  match CaseTables.specCase.find? (fun e => e.1 == u) with
  | some (_, l, _) => l
  | none => [u]
def upperUnit (u : Nat) : List Nat :=
  match CaseTables.specCase.find? (fun e => e.1 == u) with
  | some (_, _, up) => up
  | none => [u]

/-- §15.5.4.16 toLowerCase: every character (code unit) is replaced by its lower case form -/
def toLowerCase (E : Env) (r : Recv) (_args : List Val) : Res :=
  withThis E r fun S => .str (S.flatMap lowerUnit)

/-- §15.5.4.18 toUpperCase -/
def toUpperCase (E : Env) (r : Recv) (_args : List Val) : Res :=
  withThis E r fun S => .str (S.flatMap upperUnit)

/-! ## §15.5.5 / §15.5.5.2 / §8.12: the own properties of a String object whose value has the code units S:
     the array indices below the length (value: that one unit; not writable, ENUMERABLE, not configurable),
     "length" (not writable, not enumerable, not configurable) and the properties created on it. -/

/-- names are Go strings (bytes); an index name is the canonical decimal numeral -/
def isIndexBelow (S : List Nat) (name : List Nat) : Option Nat :=
  match canonIndex name with
  | some i => if i < S.length then some i else none
  | none => none

/-- the expandos that §8.12.5 [[Put]] actually creates, in creation order: "length" and the index names are
    not writable (§8.12.4 [[CanPut]] is false), so assigning to them creates nothing -/
def expandos (S : List Nat) : List (List Nat) → List (List Nat) → List (List Nat)
  | acc, [] => acc
  | acc, n :: rest =>
    if n = sLength ∨ (isIndexBelow S n).isSome ∨ acc.contains n then expandos S acc rest
    else expandos S (acc ++ [n]) rest

/-- §15.5.5.2 [[GetOwnProperty]] ≠ undefined -/
def hasOwn (S : List Nat) (exps : List (List Nat)) (name : List Nat) : Bool :=
  (isIndexBelow S name).isSome || name == sLength || (expandos S [] exps).contains name

/-- the decimal numeral of n as bytes -/
def numeral (n : Nat) : List Nat := (Nat.toDigits 10 n).map (·.toNat)

/-- all own property names: indices ascending, "length", expandos in creation order (ES5 fixes no order;
    results are compared as sets) -/
def ownNames (S : List Nat) (exps : List (List Nat)) : List (List Nat) :=
  (List.range S.length).map numeral ++ [sLength] ++ expandos S [] exps

/-- the enumerable ones (§15.2.3.14 Object.keys, §12.6.4 for-in over own properties) -/
def keys (S : List Nat) (exps : List (List Nat)) : List (List Nat) :=
  (List.range S.length).map numeral ++ expandos S [] exps

/-- §8.10.4 FromPropertyDescriptor([[GetOwnProperty]](name)), same encoding as the model -/
def desc (S : List Nat) (exps : List (List Nat)) (name : List Nat) : Res :=
  match isIndexBelow S name with
  | some i => .arr [[S.getD i 0], [0, 1, 0]]
  | none =>
    if name = sLength then .arr [[S.length], [0, 0, 0], []]
    else if (expandos S [] exps).contains name then .arr [[1], [1, 1, 1], []]
    else .undef

/-- §15.2.4.7 propertyIsEnumerable -/
def isEnumerable (S : List Nat) (exps : List (List Nat)) (name : List Nat) : Bool :=
  (isIndexBelow S name).isSome || (expandos S [] exps).contains name

/-- Object.defineProperty(o, name, {value: "x"}) then o[name] (§8.12.9 with the String [[GetOwnProperty]]):
    an index below the length or "length" is not writable and not configurable and "x" is a different value
    (for a one-unit value equal to "x" nothing changes) → TypeError; otherwise the property holds "x" -/
def defineX (S : List Nat) (exps : List (List Nat)) (name : List Nat) : Res :=
  match isIndexBelow S name with
  | some i => if S.getD i 0 = 120 then .str [120] else .throwType
  | none => if name = sLength then .throwType else let _ := exps; .str [120]

/-- the receiver as ES5 sees it when String.prototype.toString has been replaced by a function returning `t`:
    §11.2.3 step 6 passes GetBase(ref) as this – a primitive string stays the primitive and §9.8 ToString of a
    String value calls nothing; a String OBJECT is converted by §9.1 ToPrimitive(hint String) → the replaced toString -/
def thisOverridden (t : List Nat) : Recv → Recv
  | .strObj _ => .obj t
  | r => r

/-! ## Order of the abstract operations (the step order of each algorithm in §15.5.4): CheckObjectCoercible(this)
     and ToString(this) first, then the arguments from left to right, each converted exactly once, whether
     or not the result will need it.  An undefined argument is "converted" without observable effect. -/

/-- §15.5.4.11 replace for a String searchValue and a `$`-free String replaceValue: the first occurrence -/
def replaceUnits (S T R : List Nat) : List Nat :=
  match searchUp S T (S.length + 1) 0 with
  | Int.ofNat k => S.take k ++ R ++ S.drop (k + T.length)
  | _ => S

def replace (E : Env) (r : Recv) (args : List Val) : Res :=
  withThis E r fun S => .str (replaceUnits S (toString E (argAt args 0)) (toString E (argAt args 1)))

def pureMethod (m : String) : Option (Env → Recv → List Val → Res) :=
  match m with
  | "charAt" => some charAt | "charCodeAt" => some charCodeAt | "concat" => some concat
  | "indexOf" => some indexOf | "lastIndexOf" => some lastIndexOf | "slice" => some slice
  | "substring" => some substring | "substr" => some substr | "split" => some split
  | "trim" => some trim | "localeCompare" => some localeCompare | "toLowerCase" => some toLowerCase
  | "toUpperCase" => some toUpperCase | "replace" => some replace
  | _ => none

/-- the ES5 step order.  slice/substring (§15.5.4.13/.15 steps 4–5) and substr (B.2.3 steps 2–3) convert start, then
    end/length unless it is undefined; indexOf/lastIndexOf (§15.5.4.7/.8 steps 3–4) convert searchString, then
    position; split (§15.5.4.14 steps 5, 8) converts limit (unless undefined), THEN separator — before step 9
    returns for lim = 0; replace (§15.5.4.11) converts searchValue and then replaceValue, match or not;
    charAt/charCodeAt (§15.5.4.4/.5 steps 2–3) convert this, then pos. -/
def es5Order (m : String) (r : Run) (d : Done) : Option Nat :=
  if !recvOK r && m != "substr" then none else      -- substr (Annex B.2.3) has no coercibility check
  let all := List.range (r.args.length + 1)
  let opt (k : Nat) : List Nat := if present r k then [k + 1] else []
  match m with
  | "charAt" | "charCodeAt" => inOrder [0, 1] d                 -- ToInteger(pos) is applied to whatever was passed
  | "concat" => inOrder all d
  | "indexOf" => inOrder ([0, 1] ++ (if r.args.length ≥ 2 then [2] else [])) d   -- ToInteger(position), undefined included
  | "lastIndexOf" => inOrder ([0, 1] ++ opt 1) d
  | "localeCompare" => inOrder [0, 1] d
  | "slice" | "substring" | "substr" => inOrder ([0, 1] ++ opt 1) d
  | "split" => inOrder ([0] ++ opt 1 ++ opt 0) d
  | "replace" => inOrder [0, 1, 2] d
  | _ => inOrder [0] d

/-- the abstract operation applied to each operand: ToString (§9.8, hint String) for this, searchString, separator,
    searchValue / replaceValue, that, and every concat argument (§15.5.4.6 step 5.b); ToInteger / ToNumber / ToUint32
    (§9.4, §9.3, §9.6: hint Number) for pos, position, start, end, length and limit -/
def es5Hint (m : String) (who : Nat) : Hint :=
  if who = 0 then .str else
  match m with
  | "charAt" | "charCodeAt" | "slice" | "substring" | "substr" => .num
  | "indexOf" | "lastIndexOf" | "split" => if who = 1 then .str else .num
  | _ => .str

def es5Plan (E : Env) (m : String) : Plan where
  next := es5Order m
  hint := es5Hint m
  finish := fun r d => match pureMethod m with
    | some f => f E (recvOf E r d) (argsOf r d)
    | none => .undef

end OttoVerif.C09.Spec
