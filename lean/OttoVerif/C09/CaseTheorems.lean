/-
  C09/CaseTheorems — ledger, part 2 (audited like Theorems.lean): the case-mapping tables.
  Kept in its own module because the kernel evaluation takes a few minutes (built once, then cached).
-/
import OttoVerif.C09.Spec
namespace OttoVerif.C09.Thm
open OttoVerif.C09

/-- the code units whose UCD mapping is not one-to-one (SpecialCasing.txt): region `case_special` -/
def specialUnits : List Nat :=
  CaseTables.specCase.filterMap fun e => if e.2.1.length = 1 ∧ e.2.2.length = 1 then none else some e.1

/-- the one-to-one part of the specification table -/
def specSimple : List (Nat × Nat × Nat) :=
  CaseTables.specCase.filterMap fun e =>
    if e.2.1.length = 1 ∧ e.2.2.length = 1 then some (e.1, e.2.1.headD 0, e.2.2.headD 0) else none

set_option maxRecDepth 1000000 in
/-- C09.case_simple: on the BMP, outside the SpecialCasing units, Go's unicode.ToLower/ToUpper table is
    exactly the Unicode Character Database's simple case mapping (entry-for-entry equality of the dumped tables) -/
theorem case_simple :
    CaseTables.goCase.filter (fun e => decide (e.1 < 0x10000) && !specialUnits.contains e.1) =
    specSimple.filter (fun e => !specialUnits.contains e.1) := by decide +kernel
end OttoVerif.C09.Thm
