/-
  C09/Theorems — the ledger for property C09.  Every `theorem` in this file is audited
  (`#print axioms` ⊆ {propext, Classical.choice, Quot.sound}) on every run.
-/
import OttoVerif.C09.Spec
namespace OttoVerif.C09.Thm
open OttoVerif.F64 OttoVerif.Str OttoVerif.C05 OttoVerif.C09

/-- trim_set: the cut set handed to strings.Trim (builtinStringTrimWhitespace) is exactly
    ES5 §7.2 WhiteSpace ∪ §7.3 LineTerminator. -/
theorem trim_set (u : Nat) : trimWhitespace.contains u = Spec.isWhite u := by
  simp only [trimWhitespace, Spec.isWhite, List.contains_cons, List.contains_nil, Bool.or_false]
  rw [Bool.eq_iff_iff]
  simp only [Bool.or_eq_true, Bool.and_eq_true, beq_iff_eq, decide_eq_true_eq]
  omega

end OttoVerif.C09.Thm
