/-
  C09/Theorems — the ledger for property C09.  Every `theorem` in this file is audited
  (`#print axioms` ⊆ {propext, Classical.choice, Quot.sound}) on every run.

  Shape: `Model.m E r args = Spec.m E r args` for all receivers and argument lists under explicit side
  conditions; the complement of each side condition is a deviation region of the driver, with a
  kernel-checked witness (`example … := by decide`) below.
-/
import OttoVerif.C09.Lemmas
namespace OttoVerif.C09.Thm
open OttoVerif.F64 OttoVerif.Str OttoVerif.C05 OttoVerif.C09 OttoVerif.C09.Lem

/-! ## Side conditions -/

/-- int-kinded argument values stay below 2^53, so that float64(i) is exact (an `int64` of 2^53+1 is
    not a Number value an ES5 program can hold) -/
def SmallInt : Val → Prop
  | .int _ i => i.natAbs < 2^53
  | _ => True

/-- a []uint16 receiver has no lone surrogate (complement: region `lone_surrogate`) -/
def NoLone : Recv → Prop
  | .val16 us => U (bytesOfUnits us) = us
  | _ => True

/-- saturation of an extended integer to int64 -/
def sat64 : EInt → Int
  | .ninf => minInt64
  | .pinf => maxInt64
  | .fin i => if i ≥ 2^63 then maxInt64 else if i ≤ -(2^63 : Int) then minInt64 else i

/-! ## trim_set -/

/-- trim_set: the cut set handed to strings.Trim (builtinStringTrimWhitespace) is exactly
    ES5 §7.2 WhiteSpace ∪ §7.3 LineTerminator. -/
theorem trim_set (u : Nat) : trimWhitespace.contains u = Spec.isWhite u := by
  simp only [trimWhitespace, Spec.isWhite, List.contains_cons, List.contains_nil, Bool.or_false]
  rw [Bool.eq_iff_iff]
  simp only [Bool.or_eq_true, Bool.and_eq_true, beq_iff_eq, decide_eq_true_eq]
  omega

/-! ## Positions: Value.number().int64 against ToInteger, and the clamps (encoding-independent) -/

theorem toNumber_eq (E : C05.Env) (v : Val) : C05.Spec.toNumber E v = toFloat E v := by
  cases v <;> rfl

theorem truncInt_ofInt_small (i : Int) (h : i.natAbs < 2^53) : truncInt (ofInt i) = i := by
  simp [ofInt, h, truncInt, truncAbs]; split <;> omega

theorem numberOfFloat_sat (f : FV) :
    (numberOfFloat f).i = sat64 (EInt.ofNumber f) := by
  cases f with
  | nan => simp [numberOfFloat, sat64, EInt.ofNumber]
  | inf s => cases s <;> simp [numberOfFloat, sat64, EInt.ofNumber]
  | fin s m e =>
    simp only [numberOfFloat, sat64, EInt.ofNumber]
    split
    · simp
    · split <;> simp

/-- C09.number_sat: Value.number().int64 is ToInteger saturated to int64 -/
theorem number_sat (E : Env) (v : Val) (h : SmallInt v) : (number E v).i = sat64 (Spec.toInteger E v) := by
  have gen : (numberOfFloat (toFloat E.c5 v)).i = sat64 (Spec.toInteger E v) := by
    rw [numberOfFloat_sat]; unfold Spec.toInteger; rw [toNumber_eq]
  have small : ∀ k i, i.natAbs < 2^53 → sat64 (Spec.toInteger E (.int k i)) = i := by
    intro k i hi
    have : Spec.toInteger E (.int k i) = .fin i := by
      unfold Spec.toInteger
      rw [toNumber_eq]
      simp only [toFloat]
      have := truncInt_ofInt_small i hi
      simp only [ofInt, hi, if_true, EInt.ofNumber] at this ⊢
      rw [this]
    rw [this]; simp only [sat64]; split
    · omega
    · split <;> omega
  cases v with
  | int k i =>
    simp only [SmallInt] at h
    cases k <;> first
      | (simp only [number]; exact (small _ i h).symm)
      | (simp only [number]; rw [if_pos (by simp only [maxInt64]; omega)]; exact (small _ i h).symm)
      | exact gen
  | _ => exact gen

theorem clamp_slice (x : EInt) (L : Int) (h0 : 0 ≤ L) (h1 : L < 2^62) :
    valueToRangeIndex (sat64 x) L false = Spec.relIndex L x := by
  cases x with
  | ninf => simp [sat64, valueToRangeIndex, Spec.relIndex, minInt64]; omega
  | pinf => simp [sat64, valueToRangeIndex, Spec.relIndex, maxInt64]; omega
  | fin i =>
    simp only [sat64, valueToRangeIndex, Spec.relIndex, minInt64, maxInt64, Int.max_def, Int.min_def, Bool.false_eq_true, if_false, if_true]
    repeat' split
    all_goals omega

theorem clamp_substring (x : EInt) (L : Int) (h0 : 0 ≤ L) (h1 : L < 2^62) :
    valueToRangeIndex (sat64 x) L true = Spec.clamp x 0 L := by
  cases x with
  | ninf => simp [sat64, valueToRangeIndex, Spec.clamp, minInt64]; omega
  | pinf => simp [sat64, valueToRangeIndex, Spec.clamp, maxInt64]; omega
  | fin i =>
    simp only [sat64, valueToRangeIndex, Spec.clamp, minInt64, maxInt64, Int.max_def, Int.min_def, Bool.false_eq_true, if_false, if_true]
    repeat' split
    all_goals omega

theorem clamp_charAt (x : EInt) (L : Int) (h1 : L < 2^62) :
    (0 ≤ sat64 x ∧ sat64 x < L) ↔ (∃ p, x = .fin p ∧ 0 ≤ p ∧ p < L ∧ sat64 x = p) := by
  cases x with
  | ninf => simp [sat64, minInt64]
  | pinf => simp [sat64, maxInt64]; omega
  | fin i =>
    simp only [sat64, minInt64, maxInt64, EInt.fin.injEq]
    constructor
    · intro h; refine ⟨i, rfl, ?_⟩; repeat' split at h
      all_goals (repeat' split); all_goals omega
    · rintro ⟨p, rfl, hp⟩; repeat' split at hp
      all_goals (repeat' split); all_goals omega
/-! ## stringAt against the code-unit view -/

theorem strLength_eq (s : List Nat) : strLength s = (U s).length := by
  unfold strLength; split
  · rename_i h; rw [U_ascii s h]
  · rfl

theorem strAt_eq (s : List Nat) (i : Nat) : strAt s i = (U s).getD i 0 := by
  unfold strAt; split
  · rename_i h; rw [U_ascii s h]
  · rfl

/-- the unit found by stringAt, or none when the position is out of range -/
theorem stringAt_cases (E : Env) (s : List Nat) (v : Val) (hs : SmallInt v) (hl : ((U s).length : Int) < 2^62) :
    (∃ p : Int, Spec.toInteger E v = .fin p ∧ 0 ≤ p ∧ p < (U s).length ∧
        stringAt s (number E v).i = some ((U s).getD p.toNat 0)) ∨
    ((∀ p : Int, Spec.toInteger E v = .fin p → p < 0 ∨ p ≥ (U s).length) ∧ stringAt s (number E v).i = none) := by
  rw [number_sat E v hs]
  unfold stringAt
  rw [strLength_eq]
  by_cases hin : 0 ≤ sat64 (Spec.toInteger E v) ∧ sat64 (Spec.toInteger E v) < ((U s).length : Int)
  · left
    obtain ⟨p, hx, h0, h1, hp⟩ := (clamp_charAt _ _ hl).1 hin
    refine ⟨p, hx, h0, h1, ?_⟩
    rw [if_pos hin, strAt_eq, hp]
  · right
    refine ⟨?_, by rw [if_neg hin]⟩
    intro p hx
    by_cases hp : 0 ≤ p ∧ p < ((U s).length : Int)
    · exfalso; apply hin
      apply (clamp_charAt _ _ hl).2
      refine ⟨p, hx, hp.1, hp.2, ?_⟩
      rw [hx]; simp only [sat64]; split
      · omega
      · split <;> omega
    · omega

theorem unit_lt (s : List Nat) (i : Nat) (h : i < (U s).length) : (U s).getD i 0 < 0x10000 := by
  apply utf16Encode_lt (decodeRunes s)
  have : (U s).getD i 0 ∈ U s := by simp [List.getD, List.getElem?_eq_getElem h]
  exact this

/-! ## generic receiver -/

/-- C09.generic_receiver (prologue): CheckObjectCoercible(this) fails exactly for undefined and null, and
    otherwise ToString(this) is the code-unit view of what `call.This.string()` yields -/
theorem thisString_link (E : Env) (r : Recv) (h : NoLone r) :
    Spec.thisString E r = if coercible r then some (U (thisString E r)) else none := by
  cases r with
  | val v => cases v <;> rfl
  | val16 us => simp only [NoLone] at h; simp [Spec.thisString, coercible, thisString, h]
  | strObj s => rfl
  | obj s => rfl

theorem coercible_iff (r : Recv) : coercible r = false ↔ (r = .val .undef ∨ r = .val .null) := by
  cases r with
  | val v => cases v <;> simp [coercible]
  | _ => simp [coercible]

theorem withThis_eq (E : Env) (r : Recv) (h : NoLone r) (f : List Nat → Res) :
    Spec.withThis E r f = if coercible r then f (U (thisString E r)) else .throwType := by
  unfold Spec.withThis
  rw [thisString_link E r h]
  split <;> simp_all

/-! ## charAt / charCodeAt (all receivers) -/

/-- C09.charAt_eq: for every receiver and every position argument charAt is §15.5.4.4, unless the unit
    found is a surrogate (region charAt_surrogate: a Go string cannot hold a lone surrogate). -/
theorem charAt_eq (E : Env) (r : Recv) (args : List Val) (hn : NoLone r) (hs : SmallInt (argAt args 0))
    (hl : ((U (thisString E r)).length : Int) < 2^62)
    (hdev : ∀ u, Spec.charAt E r args = .str [u] → ¬ (0xD800 ≤ u ∧ u ≤ 0xDFFF)) :
    charAt E r args = Spec.charAt E r args := by
  have hspec : Spec.charAt E r args = if coercible r then
      (match Spec.toInteger E (argAt args 0) with
      | .fin pos => if pos < 0 ∨ pos ≥ ((U (thisString E r)).length : Int) then .str []
          else .str [(U (thisString E r)).getD pos.toNat 0]
      | _ => .str []) else .throwType := by
    unfold Spec.charAt; rw [withThis_eq E r hn]; rfl
  unfold charAt
  cases hc : coercible r with
  | false => rw [hspec, hc]; simp
  | true =>
    rw [hc] at hspec
    simp only [if_true] at hspec
    simp only [Bool.not_true, Bool.false_eq_true, if_false]
    generalize hS : thisString E r = s at *
    rcases stringAt_cases E s (argAt args 0) hs hl with ⟨p, hx, h0, h1, hat⟩ | ⟨hout, hat⟩
    · rw [hat]
      have hsp : Spec.charAt E r args = .str [(U s).getD p.toNat 0] := by
        rw [hspec, hx]; simp only []; rw [if_neg (by omega)]
      have hu := hdev _ hsp
      have hlt := unit_lt s p.toNat (by omega)
      rw [hsp]
      simp only []
      rw [U_encodeRune_unit _ (by unfold Scalar; omega) hlt]
    · rw [hat, hspec]
      simp only []
      split
      · rename_i pos hx; rw [if_pos (hout pos hx)]
      · rfl

/-- C09.charCodeAt_eq: §15.5.4.5 for every receiver and every position argument, unconditionally. -/
theorem charCodeAt_eq (E : Env) (r : Recv) (args : List Val) (hn : NoLone r) (hs : SmallInt (argAt args 0))
    (hl : ((U (thisString E r)).length : Int) < 2^62) :
    charCodeAt E r args = Spec.charCodeAt E r args := by
  have hspec : Spec.charCodeAt E r args = if coercible r then
      (match Spec.toInteger E (argAt args 0) with
      | .fin pos => if pos < 0 ∨ pos ≥ ((U (thisString E r)).length : Int) then .nan
          else .int ((U (thisString E r)).getD pos.toNat 0)
      | _ => .nan) else .throwType := by
    unfold Spec.charCodeAt; rw [withThis_eq E r hn]; rfl
  unfold charCodeAt
  cases hc : coercible r with
  | false => rw [hspec, hc]; simp
  | true =>
    rw [hc] at hspec
    simp only [if_true] at hspec
    simp only [Bool.not_true, Bool.false_eq_true, if_false]
    generalize hS : thisString E r = s at *
    rcases stringAt_cases E s (argAt args 0) hs hl with ⟨p, hx, h0, h1, hat⟩ | ⟨hout, hat⟩
    · rw [hat, hspec, hx]; simp only []; rw [if_neg (by omega)]
    · rw [hat, hspec]
      simp only []
      split
      · rename_i pos hx; rw [if_pos (hout pos hx)]
      · rfl

/-! ## slice / substring / substr -/

/-- the model's optional second range argument -/
def optEnd (E : Env) (v : Val) (size : Int) (nz : Bool) : Int :=
  match v with
  | .undef => size
  | e => valueToRangeIndex (number E e).i size nz

theorem argAt_one (args : List Val) (h : args.length = 1) : argAt args 1 = .undef := by
  match args, h with
  | [_], _ => rfl

theorem rangeStartEnd_eq (E : Env) (args : List Val) (size : Int) (nz : Bool) :
    rangeStartEnd E args size nz =
      (valueToRangeIndex (number E (argAt args 0)).i size nz, optEnd E (argAt args 1) size nz) := by
  unfold rangeStartEnd
  by_cases hl : args.length = 1
  · simp [hl, argAt_one args hl, optEnd]
  · simp only [hl, if_false]
    generalize argAt args 1 = e
    cases e <;> rfl

theorem optEnd_slice (E : Env) (v : Val) (L : Int) (h0 : 0 ≤ L) (h1 : L < 2^62) (hs : SmallInt v) :
    optEnd E v L false = Spec.relIndex L (Spec.optPos E v (.fin L)) := by
  have gen : valueToRangeIndex (number E v).i L false = Spec.relIndex L (Spec.toInteger E v) := by
    rw [number_sat E v hs, clamp_slice _ _ h0 h1]
  cases v with
  | undef => simp only [optEnd, Spec.optPos, Spec.relIndex]; rw [if_neg (by omega)]; omega
  | _ => exact gen

theorem optEnd_substring (E : Env) (v : Val) (L : Int) (h0 : 0 ≤ L) (h1 : L < 2^62) (hs : SmallInt v) :
    optEnd E v L true = Spec.clamp (Spec.optPos E v (.fin L)) 0 L := by
  have gen : valueToRangeIndex (number E v).i L true = Spec.clamp (Spec.toInteger E v) 0 L := by
    rw [number_sat E v hs, clamp_substring _ _ h0 h1]
  cases v with
  | undef => simp only [optEnd, Spec.optPos, Spec.clamp]; omega
  | _ => exact gen

theorem utf16Value_runeSlice (s : List Nat) (a b : Int) :
    utf16Value (runeSlice (U s) a b) = runeSlice (U s) a b := by
  apply utf16Value_id
  intro u hu
  exact utf16Encode_lt (decodeRunes s) u (List.mem_of_mem_drop (List.mem_of_mem_take hu))

theorem relIndex_range (L : Int) (x : EInt) (h0 : 0 ≤ L) : 0 ≤ Spec.relIndex L x ∧ Spec.relIndex L x ≤ L := by
  cases x <;> simp only [Spec.relIndex] <;> (try split) <;> omega

theorem clamp_range (L : Int) (x : EInt) (h0 : 0 ≤ L) : 0 ≤ Spec.clamp x 0 L ∧ Spec.clamp x 0 L ≤ L := by
  cases x <;> simp only [Spec.clamp] <;> omega

/-- C09.slice_eq: for every receiver, every argument list and every string (astral code points included),
    otto's slice (UTF-16 offsets, saturated int64 positions) is ES5 §15.5.4.13 (code-unit offsets, ToInteger). -/
theorem slice_eq (E : Env) (r : Recv) (args : List Val) (hl : NoLone r)
    (hlen : ((U (thisString E r)).length : Int) < 2^62)
    (h0 : SmallInt (argAt args 0)) (h1 : SmallInt (argAt args 1)) :
    slice E r args = Spec.slice E r args := by
  unfold Spec.slice
  rw [withThis_eq E r hl]
  unfold slice
  cases hc : coercible r with
  | false => simp
  | true =>
    simp only [Bool.not_true, Bool.false_eq_true, if_false, if_true]
    rw [rangeStartEnd_eq]
    generalize hT : U (thisString E r) = T at *
    have hL0 : (0 : Int) ≤ (T.length : Int) := by omega
    rw [optEnd_slice E _ _ hL0 hlen h1, number_sat E _ h0, clamp_slice _ _ hL0 hlen]
    have ha := relIndex_range T.length (Spec.toInteger E (argAt args 0)) hL0
    generalize Spec.relIndex (↑T.length) (Spec.toInteger E (argAt args 0)) = a at *
    generalize Spec.relIndex (↑T.length) (Spec.optPos E (argAt args 1) (EInt.fin ↑T.length)) = b at *
    simp only []
    by_cases hle : b - a ≤ 0
    · rw [if_pos hle]
      have : (a + max (b - a) 0).toNat - a.toNat = 0 := by omega
      simp [Spec.sub, this]
    · rw [if_neg hle, ← hT, utf16Value_runeSlice, hT]
      have : (a + max (b - a) 0).toNat - a.toNat = (b - a).toNat := by omega
      simp [Spec.sub, runeSlice, this]

/-- C09.substring_eq: §15.5.4.15, for every receiver, argument list and string -/
theorem substring_eq (E : Env) (r : Recv) (args : List Val) (hl : NoLone r)
    (hlen : ((U (thisString E r)).length : Int) < 2^62)
    (h0 : SmallInt (argAt args 0)) (h1 : SmallInt (argAt args 1)) :
    substring E r args = Spec.substring E r args := by
  unfold Spec.substring
  rw [withThis_eq E r hl]
  unfold substring
  cases hc : coercible r with
  | false => simp
  | true =>
    simp only [Bool.not_true, Bool.false_eq_true, if_false, if_true]
    rw [rangeStartEnd_eq]
    generalize hT : U (thisString E r) = T at *
    have hL0 : (0 : Int) ≤ (T.length : Int) := by omega
    rw [optEnd_substring E _ _ hL0 hlen h1, number_sat E _ h0, clamp_substring _ _ hL0 hlen]
    have ha := clamp_range T.length (Spec.toInteger E (argAt args 0)) hL0
    have hb' := clamp_range T.length (Spec.optPos E (argAt args 1) (EInt.fin ↑T.length)) hL0
    generalize Spec.clamp (Spec.toInteger E (argAt args 0)) 0 ↑T.length = a at *
    generalize Spec.clamp (Spec.optPos E (argAt args 1) (EInt.fin ↑T.length)) 0 ↑T.length = b at *
    simp only []
    by_cases hgt : a > b
    · rw [if_pos hgt]; simp only []
      rw [← hT, utf16Value_runeSlice, hT]
      have e1 : min a b = b := by omega
      have e2 : max a b = a := by omega
      have : a.toNat - b.toNat = (a - b).toNat := by omega
      simp [Spec.sub, runeSlice, e1, e2, this]
    · rw [if_neg hgt]; simp only []
      rw [← hT, utf16Value_runeSlice, hT]
      have e1 : min a b = a := by omega
      have e2 : max a b = b := by omega
      have : b.toNat - a.toNat = (b - a).toNat := by omega
      simp [Spec.sub, runeSlice, e1, e2, this]

theorem thisStringNoCheck_link (E : Env) (r : Recv) (h : NoLone r) :
    Spec.thisStringNoCheck E r = U (thisString E r) := by
  cases r with
  | val v => rfl
  | val16 us => simp only [NoLone] at h; simp [Spec.thisStringNoCheck, thisString, h]
  | strObj s => rfl
  | obj s => rfl

/-- the model's optional length argument -/
def optLen (E : Env) (v : Val) (size : Int) : Int :=
  match v with
  | .undef => size
  | l => (number E l).i

theorem rangeStartLength_eq (E : Env) (args : List Val) (size : Int) :
    rangeStartLength E args size =
      (valueToRangeIndex (number E (argAt args 0)).i size false, optLen E (argAt args 1) size) := by
  unfold rangeStartLength
  by_cases hl : args.length = 1
  · simp [hl, argAt_one args hl, optLen]
  · simp only [hl, if_false]
    generalize argAt args 1 = e
    cases e <;> rfl

theorem wrap64_id (i : Int) (h0 : -(2^63 : Int) ≤ i) (h1 : i < 2^63) : wrap64 i = i := by
  simp only [wrap64, wrapS]; split <;> omega

theorem sat64_range (x : EInt) : -(2^63 : Int) ≤ sat64 x ∧ sat64 x < 2^63 := by
  cases x <;> simp only [sat64, minInt64, maxInt64] <;> (try split) <;> (try split) <;> omega

/-- the arithmetic core of substr: positions `s0` (already relative-clamped) and length `l`. -/
theorem substr_core (L : Int) (x0 x1 : EInt) (hL0 : 0 ≤ L) (hL : L < 2^62) (undef1 : Bool) :
    let start := Spec.relIndex L x0
    let length := if undef1 then L else sat64 x1
    let r5 : Int := Spec.substrStart L x0
    let r6 := Spec.clamp (if undef1 then .pinf else x1) 0 (L - r5)
    (start ≥ L ∨ length ≤ 0 → r6 ≤ 0) ∧
    (¬ (start ≥ L ∨ length ≤ 0) →
        let length' := if length ≥ L - start then L - start else length
        r6 > 0 ∧ r5 = start ∧ wrap64 (start + length') = start + r6 ∧ ¬ (wrap64 (start + length') < start)) := by
  intro start length r5 r6
  have hs := relIndex_range L x0 hL0
  have hl := sat64_range x1
  have hw : ∀ i : Int, -(2^63 : Int) ≤ i → i < 2^63 → wrap64 i = i := wrap64_id
  have hstart : r5 ≥ L ∧ start ≥ L ∨ r5 = start := by
    cases x0 with
    | ninf => right; rfl
    | pinf => left; simp only [r5, start, Spec.relIndex, Spec.substrStart]; omega
    | fin i =>
      simp only [r5, start, Spec.relIndex, Spec.substrStart, Int.max_def, Int.min_def]
      repeat' split
      all_goals omega
  have hr6 : r6 = Spec.clamp (if undef1 then .pinf else x1) 0 (L - r5) := rfl
  cases undef1 with
  | true =>
    simp only [if_true, Spec.clamp] at hr6
    simp only [length, if_true]
    refine ⟨by intro h; omega, ?_⟩
    intro h
    rw [if_pos (by omega)]
    rw [hw (start + (L - start)) (by omega) (by omega)]
    omega
  | false =>
    simp only [Bool.false_eq_true, if_false] at hr6
    simp only [length, Bool.false_eq_true, if_false]
    have hclamp : (sat64 x1 ≤ 0 → r6 ≤ 0) ∧ (sat64 x1 > 0 → L - r5 > 0 → r6 = min (sat64 x1) (L - r5)) := by
      rw [hr6]
      cases x1 <;> simp only [Spec.clamp, sat64, minInt64, maxInt64] <;> (try split) <;> (try split) <;> omega
    refine ⟨by intro h; rw [hr6] at *; cases x1 <;> simp only [Spec.clamp, sat64, minInt64, maxInt64] at * <;> (try split at h) <;> (try split at h) <;> omega, ?_⟩
    intro h
    have h1 : start < L := by omega
    have h2 : sat64 x1 > 0 := by omega
    have h5 : r5 = start := by omega
    have h6 := hclamp.2 h2 (by omega)
    by_cases hge : sat64 x1 ≥ L - start
    · rw [if_pos hge, hw (start + (L - start)) (by omega) (by omega)]; omega
    · rw [if_neg hge, hw (start + sat64 x1) (by omega) (by omega)]; omega

theorem optLen_eq (E : Env) (v : Val) (L : Int) (hs : SmallInt v) :
    optLen E v L = if v == .undef then L else sat64 (Spec.toInteger E v) := by
  cases v <;> first | rfl | (simp only [optLen]; rw [number_sat E _ hs]; rfl)

theorem optPos_eq (E : Env) (v : Val) (d : EInt) :
    Spec.optPos E v d = if v == .undef then d else Spec.toInteger E v := by
  cases v <;> rfl

/-- C09.substr_eq: Annex B.2.3 for every receiver, every argument list (lengths up to ±∞ included) and
    every string (astral code points included) -/
theorem substr_eq (E : Env) (r : Recv) (args : List Val) (hl : NoLone r)
    (hlen : ((U (thisString E r)).length : Int) < 2^62)
    (h0 : SmallInt (argAt args 0)) (h1 : SmallInt (argAt args 1)) :
    substr E r args = Spec.substr E r args := by
  unfold Spec.substr substr
  rw [thisStringNoCheck_link E r hl]
  dsimp only
  rw [rangeStartLength_eq]
  dsimp only
  generalize hT : U (thisString E r) = T at *
  have hL0 : (0 : Int) ≤ (T.length : Int) := by omega
  rw [optLen_eq E _ _ h1, number_sat E _ h0, clamp_slice _ _ hL0 hlen, optPos_eq]
  have core := substr_core T.length (Spec.toInteger E (argAt args 0)) (Spec.toInteger E (argAt args 1)) hL0 hlen
    (argAt args 1 == .undef)
  simp only [] at core ⊢
  have hs := relIndex_range T.length (Spec.toInteger E (argAt args 0)) hL0
  generalize Spec.relIndex (↑T.length) (Spec.toInteger E (argAt args 0)) = a at *
  generalize (if (argAt args 1 == Val.undef) = true then (T.length : Int) else sat64 (Spec.toInteger E (argAt args 1))) = l at *
  generalize Spec.substrStart (↑T.length) (Spec.toInteger E (argAt args 0)) = r5 at *
  generalize Spec.clamp _ 0 _ = r6 at *
  obtain ⟨c1, c2⟩ := core
  by_cases hA : a ≥ ↑T.length
  · rw [if_pos hA, if_pos (c1 (Or.inl hA))]
  · rw [if_neg hA]
    by_cases hB : l ≤ 0
    · rw [if_pos hB, if_pos (c1 (Or.inr hB))]
    · rw [if_neg hB]
      obtain ⟨d1, d2, d3, d4⟩ := c2 (by omega)
      have d1' : ¬ r6 ≤ 0 := by omega
      rw [if_neg d4, d3, if_neg d1', d2]
      rw [← hT, utf16Value_runeSlice, hT]
      have : (a + r6).toNat - a.toNat = (a + r6 - a).toNat := by omega
      simp [Spec.sub, runeSlice, this]

/-- C09.length_strObj: the `length` own property of a String object counts code units -/
theorem length_strObj (E : Env) (s : List Nat) : length E (.strObj s) = Spec.length E (.strObj s) := by
  simp [length, Spec.length, strLength_eq]

/-- C09.fromCharCode_eq: String.fromCharCode is unit-exact wherever ToUint16 is; after fix 919cc4b the
    hypothesis is discharged for every well-formed value by `C05.Thm.toUint16_eq` -/
theorem fromCharCode_eq (E : Env) (args : List Val)
    (h : ∀ v ∈ args, toUint16 E.c5 v = C05.Spec.toUint16 E.c5 v) :
    fromCharCode E args = Spec.fromCharCode E args := by
  simp only [fromCharCode, Spec.fromCharCode, Res.str.injEq]
  apply List.map_congr_left
  intro v hv; rw [h v hv]

/-- C09.generic_receiver: every generic method throws TypeError exactly for an undefined or null receiver
    (charAt/charCodeAt included; substr never checks, as Annex B.2.3 prescribes) -/
theorem generic_receiver (E : Env) (r : Recv) (args : List Val) :
    (coercible r = false ↔ (r = .val .undef ∨ r = .val .null)) ∧
    (coercible r = false →
      charAt E r args = .throwType ∧ charCodeAt E r args = .throwType ∧ concat E r args = .throwType ∧
      indexOf E r args = .throwType ∧ lastIndexOf E r args = .throwType ∧ slice E r args = .throwType ∧
      substring E r args = .throwType ∧ split E r args = .throwType ∧ trim E r args = .throwType ∧
      localeCompare E r args = .throwType ∧ Spec.thisString E r = none) ∧
    (coercible r = true →
      concat E r args ≠ .throwType ∧ slice E r args ≠ .throwType ∧ substring E r args ≠ .throwType ∧
      trim E r args ≠ .throwType ∧ localeCompare E r args ≠ .throwType ∧ substr E r args ≠ .throwType ∧
      Spec.thisString E r ≠ none) := by
  refine ⟨coercible_iff r, ?_, ?_⟩
  · intro h
    have hn : Spec.thisString E r = none := by
      rcases (coercible_iff r).1 h with h | h <;> subst h <;> rfl
    simp [charAt, charCodeAt, concat, indexOf, lastIndexOf, slice, substring, split, trim, localeCompare, h, hn]
  · intro h
    have hn : Spec.thisString E r ≠ none := by
      cases r with
      | val v => cases v <;> simp_all [coercible, Spec.thisString]
      | _ => simp [Spec.thisString]
    refine ⟨?_, ?_, ?_, ?_, ?_, ?_, hn⟩
    · simp [concat, h]
    · simp only [slice, h, Bool.not_true, Bool.false_eq_true, if_false]; split <;> simp
    · simp [substring, h]
    · simp [trim, h]
    · simp only [localeCompare, h, Bool.not_true, Bool.false_eq_true, if_false]; split <;> (try split) <;> simp
    · simp only [substr]; repeat' split
      all_goals simp

/-! ## localeCompare: a consistent total order (§15.5.4.9) -/

theorem bytesLt_irrefl : ∀ a : List Nat, bytesLt a a = false
  | [] => rfl
  | x :: xs => by simp [bytesLt, bytesLt_irrefl xs]

theorem bytesLt_asymm : ∀ a b : List Nat, bytesLt a b = true → bytesLt b a = false
  | [], [] => by simp [bytesLt]
  | [], _ :: _ => by simp [bytesLt]
  | _ :: _, [] => by simp [bytesLt]
  | x :: xs, y :: ys => by
    simp only [bytesLt]
    intro h
    by_cases h1 : x < y
    · have : ¬ y < x := by omega
      have : y > x := h1
      simp [*]
    · by_cases h2 : x > y
      · simp [h1, h2] at h
      · have : x = y := by omega
        subst this
        simp only [h1, if_false, gt_iff_lt] at h ⊢
        exact bytesLt_asymm xs ys h

theorem bytesLt_total : ∀ a b : List Nat, bytesLt a b = false → bytesLt b a = false → a = b
  | [], [] => by simp
  | [], _ :: _ => by simp [bytesLt]
  | _ :: _, [] => by simp [bytesLt]
  | x :: xs, y :: ys => by
    simp only [bytesLt]
    intro h h'
    by_cases h1 : x < y
    · simp [h1] at h
    · by_cases h2 : y < x
      · simp [h2] at h'
      · have : x = y := by omega
        subst this
        simp only [h1, if_false, gt_iff_lt] at h h'
        rw [bytesLt_total xs ys h h']

theorem bytesLt_trans : ∀ a b c : List Nat, bytesLt a b = true → bytesLt b c = true → bytesLt a c = true
  | [], _, [] => by intro h h'; cases ‹List Nat› <;> simp [bytesLt] at h h'
  | [], _, _ :: _ => by simp [bytesLt]
  | _ :: _, [], _ => by simp [bytesLt]
  | _ :: _, _ :: _, [] => by simp [bytesLt]
  | x :: xs, y :: ys, z :: zs => by
    simp only [bytesLt]
    intro h h'
    by_cases xy : x < y
    · by_cases yz : y < z
      · have : x < z := by omega
        simp [this]
      · by_cases zy : y > z
        · simp [yz, zy] at h'
        · have : y = z := by omega
          subst this; simp [xy]
    · by_cases yx : x > y
      · simp [xy, yx] at h
      · have : x = y := by omega
        subst this
        simp only [xy, if_false, gt_iff_lt] at h
        by_cases yz : x < z
        · simp [yz]
        · by_cases zy : z < x
          · simp [yz, zy] at h'
          · simp only [yz, zy, if_false, gt_iff_lt] at h' ⊢
            exact bytesLt_trans xs ys zs h h'

/-- the integer localeCompare returns for two Go strings -/
def cmp (a b : List Nat) : Int := if bytesLt a b then -1 else if a = b then 0 else 1

/-- C09.localeCompare_sign: on a coercible receiver localeCompare returns cmp(this, that) ∈ {−1, 0, 1};
    cmp is 0 exactly for equal strings, antisymmetric and transitive — the "consistent comparison
    function" §15.5.4.9 asks for. -/
theorem localeCompare_sign (E : Env) (r : Recv) (args : List Val) (h : coercible r = true) :
    localeCompare E r args = .int (cmp (thisString E r) (toStr E (argAt args 0))) := by
  simp only [localeCompare, h, Bool.not_true, Bool.false_eq_true, if_false, cmp]
  split <;> (try split) <;> rfl

theorem cmp_props (a b c : List Nat) :
    (cmp a b = -1 ∨ cmp a b = 0 ∨ cmp a b = 1) ∧ (cmp a b = 0 ↔ a = b) ∧ (cmp b a = -(cmp a b)) ∧
    (cmp a b = -1 → cmp b c = -1 → cmp a c = -1) := by
  refine ⟨?_, ?_, ?_, ?_⟩
  · unfold cmp; split <;> (try split) <;> simp
  · unfold cmp; constructor
    · intro h; split at h
      · omega
      · split at h
        · assumption
        · omega
    · intro h; subst h; simp [bytesLt_irrefl]
  · unfold cmp
    by_cases h1 : bytesLt a b = true
    · have h2 := bytesLt_asymm a b h1
      have hne : ¬ b = a := by intro e; subst e; simp [bytesLt_irrefl] at h1
      simp [h1, h2, hne]
    · have h1' : bytesLt a b = false := by simpa using h1
      by_cases h2 : bytesLt b a = true
      · have hne : ¬ a = b := by intro e; subst e; simp [bytesLt_irrefl] at h2
        simp [h1', h2, hne]
      · have h2' : bytesLt b a = false := by simpa using h2
        have := bytesLt_total a b h1' h2'
        subst this; simp [h1']
  · unfold cmp
    intro h h'
    have hab : bytesLt a b = true := by
      split at h
      · assumption
      · split at h <;> omega
    have hbc : bytesLt b c = true := by
      split at h'
      · assumption
      · split at h' <;> omega
    simp [bytesLt_trans a b c hab hbc]

/-! ## The own properties of a String object -/

/-- a name accepted by stringToArrayIndex is the canonical numeral of its index (fix da2af68) -/
theorem stringToArrayIndex_canonical (name : List Nat) (h : stringToArrayIndex name ≥ 0) :
    name = formatNat (stringToArrayIndex name).toNat := by
  unfold stringToArrayIndex at h ⊢
  split at h
  · rename_i i _
    split at h
    · omega
    · split at h
      · omega
      · split at h
        · omega
        · rename_i h1 h2 h3
          simp only [h1, h2, h3, if_false]
          simp only [ne_eq, Decidable.not_not] at h3
          exact h3.symm
  · omega

/-- C09.ownNames_iff: Object.getOwnPropertyNames lists exactly the names hasOwnProperty accepts — the stored
    properties and the computed index properties alike (every own property is visited by stringEnumerate). -/
theorem ownNames_iff (o : SObj) (name : List Nat) : name ∈ o.ownNames ↔ o.hasOwn name = true := by
  unfold SObj.ownNames
  rw [List.mem_filter]
  constructor
  · exact fun h => h.2
  · intro h
    refine ⟨?_, h⟩
    unfold SObj.enumerate
    rw [List.mem_append]
    simp only [SObj.hasOwn, SObj.getOwn, Bool.or_eq_true] at h
    rcases h with h | h
    · right
      rw [List.mem_filter]
      exact ⟨by simpa using h, by simp⟩
    · left
      unfold SObj.indexUnit at h
      simp only [] at h
      split at h
      · rename_i hge
        unfold stringAt at h
        split at h
        · rename_i hin
          unfold indexNames
          rw [List.mem_map]
          refine ⟨(stringToArrayIndex name).toNat, ?_, (stringToArrayIndex_canonical name hge).symm⟩
          rw [List.mem_range]; omega
        · simp at h
      · simp at h

/-- C09.keys_subset_partial: every name Object.keys / for-in yields is an own property.  Full statement: without
    `hidx`; the hypothesis is the parse∘format round trip of the strconv stubs on the indices below the length. -/
theorem keys_subset_partial (o : SObj) (name : List Nat) (h : name ∈ o.keys) (hidx : ∀ i, i < strLength o.s →
    stringToArrayIndex (formatNat i) = i) : o.hasOwn name = true := by
  unfold SObj.keys SObj.enumerate at h
  rw [List.mem_append] at h
  simp only [SObj.hasOwn, SObj.getOwn, Bool.or_eq_true]
  rcases h with h | h
  · right
    unfold indexNames at h
    rw [List.mem_map] at h
    obtain ⟨i, hi, rfl⟩ := h
    rw [List.mem_range] at hi
    simp [SObj.indexUnit, hidx i hi, stringAt, hi]
  · left
    rw [List.mem_filter] at h
    simpa using h.1

/-! ## Order of conversions -/

/-- a conversion fails only with the script's exception or with TypeError (§8.12.8 step 5) -/
theorem defaultValue_fail (who : Nat) (o : Operand) (h : Hint) (log lg : Log) (e : Res)
    (hd : defaultValue who o h log = (lg, .inr e)) : e = .throwScript ∨ e = .throwType := by
  unfold defaultValue at hd
  simp only [] at hd
  split at hd
  · simp at hd
  · simp only [Prod.mk.injEq, Sum.inr.injEq] at hd; exact Or.inl hd.2.symm
  · split at hd
    · simp at hd
    · simp only [Prod.mk.injEq, Sum.inr.injEq] at hd; exact Or.inl hd.2.symm
    · simp only [Prod.mk.injEq, Sum.inr.injEq] at hd; exact Or.inr hd.2.symm

/-- C09.hint_agrees: every operand of every modelled method is converted with the preferred type ES5 prescribes:
    ToString (toString first) for the receiver, search strings, separators, replacements, `that` and every concat
    argument; ToInteger / ToNumber / ToUint32 (valueOf first) for positions, lengths and the split limit -/
theorem hint_agrees (m : String) : goHint m = Spec.es5Hint m := by
  funext who
  unfold goHint Spec.es5Hint
  split
  · rfl
  · split <;> simp_all

/-- two plans that choose the same next operand and apply the same conversion to it produce the same call log
    (which method of which operand, in which order), throw together, and otherwise finish on the same
    converted values -/
theorem exec_next_congr (p q : Plan) (r : Run) (h : p.next = q.next) (hh : p.hint = q.hint) :
    ∀ (fuel : Nat) (d : Done) (log : Log),
      (exec p r fuel d log).1 = (exec q r fuel d log).1 ∧
      (((exec p r fuel d log).2 = (exec q r fuel d log).2 ∧
          ((exec p r fuel d log).2 = .throwScript ∨ (exec p r fuel d log).2 = .throwType)) ∨
       ∃ d', (exec p r fuel d log).2 = p.finish r d' ∧ (exec q r fuel d log).2 = q.finish r d') := by
  intro fuel
  induction fuel with
  | zero => intro d log; exact ⟨rfl, Or.inr ⟨d, rfl, rfl⟩⟩
  | succ f ih =>
    intro d log
    simp only [exec, ← h, ← hh]
    cases hn : p.next r d with
    | none => exact ⟨rfl, Or.inr ⟨d, rfl, rfl⟩⟩
    | some who =>
      simp only []
      cases ho : r.operand who with
      | prim v => exact ih _ _
      | obj outs =>
        simp only []
        cases hd : defaultValue who (Operand.obj outs) (p.hint who) log with
        | mk lg res =>
          cases res with
          | inl v => exact ih _ _
          | inr e => exact ⟨rfl, Or.inl ⟨rfl, defaultValue_fail who _ _ log lg e hd⟩⟩
      | dual vo ts =>
        simp only []
        cases hd : defaultValue who (Operand.dual vo ts) (p.hint who) log with
        | mk lg res =>
          cases res with
          | inl v => exact ih _ _
          | inr e => exact ⟨rfl, Or.inl ⟨rfl, defaultValue_fail who _ _ log lg e hd⟩⟩

/-- the String methods whose conversion order is modelled -/
def seqMethods : List String :=
  ["charAt", "charCodeAt", "concat", "indexOf", "lastIndexOf", "localeCompare", "slice", "substring", "substr", "split",
   "replace", "trim", "toLowerCase", "toUpperCase"]

/-- C09.order_agrees: for every modelled method the Go statement order IS the ES5 step order: receiver first, then
    the arguments left to right, each at most once (an end / length / limit / position argument that is optional
    only if it is supplied and not undefined) -/
theorem order_agrees (E : Env) (m : String) (hm : m ∈ seqMethods) :
    goOrder E m = Spec.es5Order m := by
  funext r d
  simp only [seqMethods, List.mem_cons, List.not_mem_nil, or_false] at hm
  rcases hm with h | h | h | h | h | h | h | h | h | h | h | h | h | h <;> subst h <;> simp [goOrder, Spec.es5Order] <;>
    (try (by_cases h1 : r.args.length = 1 <;> simp [h1, present]))

/-- C09.seq_log_eq: for every modelled method, on every receiver and argument list (primitive, scripted, throwing), the
    implementation's plan and the ES5 plan make the same conversion-method calls (valueOf / toString of the same operand) in the same order, fail at the
    same call with the same exception, and otherwise apply their pure functions to the same converted values -/
theorem seq_log_eq (E : Env) (m : String) (r : Run) (hm : m ∈ seqMethods) :
    ((goPlan E m).run r).1 = ((Spec.es5Plan E m).run r).1 ∧
    ((((goPlan E m).run r).2 = ((Spec.es5Plan E m).run r).2 ∧
        (((goPlan E m).run r).2 = .throwScript ∨ ((goPlan E m).run r).2 = .throwType)) ∨
     ∃ d', ((goPlan E m).run r).2 = (goPlan E m).finish r d' ∧ ((Spec.es5Plan E m).run r).2 = (Spec.es5Plan E m).finish r d') :=
  exec_next_congr (goPlan E m) (Spec.es5Plan E m) r (order_agrees E m hm) (hint_agrees m) _ _ _

/-! ## Deviation regions: kernel-checked witnesses (each is replayed on the real code by the harness) -/

/-- a parameter instance for the witnesses (no string→number or number→string conversion occurs) -/
def E0 : Env := { c5 := { pn := fun _ => .nan }, numStr := fun _ => [] }
def num (n : Nat) : Val := .f64 (.fin false n 0)
def sABC : List Nat := [0x61, 0x62, 0x63]
def sAEB : List Nat := [0x61, 0xC3, 0xA9, 0x62]                    -- "aéb"
def sAXB : List Nat := [0x61, 0xF0, 0x9D, 0x92, 0xB3, 0x62]        -- "a𝒳b" (U+1D4B3)

set_option maxRecDepth 4000

-- charAt_surrogate: "𝒳".charAt(0) (a Go string cannot hold the lone surrogate)
example : charAt E0 (.strObj [0xF0, 0x9D, 0x92, 0xB3]) [num 0] ≠ Spec.charAt E0 (.strObj [0xF0, 0x9D, 0x92, 0xB3]) [num 0] := by decide
-- call_undefined_this: String.prototype.trim.call(undefined)
example : trim E0 (callThis (.val .undef)) [] ≠ Spec.trim E0 (.val .undef) [] := by decide
-- lone_surrogate: String.fromCharCode(0xD800).concat()
example : concat E0 (.val16 [0xD800]) [] ≠ Spec.concat E0 (.val16 [0xD800]) [] := by decide
-- repaired regions now agree (kept as regression examples, both sides evaluated by the kernel):
-- rune_offsets, charAt_fffd, indexOf/lastIndexOf_byte_offset, lastIndexOf_nan/_neginf, split_empty_sep_astral,
-- substr/lastIndexOf overflow, toUint_big
-- index_noncanonical (repaired by da2af68): "abc"["01"] is undefined, "abc"["1"] is "b"
example : index E0 (.strObj sABC) (.str [0x30, 0x31]) = .undef ∧ Spec.index E0 (.strObj sABC) (.str [0x30, 0x31]) = .undef := by decide
example : index E0 (.strObj sABC) (.str [0x31]) = .str [0x62] ∧ Spec.index E0 (.strObj sABC) (.str [0x31]) = .str [0x62] := by decide
example : slice E0 (.strObj sAXB) [num 1, num 2] = .str [0xD835] ∧ Spec.slice E0 (.strObj sAXB) [num 1, num 2] = .str [0xD835] := by decide
example : substring E0 (.strObj sAXB) [num 2, num 3] = Spec.substring E0 (.strObj sAXB) [num 2, num 3] := by decide
example : substr E0 (.strObj sAXB) [num 3, num 1] = .str [0x62] ∧ Spec.substr E0 (.strObj sAXB) [num 3, num 1] = .str [0x62] := by decide
example : charCodeAt E0 (.strObj [0xEF, 0xBF, 0xBD]) [num 0] = .int 0xFFFD ∧ Spec.charCodeAt E0 (.strObj [0xEF, 0xBF, 0xBD]) [num 0] = .int 0xFFFD := by decide
example : charAt E0 (.strObj [0xEF, 0xBF, 0xBD]) [num 0] = Spec.charAt E0 (.strObj [0xEF, 0xBF, 0xBD]) [num 0] := by decide
example : index E0 (.strObj [0xEF, 0xBF, 0xBD]) (.str [0x30]) = Spec.index E0 (.strObj [0xEF, 0xBF, 0xBD]) (.str [0x30]) := by decide
example : indexOf E0 (.strObj sAEB) [.str [0x62], num 2] = .int 2 ∧ Spec.indexOf E0 (.strObj sAEB) [.str [0x62], num 2] = .int 2 := by decide
example : indexOf E0 (.strObj sAXB) [.str [0x62], num 2] = .int 3 ∧ Spec.indexOf E0 (.strObj sAXB) [.str [0x62], num 2] = .int 3 := by decide
example : lastIndexOf E0 (.strObj sAEB) [.str [0x62], num 2] = .int 2 ∧ Spec.lastIndexOf E0 (.strObj sAEB) [.str [0x62], num 2] = .int 2 := by decide
example : lastIndexOf E0 (.strObj sABC) [.str [0x63], .f64 .nan] = .int 2 ∧ Spec.lastIndexOf E0 (.strObj sABC) [.str [0x63], .f64 .nan] = .int 2 := by decide
example : lastIndexOf E0 (.strObj sABC) [.str [0x63], .f64 (.inf true)] = .int (-1) ∧ Spec.lastIndexOf E0 (.strObj sABC) [.str [0x63], .f64 (.inf true)] = .int (-1) := by decide
example : lastIndexOf E0 (.strObj sABC) [.str [0x63], .f64 (.fin false 1 63)] = .int 2 ∧
    Spec.lastIndexOf E0 (.strObj sABC) [.str [0x63], .f64 (.fin false 1 63)] = .int 2 := by decide
example : split E0 (.strObj sAXB) [.str []] = .arr [[0x61], [0xD835], [0xDCB3], [0x62]] ∧
    Spec.split E0 (.strObj sAXB) [.str []] = .arr [[0x61], [0xD835], [0xDCB3], [0x62]] := by decide
example : substr E0 (.strObj sABC) [num 1, .f64 (.inf false)] = .str [0x62, 0x63] ∧
    Spec.substr E0 (.strObj sABC) [num 1, .f64 (.inf false)] = .str [0x62, 0x63] := by decide
example : charAt E0 (.val (.str sABC)) [num 1] = .str [0x62] ∧ Spec.charAt E0 (.val (.str sABC)) [num 1] = .str [0x62] := by decide
example : fromCharCode E0 [.f64 (.fin false (2^52 + 1) 11)] = .str [2048] ∧
    Spec.fromCharCode E0 [.f64 (.fin false (2^52 + 1) 11)] = .str [2048] := by decide
-- case_special: "ß".toUpperCase(), "İ".toLowerCase();  case_astral: "𐐀".toLowerCase()
example : toUpperCase E0 (.strObj [0xC3, 0x9F]) [] = .str [0xDF] ∧ Spec.toUpperCase E0 (.strObj [0xC3, 0x9F]) [] = .str [0x53, 0x53] := by decide
example : toLowerCase E0 (.strObj [0xC4, 0xB0]) [] = .str [0x69] ∧ Spec.toLowerCase E0 (.strObj [0xC4, 0xB0]) [] = .str [0x69, 0x307] := by decide
example : toLowerCase E0 (.strObj [0xF0, 0x90, 0x90, 0x80]) [] ≠ Spec.toLowerCase E0 (.strObj [0xF0, 0x90, 0x90, 0x80]) [] := by decide


-- index_not_enumerable / define_index_shadow (repaired by 255d788, 08228c6): both sides agree
example : (SObj.build sABC []).desc [0x31] = .arr [[0x62], [0, 1, 0]] ∧ Spec.desc (U sABC) [] [0x31] = .arr [[0x62], [0, 1, 0]] := by decide
example : (SObj.build sABC []).isEnumerable [0x31] = true ∧ Spec.isEnumerable (U sABC) [] [0x31] = true := by decide
example : (SObj.build sABC []).defineX [0x30] = .throwType ∧ Spec.defineX (U sABC) [] [0x30] = .throwType := by decide
example : (SObj.build sABC []).defineX [0x33] = .str [120] ∧ Spec.defineX (U sABC) [] [0x33] = .str [120] := by decide
-- agreement of the own-property set on an example with expandos ("foo", "5", an ignored "0" and "length")
example : (SObj.build sABC [[102, 111, 111], [0x35], [0x30], sLength]).ownNames =
    [[0x30], [0x31], [0x32], sLength, [102, 111, 111], [0x35]] ∧
    Spec.ownNames (U sABC) [[102, 111, 111], [0x35], [0x30], sLength] =
    [[0x30], [0x31], [0x32], sLength, [102, 111, 111], [0x35]] := by decide
example : (SObj.build sABC []).hasOwn [0x30, 0x31] = false ∧ (SObj.build sABC []).hasOwn [0x33] = false ∧
    (SObj.build sABC []).hasOwn [0x32] = true ∧ (SObj.build sAXB []).hasOwn [0x33] = true := by decide


-- order regions: the call log of the implementation's plan against the ES5 plan (0 = receiver, k+1 = argument k)
def oS (bs : List Nat) : Operand := .obj [.ret (.str bs)]
def oN (n : Nat) : Operand := .obj [.ret (num n)]
-- the four former order regions (repaired by 9cedee7, 90e37ee, fa1b2ca, b1a6116): both plans agree
example : ((goPlan E0 "charAt").run ⟨oS sABC, [oN 1]⟩).1 = [(0, 0), (1, 0)] ∧ ((Spec.es5Plan E0 "charAt").run ⟨oS sABC, [oN 1]⟩).1 = [(0, 0), (1, 0)] := by decide
example : ((goPlan E0 "split").run ⟨.prim (.str sABC), [oS [0x2C], .prim (num 0)]⟩) = ([(1, 0)], .arr []) ∧
    ((Spec.es5Plan E0 "split").run ⟨.prim (.str sABC), [oS [0x2C], .prim (num 0)]⟩) = ([(1, 0)], .arr []) := by decide
example : ((goPlan E0 "replace").run ⟨.prim (.str sABC), [.prim (.str [0x78]), oS [0x79]]⟩).1 = [(2, 0)] ∧
    ((Spec.es5Plan E0 "replace").run ⟨.prim (.str sABC), [.prim (.str [0x78]), oS [0x79]]⟩).1 = [(2, 0)] := by decide
example : ((goPlan E0 "lastIndexOf").run ⟨.prim (.str []), [.prim (.str [0x78]), oN 2]⟩).1 = [(2, 0)] ∧
    ((Spec.es5Plan E0 "lastIndexOf").run ⟨.prim (.str []), [.prim (.str [0x78]), oN 2]⟩).1 = [(2, 0)] := by decide
-- slice converts start before end, the end conversion does not run when start throws
example : (goPlan E0 "slice").run ⟨.prim (.str sABC), [oN 1, oN 2]⟩ = ([(1, 0), (2, 0)], .str [0x62]) ∧
    (goPlan E0 "slice").run ⟨.prim (.str sABC), [.obj [.throw], oN 2]⟩ = ([(1, 0)], .throwScript) := by decide

-- primitive_this_boxed (repaired by fc1155e): with String.prototype.toString replaced, "abc".charAt(0) is "a" on both sides,
-- and a String object receiver is converted through the replaced toString on both sides
example : (memberThisOverridden sZZZ (.val (.str sABC))).map (fun rm => charAt E0 rm [num 0]) = some (.str [0x61]) ∧
    Spec.charAt E0 (Spec.thisOverridden sZZZ (.val (.str sABC))) [num 0] = .str [0x61] := by decide
example : (memberThisOverridden sZZZ (.strObj sABC)).map (fun rm => charAt E0 rm [num 0]) = some (.str [122]) ∧
    Spec.charAt E0 (Spec.thisOverridden sZZZ (.strObj sABC)) [num 0] = .str [122] := by decide

/-- C09.this_of_member_call: with or without a replaced String.prototype.toString, the `this` a method call hands to a
    built-in is the one ES5 §11.2.3 / §8.7 prescribes (a primitive stays the primitive, a String object is
    converted by its toString), for every receiver that is not undefined or null -/
theorem this_of_member_call (t : List Nat) (r : Recv) (h : coercible r = true) :
    memberThisOverridden t r = some (Spec.thisOverridden t r) ∧ (∀ s, r ≠ .strObj s → memberCallThis r = some r) := by
  refine ⟨?_, ?_⟩
  · cases r with
    | val v => cases v <;> simp_all [memberThisOverridden, memberCallThis, Spec.thisOverridden, coercible]
    | _ => simp [memberThisOverridden, memberCallThis, Spec.thisOverridden]
  · intro s _
    cases r with
    | val v => cases v <;> simp_all [memberCallThis, coercible]
    | _ => simp [memberCallThis]

-- which METHOD is called (seed K12): concat converts its arguments with ToString (toString first), positions with
-- ToInteger (valueOf first); an object without toString concatenates as "[object Object]"; DefaultValue falls back to
-- the other method when the first is not callable or returns an object, and throws TypeError when both fail
def dVT (v t : Val) : Operand := .dual (.outs [.ret v]) (.outs [.ret t])
example : (goPlan E0 "concat").run ⟨.prim (.str [0x61]), [dVT (num 1) (.str [0x73])]⟩ = ([(1, 2)], .str [0x61, 0x73]) ∧
    (Spec.es5Plan E0 "concat").run ⟨.prim (.str [0x61]), [dVT (num 1) (.str [0x73])]⟩ = ([(1, 2)], .str [0x61, 0x73]) := by decide
example : ((goPlan E0 "slice").run ⟨.prim (.str sABC), [dVT (num 1) (.str [0x32])]⟩) = ([(1, 1)], .str [0x62, 0x63]) := by decide
example : ((goPlan E0 "concat").run ⟨.prim (.str [0x61]), [.dual (.outs [.ret (num 1)]) .absent]⟩) = ([], .str ([0x61] ++ sObjectObject)) := by decide
example : ((goPlan E0 "concat").run ⟨.dual .notCallable (.outs [.retObj]), []⟩) = ([(0, 2)], .throwType) := by decide
example : ((goPlan E0 "concat").run ⟨.dual (.outs [.ret (.str [0x76])]) (.outs [.retObj]), []⟩) = ([(0, 2), (0, 1)], .str [0x76]) := by decide

/-! ## Non-vacuity of the side conditions -/
example : NoLone (.strObj sAXB) ∧ NoLone (.val16 [0xD835, 0xDCB3]) ∧ SmallInt (num 2) ∧ SmallInt (.int .i64 7) ∧ ¬ NoLone (.val16 [0xD800]) := by
  refine ⟨trivial, by show U (bytesOfUnits [0xD835, 0xDCB3]) = [0xD835, 0xDCB3]; decide, trivial,
    by show (7 : Int).natAbs < 2^53; decide, by show ¬ (U (bytesOfUnits [0xD800]) = [0xD800]); decide⟩
example : slice E0 (.strObj sAEB) [num 1, num 2] = .str [0xE9] := by decide

end OttoVerif.C09.Thm
