/-  C09/Theorems — the ledger for property C09 (every theorem here is audited).  Placeholder. -/
namespace OttoVerif.C09.Thm
end OttoVerif.C09.Thm
