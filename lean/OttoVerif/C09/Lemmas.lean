/-
  C09/Lemmas — helper lemmas for the C09 ledger: the UTF-8 / UTF-16 round trips of Base/Str
  (decodeRune ∘ encodeRune, scalar-ness of decoded runes, ASCII and BMP collapses) and the
  saturating-int64 position arithmetic.  Core-only.
-/
import OttoVerif.C09.Spec
namespace OttoVerif.C09.Lem
open OttoVerif.F64 OttoVerif.Str OttoVerif.C05 OttoVerif.C09

/-- a Unicode scalar value -/
def Scalar (r : Nat) : Prop := r < 0xD800 ∨ (0xE000 ≤ r ∧ r ≤ 0x10FFFF)

theorem dec1 (b0 : Nat) (rest : List Nat) (h : b0 < 0x80) : decodeRune (b0 :: rest) = some (b0, 1) := by
  simp [decodeRune, h]

theorem dec2 (b0 b1 : Nat) (rest : List Nat) (h0 : 0xC2 ≤ b0) (h0' : b0 < 0xE0) (h1 : 0x80 ≤ b1) (h1' : b1 ≤ 0xBF) :
    decodeRune (b0 :: b1 :: rest) = some ((b0 - 0xC0) * 64 + (b1 - 0x80), 2) := by
  have a1 : ¬ b0 < 0x80 := by omega
  have a2 : ¬ b0 < 0xC2 := by omega
  simp [decodeRune, isCont, a1, a2, h0', h1, h1']

theorem dec3 (b0 b1 b2 : Nat) (rest : List Nat) (h0 : 0xE0 ≤ b0) (h0' : b0 < 0xF0)
    (h1 : (if b0 = 0xE0 then 0xA0 else 0x80) ≤ b1) (h1' : b1 ≤ (if b0 = 0xED then 0x9F else 0xBF))
    (h2 : 0x80 ≤ b2) (h2' : b2 ≤ 0xBF) :
    decodeRune (b0 :: b1 :: b2 :: rest) = some ((b0 - 0xE0) * 4096 + (b1 - 0x80) * 64 + (b2 - 0x80), 3) := by
  have a1 : ¬ b0 < 0x80 := by omega
  have a2 : ¬ b0 < 0xC2 := by omega
  have a3 : ¬ b0 < 0xE0 := by omega
  simp [decodeRune, isCont, a1, a2, a3, h0', h1, h1', h2, h2']

theorem dec4 (b0 b1 b2 b3 : Nat) (rest : List Nat) (h0 : 0xF0 ≤ b0) (h0' : b0 < 0xF5)
    (h1 : (if b0 = 0xF0 then 0x90 else 0x80) ≤ b1) (h1' : b1 ≤ (if b0 = 0xF4 then 0x8F else 0xBF))
    (h2 : 0x80 ≤ b2) (h2' : b2 ≤ 0xBF) (h3 : 0x80 ≤ b3) (h3' : b3 ≤ 0xBF) :
    decodeRune (b0 :: b1 :: b2 :: b3 :: rest) =
      some ((b0 - 0xF0) * 262144 + (b1 - 0x80) * 4096 + (b2 - 0x80) * 64 + (b3 - 0x80), 4) := by
  have a1 : ¬ b0 < 0x80 := by omega
  have a2 : ¬ b0 < 0xC2 := by omega
  have a3 : ¬ b0 < 0xE0 := by omega
  have a4 : ¬ b0 < 0xF0 := by omega
  simp [decodeRune, isCont, a1, a2, a3, a4, h0', h1, h1', h2, h2', h3, h3']

theorem decode_encode (r : Nat) (h : Scalar r) (rest : List Nat) :
    decodeRune (encodeRune r ++ rest) = some (r, (encodeRune r).length) := by
  unfold Scalar at h
  have hdd : r / 64 / 64 = r / 4096 := Nat.div_div_eq_div_mul r 64 64
  have hdd2 : r / 4096 / 64 = r / 262144 := Nat.div_div_eq_div_mul r 4096 64
  unfold encodeRune
  have hs : ¬ ((0xD800 ≤ r ∧ r ≤ 0xDFFF) ∨ r > 0x10FFFF) := by omega
  simp only [hs, if_false]
  by_cases h1 : r < 0x80
  · simp [h1, decodeRune]
  · by_cases h2 : r < 0x800
    · simp only [h1, h2, if_true, if_false, List.cons_append, List.nil_append]
      rw [dec2 _ _ _ (by omega) (by omega) (by omega) (by omega)]
      simp; omega
    · by_cases h3 : r < 0x10000
      · simp only [h1, h2, h3, if_true, if_false, List.cons_append, List.nil_append]
        rw [dec3 _ _ _ _ (by omega) (by omega) (by split <;> omega) (by split <;> omega) (by omega) (by omega)]
        simp; omega
      · simp only [h1, h2, h3, if_true, if_false, List.cons_append, List.nil_append]
        rw [dec4 _ _ _ _ _ (by omega) (by omega) (by split <;> omega) (by split <;> omega) (by omega) (by omega) (by omega) (by omega)]
        simp; omega

theorem encodeRune_len (r : Nat) : 1 ≤ (encodeRune r).length := by
  have key : ∀ x : Nat, 1 ≤ (if x < 0x80 then [x]
      else if x < 0x800 then [0xC0 + x / 64, 0x80 + x % 64]
      else if x < 0x10000 then [0xE0 + x / 4096, 0x80 + (x / 64) % 64, 0x80 + x % 64]
      else [0xF0 + x / 262144, 0x80 + (x / 4096) % 64, 0x80 + (x / 64) % 64, 0x80 + x % 64]).length := by
    intro x
    repeat' split
    all_goals simp
  exact key _

theorem decodeRunesAux_nil (fuel : Nat) : decodeRunesAux fuel [] = [] := by
  cases fuel <;> simp [decodeRunesAux, decodeRune]

theorem encodeRunes_cons (r : Nat) (rs : List Nat) : encodeRunes (r :: rs) = encodeRune r ++ encodeRunes rs := by
  simp [encodeRunes]

theorem decodeAux_encode (rs : List Nat) (h : ∀ r ∈ rs, Scalar r) :
    ∀ fuel, (encodeRunes rs).length ≤ fuel → decodeRunesAux fuel (encodeRunes rs) = rs := by
  induction rs with
  | nil => intro fuel _; simp [encodeRunes, decodeRunesAux_nil]
  | cons r rs ih =>
    intro fuel hf
    rw [encodeRunes_cons] at hf ⊢
    have hl := encodeRune_len r
    simp only [List.length_append] at hf
    cases fuel with
    | zero => omega
    | succ f =>
      simp only [decodeRunesAux]
      rw [decode_encode r (h r (by simp))]
      simp only [List.drop_left]
      rw [ih (fun x hx => h x (by simp [hx])) f (by omega)]

theorem decodeRunes_encodeRunes (rs : List Nat) (h : ∀ r ∈ rs, Scalar r) : decodeRunes (encodeRunes rs) = rs :=
  decodeAux_encode rs h _ (Nat.le_refl _)

theorem utf16Encode_bmp (rs : List Nat) (h : ∀ r ∈ rs, Scalar r ∧ r < 0x10000) : utf16Encode rs = rs := by
  induction rs with
  | nil => simp [utf16Encode]
  | cons r rs ih =>
    have hr := h r (by simp)
    unfold Scalar at hr
    have h1 : ¬ ((0xD800 ≤ r ∧ r ≤ 0xDFFF) ∨ r > 0x10FFFF) := by omega
    have := ih (fun x hx => h x (by simp [hx]))
    simp only [utf16Encode] at this ⊢
    simp [List.flatMap_cons, h1, hr.2, this]

theorem decodeRune_scalar (bs : List Nat) (r w : Nat) (h : decodeRune bs = some (r, w)) : Scalar r ∧ 1 ≤ w := by
  unfold Scalar
  match bs with
  | [] => simp [decodeRune] at h
  | b0 :: rest =>
    by_cases c1 : b0 < 0x80
    · simp [decodeRune, c1] at h; omega
    · by_cases c2 : b0 < 0xC2
      · simp [decodeRune, c1, c2, runeError] at h; omega
      · by_cases c3 : b0 < 0xE0
        · match rest with
          | [] => simp [decodeRune, c1, c2, c3, runeError] at h; omega
          | b1 :: _ =>
            by_cases hc : isCont b1 = true
            · simp [decodeRune, c1, c2, c3, hc] at h
              simp [isCont] at hc
              omega
            · simp [decodeRune, c1, c2, c3, hc, runeError] at h; omega
        · by_cases c4 : b0 < 0xF0
          · match rest with
            | [] => simp [decodeRune, c1, c2, c3, c4, runeError] at h; omega
            | [_] => simp [decodeRune, c1, c2, c3, c4, runeError] at h; omega
            | b1 :: b2 :: _ =>
              by_cases hc : ((if b0 = 0xE0 then 0xA0 else 0x80) ≤ b1 ∧ b1 ≤ (if b0 = 0xED then 0x9F else 0xBF) ∧ isCont b2 = true)
              · simp only [decodeRune, c1, c2, c3, c4, hc, if_true, if_false, and_self] at h
                simp at h
                simp [isCont] at hc
                split at hc <;> split at hc <;> omega
              · simp only [decodeRune, c1, c2, c3, c4, hc, if_true, if_false] at h
                simp [runeError] at h; omega
          · by_cases c5 : b0 < 0xF5
            · match rest with
              | [] => simp [decodeRune, c1, c2, c3, c4, c5, runeError] at h; omega
              | [_] => simp [decodeRune, c1, c2, c3, c4, c5, runeError] at h; omega
              | [_, _] => simp [decodeRune, c1, c2, c3, c4, c5, runeError] at h; omega
              | b1 :: b2 :: b3 :: _ =>
                by_cases hc : ((if b0 = 0xF0 then 0x90 else 0x80) ≤ b1 ∧ b1 ≤ (if b0 = 0xF4 then 0x8F else 0xBF) ∧ isCont b2 = true ∧ isCont b3 = true)
                · simp only [decodeRune, c1, c2, c3, c4, c5, hc, if_true, if_false, and_self] at h
                  simp at h
                  simp [isCont] at hc
                  split at hc <;> split at hc <;> omega
                · simp only [decodeRune, c1, c2, c3, c4, c5, hc, if_true, if_false] at h
                  simp [runeError] at h; omega
            · simp [decodeRune, c1, c2, c3, c4, c5, runeError] at h; omega

theorem decodeRunesAux_scalar : ∀ (fuel : Nat) (bs : List Nat), ∀ r ∈ decodeRunesAux fuel bs, Scalar r := by
  intro fuel
  induction fuel with
  | zero => intro bs r hr; simp [decodeRunesAux] at hr
  | succ f ih =>
    intro bs r hr
    simp only [decodeRunesAux] at hr
    split at hr
    · simp at hr
    · rename_i r0 w0 heq
      simp only [List.mem_cons] at hr
      cases hr with
      | inl h => subst h; exact (decodeRune_scalar _ _ _ heq).1
      | inr h => exact ih _ _ h

theorem decodeRunes_scalar (bs : List Nat) : ∀ r ∈ decodeRunes bs, Scalar r := decodeRunesAux_scalar _ _

theorem decodeAux_ascii (s : List Nat) (h : ∀ b ∈ s, b < 0x80) : ∀ fuel, s.length ≤ fuel → decodeRunesAux fuel s = s := by
  induction s with
  | nil => intro fuel _; cases fuel <;> simp [decodeRunesAux, decodeRune]
  | cons b s ih =>
    intro fuel hf
    cases fuel with
    | zero => simp at hf
    | succ f =>
      have hb := h b (by simp)
      simp only [decodeRunesAux, decodeRune, hb, if_true, List.drop_succ_cons, List.drop_zero]
      rw [ih (fun x hx => h x (by simp [hx])) f (by simp at hf; omega)]

theorem decodeRunes_ascii (s : List Nat) (h : isASCII s = true) : decodeRunes s = s := by
  apply decodeAux_ascii s _ _ (Nat.le_refl _)
  simpa [isASCII] using h

theorem utf16Encode_lt (rs : List Nat) : ∀ u ∈ utf16Encode rs, u < 0x10000 := by
  intro u hu
  simp only [utf16Encode, List.mem_flatMap] at hu
  obtain ⟨r, _, hr⟩ := hu
  split at hr
  · simp [runeError] at hr; omega
  · split at hr
    · simp at hr; omega
    · simp at hr; omega

theorem U_ascii (s : List Nat) (h : isASCII s = true) : U s = s := by
  unfold U unitsOfBytes
  rw [decodeRunes_ascii s h]
  apply utf16Encode_bmp
  intro r hr
  have : r < 0x80 := by
    have := h; simp [isASCII] at this; exact this r hr
  unfold Scalar; omega

/-- no code point above the BMP -/
def NoAstral (s : List Nat) : Prop := ∀ r ∈ decodeRunes s, r < 0x10000

theorem U_bmp (s : List Nat) (h : NoAstral s) : U s = decodeRunes s := by
  unfold U unitsOfBytes
  apply utf16Encode_bmp
  intro r hr
  exact ⟨decodeRunes_scalar s r hr, h r hr⟩

theorem U_encodeRunes_bmp (rs : List Nat) (h : ∀ r ∈ rs, Scalar r ∧ r < 0x10000) : U (encodeRunes rs) = rs := by
  unfold U unitsOfBytes
  rw [decodeRunes_encodeRunes rs (fun r hr => (h r hr).1)]
  exact utf16Encode_bmp rs h

theorem U_encodeRune_unit (c : Nat) (h : Scalar c) (h' : c < 0x10000) : U (encodeRune c) = [c] := by
  have := U_encodeRunes_bmp [c] (by intro r hr; simp at hr; subst hr; exact ⟨h, h'⟩)
  simpa [encodeRunes] using this

theorem ascii_noAstral (s : List Nat) (h : isASCII s = true) : NoAstral s := by
  intro r hr
  rw [decodeRunes_ascii s h] at hr
  have := h; simp [isASCII] at this
  have := this r hr; omega

/-- well-paired code units decode to scalar values and re-encode to themselves -/
theorem utf16_roundtrip : ∀ us : List Nat, wellPaired us = true → (∀ u ∈ us, u < 0x10000) →
    (∀ r ∈ utf16Decode us, Scalar r) ∧ utf16Encode (utf16Decode us) = us
  | [], _, _ => by simp [utf16Decode, utf16Encode]
  | [u], hw, hu => by
    have h1 := hu u (by simp)
    simp only [wellPaired, decide_eq_true_eq] at hw
    have hns : ¬ (0xD800 ≤ u ∧ u < 0xE000) := by omega
    have hs : ¬ ((0xD800 ≤ u ∧ u ≤ 0xDFFF) ∨ u > 0x10FFFF) := by omega
    simp only [utf16Decode, hns, if_false]
    refine ⟨by intro r hr; simp at hr; subst hr; unfold Scalar; omega, ?_⟩
    simp [utf16Encode, hs, h1]
  | u :: v :: rest, hw, hu => by
    have h1 := hu u (by simp)
    have h2 := hu v (by simp)
    by_cases hn : u < 0xD800 ∨ u > 0xDFFF
    · simp only [wellPaired, hn, if_true] at hw
      have ih := utf16_roundtrip (v :: rest) hw (fun x hx => hu x (by simp [hx]))
      have c1 : ¬ (0xD800 ≤ u ∧ u < 0xDC00 ∧ 0xDC00 ≤ v ∧ v < 0xE000) := by omega
      have c2 : ¬ (0xD800 ≤ u ∧ u < 0xE000) := by omega
      have hs : ¬ ((0xD800 ≤ u ∧ u ≤ 0xDFFF) ∨ u > 0x10FFFF) := by omega
      simp only [utf16Decode, c1, c2, if_false]
      refine ⟨?_, ?_⟩
      · intro r hr
        simp only [List.mem_cons] at hr
        rcases hr with h | h
        · subst h; unfold Scalar; omega
        · exact ih.1 r (by simpa using h)
      · have := ih.2
        simp only [utf16Encode] at this ⊢
        simp [List.flatMap_cons, hs, h1, this]
    · simp only [wellPaired, hn, if_false] at hw
      by_cases hp : u < 0xDC00 ∧ 0xDC00 ≤ v ∧ v ≤ 0xDFFF
      · simp only [hp, and_self, if_true] at hw
        have ih := utf16_roundtrip rest hw (fun x hx => hu x (by simp [hx]))
        have c1 : (0xD800 ≤ u ∧ u < 0xDC00 ∧ 0xDC00 ≤ v ∧ v < 0xE000) := by omega
        simp only [utf16Decode, c1, and_self, if_true]
        refine ⟨?_, ?_⟩
        · intro r hr
          simp only [List.mem_cons] at hr
          rcases hr with h | h
          · subst h; unfold Scalar; omega
          · exact ih.1 r h
        · have := ih.2
          simp only [utf16Encode] at this ⊢
          have hs : ¬ ((0xD800 ≤ (u - 0xD800) * 1024 + (v - 0xDC00) + 0x10000 ∧ (u - 0xD800) * 1024 + (v - 0xDC00) + 0x10000 ≤ 0xDFFF) ∨ (u - 0xD800) * 1024 + (v - 0xDC00) + 0x10000 > 0x10FFFF) := by omega
          have hb : ¬ ((u - 0xD800) * 1024 + (v - 0xDC00) + 0x10000 < 0x10000) := by omega
          simp only [List.flatMap_cons, hs, hb, if_false, this]
          have e1 : 0xD800 + ((u - 0xD800) * 1024 + (v - 0xDC00) + 0x10000 - 0x10000) / 1024 = u := by omega
          have e2 : 0xDC00 + ((u - 0xD800) * 1024 + (v - 0xDC00) + 0x10000 - 0x10000) % 1024 = v := by omega
          simp
          omega
      · simp [hp] at hw

/-- utf16Value leaves the code units of its argument unchanged -/
theorem utf16Value_id (us : List Nat) (hu : ∀ u ∈ us, u < 0x10000) : utf16Value us = us := by
  unfold utf16Value
  split
  · rename_i hw
    obtain ⟨hs, he⟩ := utf16_roundtrip us hw hu
    unfold U unitsOfBytes bytesOfUnits
    rw [decodeRunes_encodeRunes _ hs, he]
  · rfl

end OttoVerif.C09.Lem
