/-
  C09/Model — transcription of otto's String built-ins (what the Go code computes).
  builtin_string.go: fromCharCode (l.37), charAt (l.45), charCodeAt (l.55), concat (l.65),
  lastIndexRune/indexRune/utf16Length (l.75-93), indexOf (l.95), lastIndexOf (l.118), split (l.322, string
  separator branch l.399), slice (l.427), substring (l.439), substr (l.450), toLowerCase/toUpperCase (l.489/494),
  trim (l.502), localeCompare (l.532);  Go strings.ToLower/ToUpper via the dumped unicode tables;  type_string.go: newStringObject (l.54), stringAt (l.69),
  stringGetOwnProperty (l.106);  otto_.go: stringToArrayIndex (l.33), valueOfArrayIndex (l.57),
  valueToRangeIndex (l.74), rangeStartEnd (l.98), rangeStartLength (l.116);  value_number.go: Value.number (l.149);
  value_string.go: Value.string (l.50);  runtime.go: checkObjectCoercible (l.182);
  builtin_function.go: builtinFunctionCall (l.94);  cmpl_evaluate_expression.go: dot/bracket expression (l.163, l.245).

  A Go string is its list of UTF-8 bytes.  Every result string is reported as the UTF-16 code units an
  ES5 program sees (`U = Str.unitsOfBytes`), so that model, spec and implementation are compared in
  one currency.  Which unit each Go branch indexes by (byte / rune / code unit) is kept explicit.
-/
import OttoVerif.Base.Str
import OttoVerif.Base.GoStd
import OttoVerif.C05.Model
import OttoVerif.C09.CaseTables
namespace OttoVerif.C09
open OttoVerif.F64 OttoVerif.Str OttoVerif.C05

/-- parameters: string→number (C05/C06 `parseNumber`) and number→string (C06 `Value.string` on numbers) -/
structure Env where
  c5 : C05.Env
  numStr : Val → List Nat

/-- the `this` value a built-in receives -/
inductive Recv where
  | val (v : Val)            -- a primitive (undefined, null, boolean, number, Go string) passed as is
  | val16 (us : List Nat)    -- a primitive string held as []uint16 (result of String.fromCharCode)
  | strObj (s : List Nat)    -- a String object whose value is the Go string s
  | obj (s : List Nat)       -- any other object; DefaultValue(String) yields the Go string s
deriving DecidableEq, Repr, Inhabited

inductive Res where
  | str (units : List Nat)
  | int (i : Int)
  | nan
  | arr (xs : List (List Nat))
  | undef
  | bool (b : Bool)
  | throwType
  | throwScript              -- an exception thrown by a scripted argument's valueOf / toString
  | panic                    -- a Go run-time panic (nil dereference, slice bounds) escapes
deriving DecidableEq, Repr, Inhabited

/-- an integer or ±∞ (the range of ToInteger) -/
inductive EInt where
  | ninf | fin (i : Int) | pinf
deriving DecidableEq, Repr, Inhabited

abbrev U (bs : List Nat) : List Nat := unitsOfBytes bs

def sUndefined : List Nat := [117, 110, 100, 101, 102, 105, 110, 101, 100]
def sNull : List Nat := [110, 117, 108, 108]
def sTrue : List Nat := [116, 114, 117, 101]
def sFalse : List Nat := [102, 97, 108, 115, 101]
/-- "[object environment]": what the global object converts to -/
def sGlobal : List Nat := [91, 111, 98, 106, 101, 99, 116, 32, 101, 110, 118, 105, 114, 111, 110, 109, 101, 110, 116, 93]

/-- Value.string (value_string.go:50) on primitives -/
def toStr (E : Env) : Val → List Nat
  | .undef => sUndefined
  | .null => sNull
  | .bool b => if b then sTrue else sFalse
  | .str s => s
  | v => E.numStr v

/-- call.This.string() -/
def thisString (E : Env) : Recv → List Nat
  | .val v => toStr E v
  | .val16 us => bytesOfUnits us            -- string(utf16.Decode(value)): lone surrogates become U+FFFD
  | .strObj s => s
  | .obj s => s

/-- testObjectCoercible (runtime.go:190): false only for undefined and null -/
def coercible : Recv → Bool
  | .val .undef => false
  | .val .null => false
  | _ => true

/-- Function.prototype.call / apply (builtin_function.go:99-103): an undefined thisArg is replaced by
    the global object ("FIXME Not ECMA5") -/
def callThis : Recv → Recv
  | .val .undef => .obj sGlobal
  | r => r

/-- `r.m(…)` (cmpl_evaluate_expression.go:245 + l.193): the base is objectCoerce'd, `this` is that object.
    `none` = TypeError "Cannot access member" -/
def memberThis (E : Env) : Recv → Option Recv
  | .val .undef => none
  | .val .null => none
  | .val (.str s) => some (.strObj s)
  | .val16 us => some (.strObj (bytesOfUnits us))
  | .val v => some (.obj (toStr E v))       -- Boolean / Number wrapper
  | r => some r

def argAt (args : List Val) (i : Nat) : Val := args.getD i .undef

def minInt64 : Int := -(2^63 : Int)
def maxInt64 : Int := 2^63 - 1

structure Num where
  i : Int
  isInf : Bool
  isNaN : Bool := false
deriving DecidableEq, Repr

/-- the float branch of Value.number (value_number.go:175-213) -/
def numberOfFloat : FV → Num
  | .nan => ⟨0, false, true⟩
  | .inf s => ⟨if s then minInt64 else maxInt64, true, false⟩
  | .fin s m e =>
    let t := truncInt (.fin s m e)
    if t ≥ (2^63 : Int) then ⟨maxInt64, false, false⟩
    else if t ≤ -(2^63 : Int) then ⟨minInt64, false, false⟩
    else ⟨t, false, false⟩

/-- Value.number().int64 and `kind == numberInfinity` (value_number.go:149) -/
def number (E : Env) (v : Val) : Num :=
  match v with
  | .int .i8 i => ⟨i, false, false⟩
  | .int .i16 i => ⟨i, false, false⟩
  | .int .u8 i => ⟨i, false, false⟩
  | .int .u16 i => ⟨i, false, false⟩
  | .int .u32 i => ⟨i, false, false⟩
  | .int .int i => ⟨i, false, false⟩
  | .int .i64 i => ⟨i, false, false⟩
  | .int .i32 i => ⟨i, false, false⟩
  | .int .u64 i => if i ≤ maxInt64 then ⟨i, false, false⟩ else numberOfFloat (toFloat E.c5 v)
  | .int .uint i => if i ≤ maxInt64 then ⟨i, false, false⟩ else numberOfFloat (toFloat E.c5 v)
  | _ => numberOfFloat (toFloat E.c5 v)

/-- a double that is already integral-or-special, as an extended integer: NaN ↦ 0, ±Inf stay, a finite
    value is truncated toward zero (sign(x)·floor(|x|)) -/
def EInt.ofNumber : FV → EInt
  | .nan => .fin 0
  | .inf s => if s then .ninf else .pinf
  | .fin s m e => .fin (truncInt (.fin s m e))

/-- toIntegerFloat (value_number.go:117) read as an exact extended integer (math.Floor / math.Ceil are
    exact; ±Inf pass through; NaN gives 0) -/
def toIntegerE (E : Env) (v : Val) : EInt := EInt.ofNumber (toFloat E.c5 v)

/-- Go int64 arithmetic wraps -/
def wrap64 (i : Int) : Int := wrapS 64 i

def isASCII (s : List Nat) : Bool := s.all (· < 0x80)

/-- stringObjecter.Length (type_string.go:17/34) -/
def strLength (s : List Nat) : Nat := if isASCII s then s.length else (U s).length
/-- stringObjecter.At -/
def strAt (s : List Nat) (i : Nat) : Nat := if isASCII s then s.getD i 0 else (U s).getD i 0

/-- stringAt (type_string.go): the code unit and `true`, or `false` (here `none`) out of range -/
def stringAt (s : List Nat) (index : Int) : Option Nat :=
  if 0 ≤ index ∧ index < strLength s then some (strAt s index.toNat) else none

/-- builtinStringCharAt (after fix 6afda39: the receiver is ToString'd and wrapped by newStringObject) -/
def charAt (E : Env) (r : Recv) (args : List Val) : Res :=
  if !coercible r then .throwType else
  let idx := (number E (argAt args 0)).i
  match stringAt (thisString E r) idx with
  | none => .str []
  | some chr => .str (U (encodeRune chr))            -- string(chr): a surrogate unit becomes U+FFFD

/-- builtinStringCharCodeAt -/
def charCodeAt (E : Env) (r : Recv) (args : List Val) : Res :=
  if !coercible r then .throwType else
  let idx := (number E (argAt args 0)).i
  match stringAt (thisString E r) idx with
  | none => .nan
  | some chr => .int chr

/-- String object `length` (type_string.go:80) -/
def length (_E : Env) (r : Recv) : Res :=
  match r with
  | .strObj s => .int (strLength s)
  | _ => .undef

/-- strconv.FormatInt(i, 10) for i ≥ 0 -/
def formatNat (n : Nat) : List Nat := (Nat.toDigits 10 n).map (·.toNat)

/-- stringToArrayIndex (otto_.go:33; since fix da2af68 only the canonical numeral is an index) -/
def stringToArrayIndex (name : List Nat) : Int :=
  match GoStd.parseInt name 10 with
  | .ok i =>
    if i < 0 then -1 else if i ≥ 4294967295 then -1
    else if formatNat i.toNat ≠ name then -1 else i
  | _ => -1

/-- stringGetOwnProperty (type_string.go:106), for names that are not ordinary own properties -/
def index (E : Env) (r : Recv) (key : Val) : Res :=
  match r with
  | .strObj s =>
    let idx := stringToArrayIndex (toStr E key)
    if idx ≥ 0 then
      match stringAt s idx with
      | some chr => .str (U (encodeRune chr))
      | none => .undef
    else .undef
  | _ => .undef

/-- builtinStringFromCharCode: the result is a []uint16 string -/
def fromCharCode (E : Env) (args : List Val) : Res :=
  .str (args.map fun v => (toUint16 E.c5 v).toNat)

/-- builtinStringConcat -/
def concat (E : Env) (r : Recv) (args : List Val) : Res :=
  if !coercible r then .throwType else
  .str (U (thisString E r ++ (args.map (toStr E)).flatten))

/-- does `t` occur at the head of `s` (bytes) -/
def isPrefix : List Nat → List Nat → Bool
  | [], _ => true
  | _ :: _, [] => false
  | a :: t, b :: s => a = b && isPrefix t s

/-- strings.Index -/
def indexBytes : List Nat → List Nat → Option Nat
  | [], t => if t.isEmpty then some 0 else none
  | b :: s, t => if isPrefix t (b :: s) then some 0 else (indexBytes s t).map (· + 1)

/-- strings.LastIndex -/
def lastIndexBytes : List Nat → List Nat → Option Nat
  | [], t => if t.isEmpty then some 0 else none
  | b :: s, t =>
    match lastIndexBytes s t with
    | some i => some (i + 1)
    | none => if isPrefix t (b :: s) then some 0 else none

def utf16Length (s : List Nat) : Nat := (U s).length

def indexRune (s t : List Nat) : Int :=
  match indexBytes s t with
  | some i => utf16Length (s.take i)
  | none => -1

def lastIndexRune (s t : List Nat) : Int :=
  match lastIndexBytes s t with
  | some i => utf16Length (s.take i)
  | none => -1

/-- the loop of utf16Prefix over the (rune, width) segmentation of s -/
def utf16PrefixAux : List (Nat × Nat) → Nat → Nat → Nat → Nat × Nat
  | [], _, off, units => (off, units)
  | (r, w) :: rest, pos, off, units =>
    let size := if r ≥ 0x10000 then 2 else 1
    if units + size > pos then (off, units) else utf16PrefixAux rest pos (off + w) (units + size)

/-- utf16Prefix (builtin_string.go): byte length and unit count of the longest prefix of whole code
    points with at most pos UTF-16 code units -/
def utf16Prefix (s : List Nat) (pos : Nat) : Nat × Nat :=
  utf16PrefixAux (GoStd.segments s.length s) pos 0 0

/-- builtinStringIndexOf: the position counts UTF-16 code units -/
def indexOf (E : Env) (r : Recv) (args : List Val) : Res :=
  if !coercible r then .throwType else
  let value := thisString E r
  let target := toStr E (argAt args 0)
  if args.length < 2 then .int (indexRune value target) else
  let length := utf16Length value
  let past : Res := if target.isEmpty then .int length else .int (-1)
  let go (start : Nat) : Res :=
    if target.isEmpty then .int start else
    let (offset, position) := utf16Prefix value start
    let (offset, position) :=
      if position < start then                       -- start is the second half of a surrogate pair
        (offset + (match decodeRune (value.drop offset) with | some (_, w) => w | none => 0), position + 2)
      else (offset, position)
    let index := indexRune (value.drop offset) target
    .int (if index ≥ 0 then index + position else index)
  match toIntegerE E (argAt args 1) with
  | .ninf => go 0
  | .pinf => past
  | .fin i => if i < 0 then go 0 else if i ≥ length then past else go i.toNat

/-- builtinStringLastIndexOf: the position counts UTF-16 code units -/
def lastIndexOf (E : Env) (r : Recv) (args : List Val) : Res :=
  if !coercible r then .throwType else
  let value := thisString E r
  let target := toStr E (argAt args 0)
  if args.length < 2 ∨ argAt args 1 = .undef then .int (lastIndexRune value target) else
  let length : Int := utf16Length value
  if length = 0 then .int (lastIndexRune value target) else
  let start := number E (argAt args 1)
  if (start.isInf ∧ start.i > 0) ∨ start.isNaN then .int (lastIndexRune value target) else
  let s0 := if start.i < 0 then 0 else start.i
  let s0 := if s0 > length then length else s0
  if target.isEmpty then .int s0 else
  let end0 := wrap64 (s0 + utf16Length target)
  let end1 := if end0 > length then length else end0
  let (offset, _) := utf16Prefix value end1.toNat
  .int (lastIndexRune (value.take offset) target)

/-- valueToRangeIndex (otto_.go:74) -/
def valueToRangeIndex (index length : Int) (negativeIsZero : Bool) : Int :=
  if negativeIsZero then
    let index := if index < 0 then 0 else index
    if index ≥ length then length else index
  else if index < 0 then
    let index := index + length
    if index < 0 then 0 else index
  else if index > length then length else index

/-- rangeStartEnd (otto_.go:98) -/
def rangeStartEnd (E : Env) (args : List Val) (size : Int) (negativeIsZero : Bool) : Int × Int :=
  let start := valueToRangeIndex (number E (argAt args 0)).i size negativeIsZero
  if args.length = 1 then (start, size) else
  match argAt args 1 with
  | .undef => (start, size)
  | endValue => (start, valueToRangeIndex (number E endValue).i size negativeIsZero)

/-- rangeStartLength (otto_.go:116) -/
def rangeStartLength (E : Env) (args : List Val) (size : Int) : Int × Int :=
  let start := valueToRangeIndex (number E (argAt args 0)).i size false
  if args.length = 1 then (start, size) else
  match argAt args 1 with
  | .undef => (start, size)
  | lengthValue => (start, (number E lengthValue).i)

/-- target[a:b] on a []uint16 slice, 0 ≤ a ≤ b ≤ len -/
def runeSlice (target : List Nat) (a b : Int) : List Nat := (target.drop a.toNat).take (b - a).toNat

/-- the loop of utf16Value: true iff every surrogate is part of a pair -/
def wellPaired : List Nat → Bool
  | [] => true
  | [u] => decide (u < 0xD800 ∨ u > 0xDFFF)
  | u :: v :: rest =>
    if u < 0xD800 ∨ u > 0xDFFF then wellPaired (v :: rest)
    else if u < 0xDC00 ∧ 0xDC00 ≤ v ∧ v ≤ 0xDFFF then wellPaired rest
    else false

/-- utf16Value (builtin_string.go): a Go string (decoded, then seen again as code units) unless some
    surrogate is unpaired, in which case the code units are kept as they are -/
def utf16Value (units : List Nat) : List Nat :=
  if wellPaired units then U (bytesOfUnits units) else units

/-- builtinStringSlice: UTF-16 code-unit offsets -/
def slice (E : Env) (r : Recv) (args : List Val) : Res :=
  if !coercible r then .throwType else
  let target := U (thisString E r)
  let (start, end_) := rangeStartEnd E args target.length false
  if end_ - start ≤ 0 then .str [] else .str (utf16Value (runeSlice target start end_))

/-- builtinStringSubstring: UTF-16 code-unit offsets -/
def substring (E : Env) (r : Recv) (args : List Val) : Res :=
  if !coercible r then .throwType else
  let target := U (thisString E r)
  let (start, end_) := rangeStartEnd E args target.length true
  let (start, end_) := if start > end_ then (end_, start) else (start, end_)
  .str (utf16Value (runeSlice target start end_))

/-- builtinStringSubstr: UTF-16 code-unit offsets, no checkObjectCoercible; after fix d18503f the cap test is
    `length >= size-start`, which cannot overflow -/
def substr (E : Env) (r : Recv) (args : List Val) : Res :=
  let target := U (thisString E r)
  let size : Int := target.length
  let (start, length) := rangeStartLength E args size
  if start ≥ size then .str [] else
  if length ≤ 0 then .str [] else
  let length := if length ≥ size - start then size - start else length
  let hi := wrap64 (start + length)
  if hi < start then .panic                                                     -- slice bounds out of range
  else .str (utf16Value (runeSlice target start hi))

/-- strings.genSplit(s, sep, 0, n) for a non-empty separator; n < 0 means no limit -/
def genSplit : Nat → List Nat → List Nat → Int → List (List Nat)
  | 0, s, _, _ => [s]
  | fuel+1, s, sep, n =>
    if n = 1 then [s] else
    match indexBytes s sep with
    | none => [s]
    | some m => s.take m :: genSplit fuel (s.drop (m + sep.length)) sep (n - 1)

/-- strings.explode(s, n): one string per UTF-8 sequence, the n-th holds the rest -/
def explode : Nat → List Nat → Int → List (List Nat)
  | 0, _, _ => []
  | fuel+1, s, n =>
    match decodeRune s with
    | none => []
    | some (ch, w) =>
      if n = 1 then [s]
      else (if ch = runeError then encodeRune runeError else s.take w) :: explode fuel (s.drop w) (n - 1)

/-- strings.SplitN -/
def splitN (s sep : List Nat) (n : Int) : List (List Nat) :=
  if n = 0 then []
  else if sep.isEmpty then
    let l : Int := (decodeRunes s).length
    explode s.length s (if n < 0 ∨ n > l then l else n)
  else genSplit s.length s sep n

/-- builtinStringSplit, separator not a RegExp -/
def split (E : Env) (r : Recv) (args : List Val) : Res :=
  if !coercible r then .throwType else
  let target := thisString E r
  let separatorValue := argAt args 0
  let limitValue := argAt args 1
  let limit : Int := match limitValue with | .undef => -1 | v => toUint32 E.c5 v
  if limit = 0 then .arr [] else
  match separatorValue with
  | .undef => .arr [U target]
  | sv =>
    let separator := toStr E sv
    if separator.isEmpty then                              -- one element per UTF-16 code unit
      let units := U target
      let units := if limit > 0 ∧ units.length > limit then units.take limit.toNat else units
      .arr (units.map fun u => utf16Value [u])
    else
    let splitLimit := if limit > 0 then limit + 1 else limit
    let sp := splitN target separator splitLimit
    let sp := if limit > 0 ∧ sp.length > limit then sp.take limit.toNat else sp
    .arr (sp.map U)

/-- builtinStringTrim: strings.Trim(s, builtinStringTrimWhitespace) -/
def trimWhitespace : List Nat :=
  [0x9, 0xA, 0xB, 0xC, 0xD, 0x20, 0xA0, 0x1680, 0x180E, 0x2000, 0x2001, 0x2002, 0x2003, 0x2004, 0x2005,
   0x2006, 0x2007, 0x2008, 0x2009, 0x200A, 0x2028, 0x2029, 0x202F, 0x205F, 0x3000, 0xFEFF]

def trim (E : Env) (r : Recv) (_args : List Val) : Res :=
  if !coercible r then .throwType else
  .str (U (GoStd.trim trimWhitespace (thisString E r)))

/-- Go `<` on strings: bytewise -/
def bytesLt : List Nat → List Nat → Bool
  | [], [] => false
  | [], _ :: _ => true
  | _ :: _, [] => false
  | a :: as, b :: bs => if a < b then true else if a > b then false else bytesLt as bs

/-- builtinStringLocaleCompare -/
def localeCompare (E : Env) (r : Recv) (args : List Val) : Res :=
  if !coercible r then .throwType else
  let this := thisString E r
  let that := toStr E (argAt args 0)
  if bytesLt this that then .int (-1) else if this = that then .int 0 else .int 1

/-- unicode.ToLower / unicode.ToUpper (table dumped from the Go toolchain, C09/CaseTables) -/
def goLower (r : Nat) : Nat :=
  match CaseTables.goCase.find? (fun e => e.1 == r) with
  | some (_, l, _) => l
  | none => r
def goUpper (r : Nat) : Nat :=
  match CaseTables.goCase.find? (fun e => e.1 == r) with
  | some (_, _, u) => u
  | none => r

/-- builtinStringToLowerCase: strings.ToLower maps every rune (code point) through unicode.ToLower -/
def toLowerCase (E : Env) (r : Recv) (_args : List Val) : Res :=
  if !coercible r then .throwType else
  .str (U (encodeRunes ((decodeRunes (thisString E r)).map goLower)))

/-- builtinStringToUpperCase -/
def toUpperCase (E : Env) (r : Recv) (_args : List Val) : Res :=
  if !coercible r then .throwType else
  .str (U (encodeRunes ((decodeRunes (thisString E r)).map goUpper)))

/-! ## The own properties of a String object (type_string.go newStringObject / stringGetOwnProperty /
     stringEnumerate, object_class.go objectHasOwnProperty / objectCanPut / objectPut / objectDefineOwnProperty,
     builtin_object.go hasOwnProperty / propertyIsEnumerable / getOwnPropertyDescriptor / keys / getOwnPropertyNames) -/

def sLength : List Nat := [108, 101, 110, 103, 116, 104]

/-- a String object: its value and the names in its plain property map, in insertion order
    (newStringObject defines "length" first, mode 0; expandos are written with mode 0111) -/
structure SObj where
  s : List Nat
  props : List (List Nat)
deriving DecidableEq, Repr

def SObj.new (s : List Nat) : SObj := ⟨s, [sLength]⟩

/-- the computed index property of stringGetOwnProperty: the code unit, if `name` is an array index below the length -/
def SObj.indexUnit (o : SObj) (name : List Nat) : Option Nat :=
  let idx := stringToArrayIndex name
  if idx ≥ 0 then stringAt o.s idx else none

/-- stringGetOwnProperty ≠ nil: the plain map first, then the computed index properties -/
def SObj.getOwn (o : SObj) (name : List Nat) : Bool :=
  o.props.contains name || (o.indexUnit name).isSome

/-- `o[name] = v` (objectPut after objectCanPut): "length" and the index properties are not writable, so the
    assignment is dropped; an existing expando is overwritten; any other name (assumed absent from the
    prototype chain) is added at the end of the map -/
def SObj.put (o : SObj) (name : List Nat) : SObj :=
  if o.getOwn name then o else { o with props := o.props ++ [name] }

def SObj.build (s : List Nat) (exps : List (List Nat)) : SObj := exps.foldl SObj.put (SObj.new s)

/-- objectHasOwnProperty: the virtual getOwnProperty ≠ nil -/
def SObj.hasOwn (o : SObj) (name : List Nat) : Bool := o.getOwn name

/-- objectHasProperty (`in`), for names the prototype chain does not define -/
def SObj.hasProperty (o : SObj) (name : List Nat) : Bool := o.getOwn name

/-- the decimal name of an index -/
def indexNames (n : Nat) : List (List Nat) := (List.range n).map formatNat

/-- stringEnumerate(all): the indices below the length, then objectEnumerate over the plain map
    ("length" is not enumerable, expandos are) -/
def SObj.enumerate (o : SObj) (all : Bool) : List (List Nat) :=
  indexNames (strLength o.s) ++ o.props.filter (fun n => all || n != sLength)

/-- Object.keys -/
def SObj.keys (o : SObj) : List (List Nat) := o.enumerate false
/-- Object.getOwnPropertyNames: enumerate(all) filtered by hasOwnProperty -/
def SObj.ownNames (o : SObj) : List (List Nat) := (o.enumerate true).filter o.hasOwn

/-- Object.getOwnPropertyDescriptor as (value, [writable, enumerable, configurable]); expandos hold the value 1.
    Results: `.arr [value units, [w,e,c]]` for a string value, `.arr [[n], [w,e,c], []]` for the number n -/
def SObj.desc (o : SObj) (name : List Nat) : Res :=
  if o.props.contains name then
    if name = sLength then .arr [[strLength o.s], [0, 0, 0], []] else .arr [[1], [1, 1, 1], []]
  else match o.indexUnit name with
    | some chr => .arr [U (encodeRune chr), [0, 1, 0]]          -- &property{stringValue(string(chr)), 0o010}: enumerable only
    | none => .undef

/-- propertyIsEnumerable -/
def SObj.isEnumerable (o : SObj) (name : List Nat) : Bool :=
  if o.props.contains name then name != sLength else (o.indexUnit name).isSome   -- index properties are enumerable

/-- Object.defineProperty(o, name, {value: "x"}) then o[name].  stringDefineOwnProperty (type_string.go): a name
    that is not stored but is a computed index property accepts only a descriptor that changes nothing
    (here: the same one-unit value), else TypeError; every other name goes to objectDefineOwnProperty -/
def SObj.defineX (o : SObj) (name : List Nat) : Res :=
  if o.props.contains name then
    if name = sLength then .throwType else .str [120]
  else match o.indexUnit name with
    | some chr => if U (encodeRune chr) = [120] then .str [120] else .throwType   -- sameValue(string(chr), "x")
    | none => .str [120]

/-- "zzz": what the harness's replacement `String.prototype.toString = function(){return "zzz"}` returns -/
def sZZZ : List Nat := [122, 122, 122]

/-- the `this` of a method call `r.m(…)` (cmpl_evaluate_expression.go call expression, since fix fc1155e): the
    property reference remembers a primitive base and the call passes it as it is (propertyReference.thisValue);
    the wrapper made by objectCoerce is used only to look the method up.  `none` = TypeError (undefined / null base) -/
def memberCallThis : Recv → Option Recv
  | .val .undef => none
  | .val .null => none
  | r => some r

/-- the same when String.prototype.toString has been replaced by a function returning `t`: a primitive receiver is
    untouched (`call.This.string()` of a string value calls nothing); a String OBJECT receiver is converted by
    DefaultValue(String), i.e. by the replaced toString -/
def memberThisOverridden (t : List Nat) : Recv → Option Recv
  | .strObj _ => some (.obj t)
  | r => memberCallThis r

/-- the string a receiver of these observers wraps -/
def recvString (E : Env) : Recv → List Nat := thisString E

/-! ## Order of conversions.  Operands (receiver and arguments) may be objects whose valueOf and toString are one
     scripted function: every call is logged and returns the next scripted primitive or throws.  A method is a
     PLAN: which operand is converted next, given the conversions done so far, and how the result is computed
     from the converted primitives.  Model plans follow the Go statement order, Spec plans the ES5 step order. -/

inductive Outcome where
  | ret (v : Val)
  | throw
  | retObj                         -- the method returns an object (not a primitive): DefaultValue goes on
deriving DecidableEq, Repr, Inhabited

/-- one of the two conversion methods of a scripted object -/
inductive MethodScript where
  | absent                          -- not defined on the object: Object.prototype's applies
  | notCallable                     -- defined, but not a function
  | outs (os : List Outcome)        -- a function: logs the call, its k-th call yields os[k] (the last one repeats)
deriving DecidableEq, Repr, Inhabited

inductive Operand where
  | prim (v : Val)
  | obj (outs : List Outcome)       -- valueOf and toString are ONE scripted function
  | dual (vo ts : MethodScript)     -- distinct valueOf and toString
deriving DecidableEq, Repr, Inhabited

/-- operand 0 is the receiver, operand k+1 is argument k -/
structure Run where
  recv : Operand
  args : List Operand
deriving Repr

def Run.operand (r : Run) (who : Nat) : Operand :=
  match who with
  | 0 => r.recv
  | k + 1 => r.args.getD k (.prim .undef)

/-- the conversions performed so far, oldest first: (operand, primitive obtained) -/
abbrev Done := List (Nat × Val)

/-- the call log: (operand, method) with method 0 = the single function of an `obj` operand, 1 = valueOf, 2 = toString -/
abbrev Log := List (Nat × Nat)

def Operand.isObj : Operand → Bool | .prim _ => false | _ => true
/-- Value.IsUndefined on the raw operand -/
def Operand.isUndef : Operand → Bool | .prim .undef => true | _ => false

/-- the primitive operand `who` stands for after the conversions in `d` (the latest conversion wins; a
    primitive operand stands for itself; an object not yet converted is represented by null) -/
def valueOf (r : Run) (d : Done) (who : Nat) : Val :=
  match r.operand who with
  | .prim v => v
  | _ => match (d.reverse.find? (fun e => e.1 == who)) with
    | some e => e.2
    | none => .null

/-- the preferred type of a conversion: Value.string() uses DefaultValue(hint String), Value.number() / float64()
    DefaultValue(hint Number) (value_string.go:104, value_number.go:102); ES5 ToString / ToNumber (§9.8, §9.3) -/
inductive Hint | str | num
deriving DecidableEq, Repr

/-- "[object Object]" -/
def sObjectObject : List Nat := [91, 111, 98, 106, 101, 99, 116, 32, 79, 98, 106, 101, 99, 116, 93]

/-- the outcome of one method of DefaultValue: a primitive ends the conversion, `none` means "go on" -/
inductive Step where
  | prim (v : Val)
  | goOn
  | threw
deriving DecidableEq, Repr

/-- call one conversion method (code 1 = valueOf, 2 = toString; 0 = the shared function of an `obj` operand) -/
def callMethod (who code : Nat) (ms : MethodScript) (log : Log) : Log × Step :=
  match ms with
  | .absent => (log, if code = 2 then .prim (.str sObjectObject) else .goOn)   -- Object.prototype.toString / valueOf
  | .notCallable => (log, .goOn)
  | .outs os =>
    let k := (log.filter (fun e => e == (who, code))).length
    let log := log ++ [(who, code)]
    match os.getD (min k (os.length - 1)) .throw with
    | .ret v => (log, .prim v)
    | .throw => (log, .threw)
    | .retObj => (log, .goOn)

/-- object.go:70 DefaultValue = ES5 §8.12.8 [[DefaultValue]]: hint String tries toString then valueOf, hint Number
    valueOf then toString; a callable method returning a primitive ends it; otherwise TypeError.
    Result: the log and `some (primitive)` / `none` with the Res of the failure -/
def defaultValue (who : Nat) (o : Operand) (h : Hint) (log : Log) : Log × (Val ⊕ Res) :=
  let (first, second) : (Nat × MethodScript) × (Nat × MethodScript) :=
    match o with
    | .dual vo ts => (match h with | .str => ((2, ts), (1, vo)) | .num => ((1, vo), (2, ts)))
    | .obj os => ((0, .outs os), (0, .outs os))
    | .prim _ => ((0, .absent), (0, .absent))
  match callMethod who first.1 first.2 log with
  | (log, .prim v) => (log, .inl v)
  | (log, .threw) => (log, .inr .throwScript)
  | (log, .goOn) =>
    match callMethod who second.1 second.2 log with
    | (log, .prim v) => (log, .inl v)
    | (log, .threw) => (log, .inr .throwScript)
    | (log, .goOn) => (log, .inr .throwType)

structure Plan where
  next : Run → Done → Option Nat          -- the operand converted next, `none` when the method is ready to finish
  hint : Nat → Hint                       -- the conversion applied to operand `who`
  finish : Run → Done → Res

/-- run a plan: log of conversion-method calls of the OBJECT operands, in call order, and the result -/
def exec (p : Plan) (r : Run) : Nat → Done → Log → Log × Res
  | 0, d, log => (log, p.finish r d)
  | fuel + 1, d, log =>
    match p.next r d with
    | none => (log, p.finish r d)
    | some who =>
      match r.operand who with
      | .prim v => exec p r fuel (d ++ [(who, v)]) log
      | o =>
        match defaultValue who o (p.hint who) log with
        | (log, .inl v) => exec p r fuel (d ++ [(who, v)]) log
        | (log, .inr res) => (log, res)

def Plan.run (p : Plan) (r : Run) : Log × Res := exec p r (2 * r.args.length + 4) [] []

/-- has operand `who` been converted? -/
def did (d : Done) (who : Nat) : Bool := d.any (fun e => e.1 == who)

/-- the receiver and argument list the pure method functions see after the conversions -/
def recvOf (E : Env) (r : Run) (d : Done) : Recv :=
  match r.recv with
  | .prim v => .val v
  | _ => .obj (toStr E (valueOf r d 0))
def argsOf (r : Run) (d : Done) : List Val := (List.range r.args.length).map fun k => valueOf r d (k + 1)

/-- convert the listed operands in this order, each once, skipping those the predicate excludes -/
def inOrder (order : List Nat) (d : Done) : Option Nat := order.find? (fun who => !did d who)

/-- the receiver is usable: not undefined / null (checkObjectCoercible precedes every conversion) -/
def recvOK (r : Run) : Bool := match r.recv with | .prim .undef => false | .prim .null => false | _ => true

/-- is argument k supplied and, as a raw value, not undefined? -/
def present (r : Run) (k : Nat) : Bool := decide (k < r.args.length) && !(r.operand (k + 1)).isUndef

/-- strings.Index based String.prototype.replace for a string search value and a `$`-free string replacement
    (builtin_string.go builtinStringReplace: regexp.QuoteMeta(search), first match only) -/
def replaceStr (target search repl : List Nat) : List Nat :=
  match indexBytes target search with
  | none => target
  | some i => target.take i ++ repl ++ target.drop (i + search.length)

def replace (E : Env) (r : Recv) (args : List Val) : Res :=
  if !coercible r then .throwType else
  .str (U (replaceStr (thisString E r) (toStr E (argAt args 0)) (toStr E (argAt args 1))))

/-- the pure function behind each method name -/
def pureMethod (m : String) : Option (Env → Recv → List Val → Res) :=
  match m with
  | "charAt" => some charAt | "charCodeAt" => some charCodeAt | "concat" => some concat
  | "indexOf" => some indexOf | "lastIndexOf" => some lastIndexOf | "slice" => some slice
  | "substring" => some substring | "substr" => some substr | "split" => some split
  | "trim" => some trim | "localeCompare" => some localeCompare | "toLowerCase" => some toLowerCase
  | "toUpperCase" => some toUpperCase | "replace" => some replace
  | _ => none

/-- the order in which the Go code converts its operands (statement order of each builtin) -/
def goOrder (E : Env) (m : String) (r : Run) (d : Done) : Option Nat :=
  if !recvOK r && m != "substr" then none else      -- substr (Annex B.2.3) has no coercibility check
  let all := List.range (r.args.length + 1)
  match m with
  | "charAt" | "charCodeAt" => inOrder [0, 1] d                 -- value := This.string(), then Argument(0).number()
  | "concat" => inOrder all d
  | "indexOf" => inOrder ([0, 1] ++ (if r.args.length ≥ 2 then [2] else [])) d
  | "lastIndexOf" =>
    -- `start := ArgumentList[1].number()` precedes the `length == 0` shortcut
    inOrder ([0, 1] ++ (if present r 1 then [2] else [])) d
  | "localeCompare" => inOrder [0, 1] d
  | "slice" | "substring" | "substr" =>
    inOrder ([0, 1] ++ (if r.args.length ≠ 1 ∧ present r 1 then [2] else [])) d
  | "split" =>
    -- target, then the limit (if defined), then the separator (also on the `limit == 0` path) unless undefined
    inOrder ([0] ++ (if present r 1 then [2] else []) ++ (if present r 0 then [1] else [])) d
  | "replace" =>
    -- target, searchValue, then replaceValue.string() up front (not callable), then the search
    let _ := E; inOrder [0, 1, 2] d
  | _ => inOrder [0] d

/-- which conversion the Go code applies to each operand: `.string()` (hint String) for the receiver, for search
    strings, separators, replacement and concat arguments; `.number()` / `toIntegerFloat` / `toUint32` (hint Number)
    for positions, lengths and the split limit -/
def goHint (m : String) (who : Nat) : Hint :=
  if who = 0 then .str else
  match m with
  | "charAt" | "charCodeAt" | "slice" | "substring" | "substr" => .num
  | "indexOf" | "lastIndexOf" | "split" => if who = 1 then .str else .num
  | _ => .str                                    -- concat (every argument), localeCompare, replace

def goPlan (E : Env) (m : String) : Plan where
  next := goOrder E m
  hint := goHint m
  finish := fun r d => match pureMethod m with
    | some f => f E (recvOf E r d) (argsOf r d)
    | none => .undef

end OttoVerif.C09
