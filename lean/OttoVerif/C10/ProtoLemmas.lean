/-
  C10/ProtoLemmas — the exec / test / lastIndex protocol over abstract engines:
  otto's execRegExp (byte offsets, engine run on the suffix target[index:]) against §15.10.6.2.
-/
import OttoVerif.C10.Model
import OttoVerif.C10.Spec
namespace OttoVerif.C10.Lem
open OttoVerif OttoVerif.C10

def ascii (bs : List Nat) : Prop := ∀ b ∈ bs, b < 128

theorem decodeRunesAux_ascii : ∀ (bs : List Nat) (fuel : Nat), ascii bs → bs.length ≤ fuel → Str.decodeRunesAux fuel bs = bs := by
  intro bs; induction bs with
  | nil => intro fuel _ _; cases fuel <;> simp [Str.decodeRunesAux, Str.decodeRune]
  | cons b bs ih =>
    intro fuel ha hl
    cases fuel with
    | zero => simp at hl
    | succ f =>
      have hb : b < 128 := ha b (by simp)
      simp only [Str.decodeRunesAux, Str.decodeRune, if_pos hb, List.drop_one, List.tail_cons]
      rw [ih f (fun x hx => ha x (by simp [hx])) (by simpa using hl)]

theorem utf16Encode_ascii : ∀ (rs : List Nat), ascii rs → Str.utf16Encode rs = rs := by
  intro rs; induction rs with
  | nil => intro _; rfl
  | cons r rs ih =>
    intro ha
    have hr : r < 128 := ha r (by simp)
    have := ih (fun x hx => ha x (by simp [hx]))
    simp only [Str.utf16Encode, List.flatMap_cons] at this ⊢
    rw [this]
    rw [if_neg (by omega), if_pos (by omega)]
    rfl

theorem unitsOfBytes_ascii (bs : List Nat) (h : ascii bs) : Str.unitsOfBytes bs = bs := by
  unfold Str.unitsOfBytes Str.decodeRunes
  rw [decodeRunesAux_ascii bs _ h (Nat.le_refl _), utf16Encode_ascii bs h]

theorem ascii_slice (bs : List Nat) (h : ascii bs) (a b : Nat) : ascii (slice bs a b) := by
  intro x hx
  exact h x (List.mem_of_mem_take (List.mem_of_mem_drop hx))

theorem ascii_take (bs : List Nat) (h : ascii bs) (a : Nat) : ascii (bs.take a) :=
  fun x hx => h x (List.mem_of_mem_take hx)
theorem ascii_drop (bs : List Nat) (h : ascii bs) (a : Nat) : ascii (bs.drop a) :=
  fun x hx => h x (List.mem_of_mem_drop hx)

/-- what ties otto's engine call to the ES5 matcher on one subject: the subject is ASCII (bytes =
    code units), and running the engine on the suffix `t[i:]` is the ES5 search from `i`
    (same matcher AND no dependence on the text left of `i`) -/
structure Link (E : Model.Eng) (S : Spec.SEng) (t : List Nat) : Prop where
  asc : ascii t
  small : (t.length : Int) < Model.maxInt64
  find : ∀ i, i ≤ t.length → (E.findAt (t.drop i) 0).map (shiftCaps i) = Spec.searchFrom S t i
  wf : ∀ i r, i ≤ t.length → E.findAt (t.drop i) 0 = some r → ∃ a b rest, r = some (a, b) :: rest ∧ a + i ≤ t.length ∧ b + i ≤ t.length

theorem capEnd_shift (i a b : Nat) (rest : Caps) : capEnd (shiftCaps i (some (a, b) :: rest)) = b + i := by
  simp [capEnd, shiftCaps]
theorem capStart_shift (i a b : Nat) (rest : Caps) : capStart (shiftCaps i (some (a, b) :: rest)) = a + i := by
  simp [capStart, shiftCaps]

/-- the in-range start index computed from (global, integer lastIndex): none = fail at once -/
def startIndex (len : Nat) (g : Bool) (z : Int) : Option Nat :=
  if !g then some 0 else if z < 0 ∨ z > len then none else some z.toNat

theorem byteOffLoop_ascii : ∀ (bs : List Nat) (f off count units : Nat), ascii bs → bs.length < f → count ≤ units →
    Model.byteOffLoop f bs off count units =
      (if units - count ≤ bs.length then (off + (units - count), true) else (off + bs.length, false)) := by
  intro bs; induction bs with
  | nil =>
    intro f off count units _ hf hc
    cases f with
    | zero => simp at hf
    | succ f =>
      simp only [Model.byteOffLoop, Str.decodeRune, List.length_nil]
      by_cases h : units - count ≤ 0
      · have : count ≥ units := by omega
        simp [this]
      · have : ¬ count ≥ units := by omega
        simp [h, this]
  | cons b bs ih =>
    intro f off count units ha hf hc
    cases f with
    | zero => simp at hf
    | succ f =>
      have hb : b < 128 := ha b (by simp)
      simp only [Model.byteOffLoop, Str.decodeRune, if_pos hb, List.drop_one, List.tail_cons]
      by_cases h : count ≥ units
      · have : units - count = 0 := by omega
        simp [h, this]
      · rw [if_neg h]
        have hr : ¬ b > 0xFFFF := by omega
        rw [if_neg hr]
        rw [ih f (off + 1) (count + 1) units (fun x hx => ha x (by simp [hx])) (by simp at hf; omega) (by omega)]
        simp only [List.length_cons]
        by_cases h2 : units - (count + 1) ≤ bs.length
        · have : units - count ≤ bs.length + 1 := by omega
          simp only [h2, this, if_true]
          congr 1; omega
        · have : ¬ units - count ≤ bs.length + 1 := by omega
          simp only [h2, this, if_false]
          congr 1; omega

theorem byteOffset_ascii (t : List Nat) (ha : ascii t) (z : Int) :
    Model.utf16ByteOffset t z = if z < 0 then (0, false) else if z.toNat ≤ t.length then (z.toNat, true) else (t.length, false) := by
  unfold Model.utf16ByteOffset
  by_cases h : z < 0
  · simp [h]
  · simp only [h, if_false]
    rw [byteOffLoop_ascii t _ 0 0 z.toNat ha (by omega) (by omega)]
    simp

theorem model_at (E : Model.Eng) (rx : RX) (t : List Nat) (ha : ascii t) (z : Int) :
    Model.execAt E rx t z =
      match startIndex t.length rx.global z with
      | none => ({ rx with lastIndex := .int 0 }, none)
      | some i =>
        match E.findAt (t.drop i) 0 with
        | none => ({ rx with lastIndex := .int 0 }, none)
        | some r => (if rx.global then { rx with lastIndex := .int (Model.utf16Length (t.take (capEnd (shiftCaps i r)))) } else rx,
                     some (shiftCaps i r)) := by
  obtain ⟨g, li⟩ := rx
  unfold Model.execAt
  simp only [byteOffset_ascii t ha]
  cases g with
  | false =>
    simp [startIndex]
    cases E.findAt t 0 <;> rfl
  | true =>
    simp only [startIndex, if_true, Bool.not_true, Bool.false_eq_true, if_false]
    by_cases hz : z < 0 ∨ z > (t.length : Int)
    · rw [if_pos hz]
      by_cases h : z < 0
      · simp [h]
      · have h2 : ¬ z.toNat ≤ t.length := by omega
        simp [h, h2]
    · rw [if_neg hz]
      have h : ¬ z < 0 := by omega
      have h2 : z.toNat ≤ t.length := by omega
      simp only [h, h2, if_false, if_true]
      cases hfa : E.findAt (t.drop z.toNat) 0 <;> simp [hfa]

/-- ToInteger(lastIndex) and `number().int64` pick the same start index on strings shorter than 2^63 -/
theorem start_agree (len : Nat) (hs : (len : Int) < Model.maxInt64) (g : Bool) (li : LI) :
    startIndex len g (Model.toInt64 li) =
      (if !g then some 0 else
       match Spec.toInteger li with
       | .fin z => if z < 0 ∨ z > len then none else some z.toNat
       | _ => none) := by
  cases g with
  | false => simp [startIndex]
  | true =>
    cases li with
    | pinf =>
      have h : (Model.maxInt64 < 0 ∨ Model.maxInt64 > (len : Int)) := Or.inr hs
      show (if _ then _ else if Model.toInt64 _ < 0 ∨ Model.toInt64 _ > (len : Int) then none else _) = _
      simp only [Bool.not_true, Bool.false_eq_true, if_false, Spec.toInteger]
      exact if_pos h
    | ninf =>
      have h : (Model.minInt64 < 0 ∨ Model.minInt64 > (len : Int)) := Or.inl (by unfold Model.minInt64; omega)
      show (if _ then _ else if Model.toInt64 _ < 0 ∨ Model.toInt64 _ > (len : Int) then none else _) = _
      simp only [Bool.not_true, Bool.false_eq_true, if_false, Spec.toInteger]
      exact if_pos h
    | _ => simp [startIndex, Model.toInt64, Spec.toInteger]

def specStart (len : Nat) (g : Bool) (li : LI) : Option Nat :=
  if !g then some 0 else
  match Spec.toInteger li with
  | .fin z => if z < 0 ∨ z > len then none else some z.toNat
  | _ => none

theorem specStart_le (len : Nat) (g : Bool) (li : LI) (i : Nat) (h : specStart len g li = some i) : i ≤ len := by
  unfold specStart at h
  cases g with
  | false => simp at h; omega
  | true =>
    simp only [Bool.not_true, Bool.false_eq_true, if_false] at h
    split at h
    · split at h
      · simp at h
      · simp at h; omega
    · simp at h

theorem spec_core (S : Spec.SEng) (rx : RX) (t : List Nat) :
    Spec.execCore S rx t =
      match specStart t.length rx.global rx.lastIndex with
      | none => ({ rx with lastIndex := .int 0 }, none)
      | some i =>
        match Spec.searchFrom S t i with
        | none => ({ rx with lastIndex := .int 0 }, none)
        | some c => (if rx.global then { rx with lastIndex := .int (capEnd c) } else rx, some c) := by
  obtain ⟨g, li⟩ := rx
  cases g with
  | false =>
    have : ¬ ((t.length : Int) < 0) := by omega
    simp [Spec.execCore, specStart, this]
    cases Spec.searchFrom S t 0 <;> rfl
  | true =>
    simp only [Spec.execCore, specStart, if_true, Bool.not_true, Bool.false_eq_true, if_false]
    cases Spec.toInteger li with
    | fin z =>
      by_cases h : z < 0 ∨ z > (t.length : Int)
      · simp [h]
      · simp only [h, if_false]
        cases Spec.searchFrom S t z.toNat <;> rfl
    | pinf => simp
    | ninf => simp

/-- **the core of exec**: on a linked subject otto's execRegExp and §15.10.6.2 compute the same
    new lastIndex and the same capture vector, for every lastIndex value and both values of global -/
theorem exec_core (E : Model.Eng) (S : Spec.SEng) (t : List Nat) (L : Link E S t) (rx : RX) :
    Model.execRegExp E rx t = Spec.execCore S rx t := by
  unfold Model.execRegExp
  rw [model_at _ _ _ L.asc, spec_core, start_agree t.length L.small]
  show (match specStart t.length rx.global rx.lastIndex with | none => _ | some i => _) = _
  cases hi : specStart t.length rx.global rx.lastIndex with
  | none => rfl
  | some i =>
    have hle := specStart_le _ _ _ _ hi
    have hf := L.find i hle
    simp only
    cases hr : E.findAt (t.drop i) 0 with
    | none => rw [hr] at hf; simp at hf; rw [← hf]
    | some r =>
      obtain ⟨a, b, rest, rfl, _, hb⟩ := L.wf i r hle hr
      rw [hr] at hf; simp at hf; rw [← hf]
      simp only [capEnd_shift]
      have : Model.utf16Length (t.take (b + i)) = b + i := by
        unfold Model.utf16Length
        rw [unitsOfBytes_ascii _ (ascii_take t L.asc _)]
        simp; omega
      rw [this]

theorem link_swf (E : Model.Eng) (S : Spec.SEng) (t : List Nat) (L : Link E S t) (i : Nat) (c : Caps)
    (hi : i ≤ t.length) (h : Spec.searchFrom S t i = some c) : capStart c ≤ t.length := by
  have hf := L.find i hi
  rw [h] at hf
  cases hr : E.findAt (t.drop i) 0 with
  | none => rw [hr] at hf; simp at hf
  | some r =>
    obtain ⟨a, b, rest, rfl, hab, _⟩ := L.wf i r hi hr
    rw [hr] at hf; simp at hf; rw [← hf, capStart_shift]; exact hab

theorem execCore_some (S : Spec.SEng) (rx rx' : RX) (t : List Nat) (c : Caps)
    (h : Spec.execCore S rx t = (rx', some c)) : ∃ i, i ≤ t.length ∧ Spec.searchFrom S t i = some c := by
  rw [spec_core] at h
  cases hi : specStart t.length rx.global rx.lastIndex with
  | none => rw [hi] at h; simp at h
  | some i =>
    rw [hi] at h
    simp only at h
    refine ⟨i, specStart_le _ _ _ _ hi, ?_⟩
    cases hs : Spec.searchFrom S t i with
    | none => rw [hs] at h; simp at h
    | some c' => rw [hs] at h; simp at h; rw [h.2]

theorem array_eq (t : List Nat) (ha : ascii t) (c : Caps) (hc : capStart c ≤ t.length) :
    Model.execResultToArray t c = Spec.resultArray t c := by
  unfold Model.execResultToArray Spec.resultArray
  have h1 : (if capStart c ≠ 0 then Model.utf16Length (t.take (capStart c)) else 0) = capStart c := by
    by_cases h0 : capStart c = 0
    · simp [h0]
    · rw [if_pos h0]
      unfold Model.utf16Length
      rw [unitsOfBytes_ascii _ (ascii_take t ha _)]
      simp; omega
  have h2 : (c.map fun o => o.map fun (a, b) => Model.jsStr (slice t a b)) = (c.map fun o => o.map fun (a, b) => slice t a b) := by
    apply List.map_congr_left
    intro o _
    cases o with
    | none => rfl
    | some p => simp [Model.jsStr, unitsOfBytes_ascii _ (ascii_slice t ha p.1 p.2)]
  simp only [h1, h2]

/-- **exec_protocol (one call).**  RegExp.prototype.exec: result array (index, input slice, captures,
    undefined for unmatched groups) and new lastIndex agree with §15.10.6.2 for every lastIndex. -/
theorem exec_eq (E : Model.Eng) (S : Spec.SEng) (t : List Nat) (L : Link E S t) (rx : RX) :
    Model.builtinRegExpExec E rx t = Spec.exec S rx t := by
  unfold Model.builtinRegExpExec Spec.exec
  rw [exec_core E S t L rx]
  cases h : Spec.execCore S rx t with
  | mk rx' o =>
    cases o with
    | none => rfl
    | some c =>
      obtain ⟨i, hi, hs⟩ := execCore_some S rx rx' t c h
      simp only [array_eq t L.asc c (link_swf E S t L i c hi hs)]

theorem test_eq (E : Model.Eng) (S : Spec.SEng) (t : List Nat) (L : Link E S t) (rx : RX) :
    Model.builtinRegExpTest E rx t = Spec.test S rx t := by
  unfold Model.builtinRegExpTest Spec.test
  rw [exec_core E S t L rx]
  cases h : Spec.execCore S rx t with
  | mk rx' o => cases o <;> rfl

/-- the steps whose agreement needs only `Link` -/
def execStep : Step → Bool
  | .exec | .test | .setLI _ => true
  | _ => false

/-- **exec_protocol (histories).**  Any sequence of exec / test calls and lastIndex writes on one
    RegExp object: every result and every intermediate lastIndex agree.  Induction over the calls;
    the state carried along is lastIndex. -/
theorem history_eq (E : Model.Eng) (S : Spec.SEng) (t : List Nat) (L : Link E S t) (repU : List Nat → List Nat) :
    ∀ (steps : List Step) (rx : RX), steps.all execStep = true → Model.run E t rx steps = Spec.run S t repU rx steps := by
  intro steps; induction steps with
  | nil => intro _ _; rfl
  | cons s ss ih =>
    intro rx hall
    simp at hall
    have hstep : Model.step E t rx s = Spec.step S t repU rx s := by
      cases s <;> simp [execStep] at hall
      · exact exec_eq E S t L rx
      · exact test_eq E S t L rx
      · rfl
    simp only [Model.run, Spec.run, hstep]
    rw [ih _ (by simpa using hall.2)]

theorem shiftCaps_zero (c : Caps) : shiftCaps 0 c = c := by
  unfold shiftCaps
  induction c with
  | nil => rfl
  | cons o rest ih =>
    simp only [List.map_cons, ih]
    cases o with
    | none => rfl
    | some p => simp

/-- **search.**  String.prototype.search on a linked subject returns the §15.5.4.12 index and leaves
    the object alone, whatever lastIndex and global are. -/
theorem search_eq (E : Model.Eng) (S : Spec.SEng) (t : List Nat) (L : Link E S t) (rx : RX) :
    Model.builtinStringSearch E rx t = Spec.stringSearch S rx t := by
  unfold Model.builtinStringSearch Spec.stringSearch
  have hf := L.find 0 (Nat.zero_le _)
  simp only [List.drop_zero] at hf
  cases hr : E.findAt t 0 with
  | none => rw [hr] at hf; simp at hf; rw [← hf]
  | some r =>
    obtain ⟨a, b, rest, rfl, hab, _⟩ := L.wf 0 r (Nat.zero_le _) (by simpa using hr)
    rw [hr] at hf; simp [shiftCaps_zero] at hf; rw [← hf]
    have : Model.utf16Length (t.take (capStart (some (a, b) :: rest))) = capStart (some (a, b) :: rest) := by
      unfold Model.utf16Length
      rw [unitsOfBytes_ascii _ (ascii_take t L.asc _)]
      simp [capStart]; omega
    simp only [this]

/-- String.prototype.match with a non-global regexp is exec (§15.5.4.10 step 7) -/
theorem match_nonglobal_eq (E : Model.Eng) (S : Spec.SEng) (t : List Nat) (L : Link E S t) (rx : RX) (hg : rx.global = false) :
    Model.builtinStringMatch E rx t = Spec.stringMatch S rx t := by
  unfold Model.builtinStringMatch Spec.stringMatch
  simp only [hg, Bool.not_false, if_true]
  exact exec_eq E S t L rx

/-! ## String.prototype.replace: the concatenation, and function results used verbatim -/

theorem slice_self (t : List Nat) (a : Nat) : slice t a a = [] := by
  unfold slice
  rw [List.drop_eq_nil_iff]
  simp [List.length_take]; omega

/-- otto's replace loop (copy the gap only when it is non-empty, append the tail only when it is
    non-empty) is the §15.5.4.11 concatenation, for EVERY list of matches and EVERY replacer `f` -/
theorem replaceLoop_eq (t : List Nat) (f : Caps → List Nat) : ∀ (found : List Caps) (li : Nat) (acc : List Nat),
    (let p := Model.replaceLoop t f found li acc
     if p.2 ≠ t.length then p.1 ++ t.drop p.2 else p.1) = Spec.replaceLoop t f found li acc := by
  intro found; induction found with
  | nil =>
    intro li acc
    simp only [Model.replaceLoop, Spec.replaceLoop]
    by_cases h : li = t.length
    · subst h; simp
    · simp [h]
  | cons mt rest ih =>
    intro li acc
    simp only [Model.replaceLoop, Spec.replaceLoop]
    by_cases h : capStart mt = li
    · have := ih (capEnd mt) (acc ++ f mt)
      simp only [h, ne_eq, not_true_eq_false, if_false, slice_self, List.append_nil]
      exact this
    · have := ih (capEnd mt) (acc ++ slice t li (capStart mt) ++ f mt)
      simp only [ne_eq, h, not_false_eq_true, if_true]
      exact this

/-- **a function's result is used verbatim**: with a constant function as replaceValue and a single
    match (a, b), the result is  t[0:a] ++ ret ++ t[b:]  whatever `ret` contains (`$&`, `$1`, `$$` …) -/
theorem replace_const_single (t ret : List Nat) (mt : Caps) :
    (let p := Model.replaceLoop t (fun _ => ret) [mt] 0 []
     if p.2 ≠ t.length then p.1 ++ t.drop p.2 else p.1) = t.take (capStart mt) ++ ret ++ t.drop (capEnd mt) := by
  rw [replaceLoop_eq]
  simp [Spec.replaceLoop, slice]

/-- the per-match replacement text of the three kinds of replaceValue, as the code computes it -/
def modelF (t : List Nat) : Repl → Caps → List Nat
  | .str rv => fun mt => Model.expand t mt rv
  | .report => fun mt => Model.reportArgs (Model.replacerArgs t mt)
  | .const ret => fun _ => ret
  | .types => fun mt => typeReport [115, 116, 114, 105, 110, 103] mt true

/-- String.prototype.replace returns the §15.5.4.11 concatenation over the matches the engine found,
    for every engine, every subject and every replaceValue -/
theorem replace_is_concat (E : Model.Eng) (rx : RX) (t : List Nat) (repl : Repl) :
    (Model.builtinStringReplace E rx t repl).2 =
      .str (Model.jsStr (Spec.replaceLoop t (modelF t repl) (Model.findAll E t (if rx.global then none else some 1)) 0 [])) := by
  unfold Model.builtinStringReplace
  simp only
  cases hf : Model.findAll E t (if rx.global then none else some 1) with
  | nil => simp [Spec.replaceLoop]
  | cons mt rest =>
    simp only [List.isEmpty_cons, Bool.false_eq_true, if_false]
    have := replaceLoop_eq t (modelF t repl) (mt :: rest) 0 []
    simp only at this
    rw [← this]
    cases repl <;> simp only [modelF] <;> split <;> simp_all

/-- the arguments handed to a function replacer (matched text, captures, offset, subject) are those
    of §15.5.4.11 on an ASCII subject – in particular the offset is the code-unit position -/
theorem replacerArgs_eq (t : List Nat) (ha : ascii t) (mt : Caps) (h : capStart mt ≤ t.length) :
    Model.replacerArgs t mt = Spec.replacerArgs t mt := by
  unfold Model.replacerArgs Spec.replacerArgs
  have : Model.utf16Length (t.take (capStart mt)) = capStart mt := by
    unfold Model.utf16Length
    rw [unitsOfBytes_ascii _ (ascii_take t ha _)]
    simp; omega
  rw [this]
  rfl
end OttoVerif.C10.Lem
