/-
  C10/MatchLemmas — facts about the reference matcher: results never move left, non-nullable
  patterns progress, and on the sub-subset `simpleLoops` the ES5 and the Go reading of a tree
  produce the same result lists whenever their atoms have the same denotation on the subject.
-/
import OttoVerif.C10.Match
namespace OttoVerif.C10.Lem
open OttoVerif.C10

theorem stepChar_congr (s : List Nat) (t1 t2 : Nat → Bool) (h : ∀ c ∈ s, t1 c = t2 c) (x : MS) :
    stepChar s t1 x = stepChar s t2 x := by
  unfold stepChar
  cases hc : s[x.pos]? with
  | none => rfl
  | some c => simp only; rw [h c (List.mem_of_getElem? hc)]

theorem stepChar_pos (s : List Nat) (t : Nat → Bool) (x y : MS) (h : y ∈ stepChar s t x) : x.pos < y.pos := by
  unfold stepChar at h
  split at h
  · split at h
    · simp at h; subst h; simp
    · simp at h
  · simp at h

theorem assertIf_pos (b : Bool) (x y : MS) (h : y ∈ assertIf b x) : y.pos = x.pos := by
  unfold assertIf at h; split at h <;> simp at h; subst h; rfl

/-- repLoop results never move left, provided the body never does -/
theorem repLoop_mono (g : Bool) (f : MS → List MS) (hf : ∀ x y, y ∈ f x → x.pos ≤ y.pos) :
    ∀ fuel es5 min max x y, y ∈ repLoop es5 g f fuel min max x → x.pos ≤ y.pos := by
  intro fuel; induction fuel with
  | zero => intro es5 min max x y h; simp [repLoop] at h
  | succ fuel ih =>
    intro es5 min max x y h
    unfold repLoop at h
    split at h
    · simp at h; subst h; exact Nat.le_refl _
    · have hiter : ∀ y, y ∈ ((f x).flatMap fun y =>
          if es5 then (if min = 0 ∧ y.pos = x.pos then [] else repLoop es5 g f fuel (min - 1) (max.map (· - 1)) y)
          else (if max = none ∧ min ≤ 1 ∧ y.pos = x.pos then [y]
                else repLoop (decide (max = none ∧ min ≤ 1)) g f fuel (min - 1) (max.map (· - 1)) y)) → x.pos ≤ y.pos := by
        intro y hy
        rw [List.mem_flatMap] at hy
        obtain ⟨z, hz, hy⟩ := hy
        have hxz := hf x z hz
        cases es5 with
        | true =>
          simp only [if_true] at hy
          split at hy
          · simp at hy
          · exact Nat.le_trans hxz (ih _ _ _ z y hy)
        | false =>
          simp only [Bool.false_eq_true, if_false] at hy
          split at hy
          · simp at hy; subst hy; exact hxz
          · exact Nat.le_trans hxz (ih _ _ _ z y hy)
      simp only at h
      split at h
      · exact hiter y h
      · split at h
        · rw [List.mem_append] at h
          rcases h with h | h
          · exact hiter y h
          · simp at h; subst h; exact Nat.le_refl _
        · rw [List.mem_cons] at h
          rcases h with h | h
          · subst h; exact Nat.le_refl _
          · exact hiter y h

theorem m_mono (d : Dialect) (s : List Nat) : ∀ (r : Re) (gi : Nat) (x y : MS), y ∈ m d s r gi x → x.pos ≤ y.pos := by
  intro r; induction r with
  | empty => intro gi x y h; simp [m] at h; subst h; exact Nat.le_refl _
  | ch sp => intro gi x y h; exact Nat.le_of_lt (stepChar_pos _ _ _ _ h)
  | dot => intro gi x y h; exact Nat.le_of_lt (stepChar_pos _ _ _ _ h)
  | cls k => intro gi x y h; exact Nat.le_of_lt (stepChar_pos _ _ _ _ h)
  | set neg items => intro gi x y h; exact Nat.le_of_lt (stepChar_pos _ _ _ _ h)
  | bol => intro gi x y h; exact Nat.le_of_eq (assertIf_pos _ _ _ h).symm
  | eol => intro gi x y h; exact Nat.le_of_eq (assertIf_pos _ _ _ h).symm
  | wordb => intro gi x y h; exact Nat.le_of_eq (assertIf_pos _ _ _ h).symm
  | nwordb => intro gi x y h; exact Nat.le_of_eq (assertIf_pos _ _ _ h).symm
  | group r ih =>
    intro gi x y h
    simp only [m, List.mem_map] at h
    obtain ⟨z, hz, rfl⟩ := h
    exact ih _ x z hz
  | ncgroup r ih => intro gi x y h; exact ih _ _ _ h
  | seq a b iha ihb =>
    intro gi x y h
    simp only [m, List.mem_flatMap] at h
    obtain ⟨z, hz, hy⟩ := h
    exact Nat.le_trans (iha _ _ _ hz) (ihb _ _ _ hy)
  | alt a b iha ihb =>
    intro gi x y h
    simp only [m, List.mem_append] at h
    rcases h with h | h
    · exact iha _ _ _ h
    · exact ihb _ _ _ h
  | quant r q l ih =>
    intro gi x y h
    simp only [m] at h
    refine repLoop_mono _ _ ?_ _ _ _ _ x y h
    intro x' y' hy'
    have := ih _ _ _ hy'
    split at this <;> exact this
  | look n r _ => intro gi x y h; simp [m] at h
  | backref n => intro gi x y h; simp [m] at h

theorem stepChar_bound (s : List Nat) (t : Nat → Bool) (x y : MS) (h : y ∈ stepChar s t x) : y.pos ≤ s.length := by
  unfold stepChar at h
  split at h
  · rename_i c hc
    split at h
    · simp at h; subst h
      have := (List.getElem?_eq_some_iff.mp hc).1
      simp; omega
    · simp at h
  · simp at h

/-- repLoop keeps every result inside the subject when the body does -/
theorem repLoop_bound (L : Nat) (g : Bool) (f : MS → List MS) (hf : ∀ x y, y ∈ f x → x.pos ≤ L → y.pos ≤ L) :
    ∀ fuel es5 min max x y, y ∈ repLoop es5 g f fuel min max x → x.pos ≤ L → y.pos ≤ L := by
  intro fuel; induction fuel with
  | zero => intro es5 min max x y h; simp [repLoop] at h
  | succ fuel ih =>
    intro es5 min max x y h hx
    unfold repLoop at h
    split at h
    · simp at h; subst h; exact hx
    · have hiter : ∀ y, y ∈ ((f x).flatMap fun y =>
          if es5 then (if min = 0 ∧ y.pos = x.pos then [] else repLoop es5 g f fuel (min - 1) (max.map (· - 1)) y)
          else (if max = none ∧ min ≤ 1 ∧ y.pos = x.pos then [y]
                else repLoop (decide (max = none ∧ min ≤ 1)) g f fuel (min - 1) (max.map (· - 1)) y)) → y.pos ≤ L := by
        intro y hy
        rw [List.mem_flatMap] at hy
        obtain ⟨z, hz, hy⟩ := hy
        have hxz := hf x z hz hx
        cases es5 with
        | true =>
          simp only [if_true] at hy
          split at hy
          · simp at hy
          · exact ih _ _ _ z y hy hxz
        | false =>
          simp only [Bool.false_eq_true, if_false] at hy
          split at hy
          · simp at hy; subst hy; exact hxz
          · exact ih _ _ _ z y hy hxz
      simp only at h
      split at h
      · exact hiter y h
      · split at h
        · rw [List.mem_append] at h
          rcases h with h | h
          · exact hiter y h
          · simp at h; subst h; exact hx
        · rw [List.mem_cons] at h
          rcases h with h | h
          · subst h; exact hx
          · exact hiter y h

theorem m_bound (d : Dialect) (s : List Nat) : ∀ (r : Re) (gi : Nat) (x y : MS), y ∈ m d s r gi x → x.pos ≤ s.length → y.pos ≤ s.length := by
  intro r; induction r with
  | empty => intro gi x y h hx; simp [m] at h; subst h; exact hx
  | ch sp => intro gi x y h _; exact stepChar_bound _ _ _ _ h
  | dot => intro gi x y h _; exact stepChar_bound _ _ _ _ h
  | cls k => intro gi x y h _; exact stepChar_bound _ _ _ _ h
  | set neg items => intro gi x y h _; exact stepChar_bound _ _ _ _ h
  | bol => intro gi x y h hx; rw [assertIf_pos _ _ _ h]; exact hx
  | eol => intro gi x y h hx; rw [assertIf_pos _ _ _ h]; exact hx
  | wordb => intro gi x y h hx; rw [assertIf_pos _ _ _ h]; exact hx
  | nwordb => intro gi x y h hx; rw [assertIf_pos _ _ _ h]; exact hx
  | group r ih =>
    intro gi x y h hx
    simp only [m, List.mem_map] at h
    obtain ⟨z, hz, rfl⟩ := h
    exact ih _ x z hz hx
  | ncgroup r ih => intro gi x y h hx; exact ih _ _ _ h hx
  | seq a b iha ihb =>
    intro gi x y h hx
    simp only [m, List.mem_flatMap] at h
    obtain ⟨z, hz, hy⟩ := h
    exact ihb _ _ _ hy (iha _ _ _ hz hx)
  | alt a b iha ihb =>
    intro gi x y h hx
    simp only [m, List.mem_append] at h
    rcases h with h | h
    · exact iha _ _ _ h hx
    · exact ihb _ _ _ h hx
  | quant r q l ih =>
    intro gi x y h hx
    simp only [m] at h
    refine repLoop_bound s.length _ _ ?_ _ _ _ _ x y h hx
    intro x' y' hy' hx'
    have := ih _ _ _ hy'
    split at this <;> exact this hx'
  | look n r _ => intro gi x y h; simp [m] at h
  | backref n => intro gi x y h; simp [m] at h

/-- with a mandatory first iteration of a progressing body, repLoop progresses -/
theorem repLoop_strict (es5 g : Bool) (f : MS → List MS) (hf : ∀ x y, y ∈ f x → x.pos < y.pos)
    (fuel min : Nat) (max : Option Nat) (x y : MS) (hmin : min ≠ 0) (hmax : max ≠ some 0)
    (h : y ∈ repLoop es5 g f fuel min max x) : x.pos < y.pos := by
  cases fuel with
  | zero => simp [repLoop] at h
  | succ fuel =>
    unfold repLoop at h
    rw [if_neg hmax] at h
    simp only at h
    rw [if_pos hmin] at h
    rw [List.mem_flatMap] at h
    obtain ⟨z, hz, hy⟩ := h
    have hxz := hf x z hz
    have mono := repLoop_mono g f (fun a b hb => Nat.le_of_lt (hf a b hb))
    cases es5 with
    | true =>
      simp only [if_true] at hy
      split at hy
      · simp at hy
      · exact Nat.lt_of_lt_of_le hxz (mono _ _ _ _ z y hy)
    | false =>
      simp only [Bool.false_eq_true, if_false] at hy
      split at hy
      · simp at hy; subst hy; exact hxz
      · exact Nat.lt_of_lt_of_le hxz (mono _ _ _ _ z y hy)

theorem m_strict (d : Dialect) (s : List Nat) : ∀ (r : Re), nullable r = false → ∀ (gi : Nat) (x y : MS), y ∈ m d s r gi x → x.pos < y.pos := by
  intro r; induction r with
  | ch sp => intro _ gi x y h; exact stepChar_pos _ _ _ _ h
  | dot => intro _ gi x y h; exact stepChar_pos _ _ _ _ h
  | cls k => intro _ gi x y h; exact stepChar_pos _ _ _ _ h
  | set neg items => intro _ gi x y h; exact stepChar_pos _ _ _ _ h
  | group r ih =>
    intro hn gi x y h
    simp only [m, List.mem_map] at h
    obtain ⟨z, hz, rfl⟩ := h
    exact ih (by simpa [nullable] using hn) _ x z hz
  | ncgroup r ih => intro hn gi x y h; exact ih (by simpa [nullable] using hn) _ _ _ h
  | seq a b iha ihb =>
    intro hn gi x y h
    simp only [m, List.mem_flatMap] at h
    obtain ⟨z, hz, hy⟩ := h
    simp only [nullable, Bool.and_eq_false_iff] at hn
    rcases hn with hn | hn
    · exact Nat.lt_of_lt_of_le (iha hn _ _ _ hz) (m_mono d s b _ _ _ hy)
    · exact Nat.lt_of_le_of_lt (m_mono d s a _ _ _ hz) (ihb hn _ _ _ hy)
  | alt a b iha ihb =>
    intro hn gi x y h
    simp only [nullable, Bool.or_eq_false_iff] at hn
    simp only [m, List.mem_append] at h
    rcases h with h | h
    · exact iha hn.1 _ _ _ h
    · exact ihb hn.2 _ _ _ h
  | quant r q l ih =>
    intro hn gi x y h
    simp only [nullable, Bool.or_eq_false_iff, beq_eq_false_iff_ne] at hn
    simp only [m] at h
    refine repLoop_strict _ _ _ ?_ _ _ _ x y hn.1.1 hn.1.2 h
    intro x' y' hy'
    have := ih hn.2 _ _ _ hy'
    split at this <;> exact this
  | look n r _ => intro _ gi x y h; simp [m] at h
  | backref n => intro _ gi x y h; simp [m] at h
  | _ => intro hn; simp [nullable] at hn

theorem flatMap_congr' {α β : Type} (l : List α) (f g : α → List β) (h : ∀ a ∈ l, f a = g a) : l.flatMap f = l.flatMap g := by
  induction l with
  | nil => rfl
  | cons a l ih =>
    simp only [List.flatMap_cons]
    rw [h a (by simp), ih (fun b hb => h b (by simp [hb]))]

theorem resetCaps_zero (cs : List (Option (Nat × Nat))) (gi : Nat) : resetCaps cs gi 0 = cs := rfl

/-- when the body always progresses, the ES5 and the Go repetition rules coincide -/
theorem repLoop_dialect (g : Bool) (f : MS → List MS) (hf : ∀ x y, y ∈ f x → x.pos < y.pos) :
    ∀ fuel min max x, repLoop true g f fuel min max x = repLoop false g f fuel min max x := by
  intro fuel; induction fuel with
  | zero => intro min max x; rfl
  | succ fuel ih =>
    intro min max x
    unfold repLoop
    split
    · rfl
    · have : ((f x).flatMap fun y =>
          if true = true then (if min = 0 ∧ y.pos = x.pos then [] else repLoop true g f fuel (min - 1) (max.map (· - 1)) y)
          else (if max = none ∧ min ≤ 1 ∧ y.pos = x.pos then [y]
                else repLoop (decide (max = none ∧ min ≤ 1)) g f fuel (min - 1) (max.map (· - 1)) y))
        = ((f x).flatMap fun y =>
          if false = true then (if min = 0 ∧ y.pos = x.pos then [] else repLoop false g f fuel (min - 1) (max.map (· - 1)) y)
          else (if max = none ∧ min ≤ 1 ∧ y.pos = x.pos then [y]
                else repLoop (decide (max = none ∧ min ≤ 1)) g f fuel (min - 1) (max.map (· - 1)) y)) := by
        apply flatMap_congr'
        intro y hy
        have hp := hf x y hy
        have h1 : ¬ (min = 0 ∧ y.pos = x.pos) := by omega
        have h2 : ¬ (max = none ∧ min ≤ 1 ∧ y.pos = x.pos) := by intro h; omega
        simp only [if_true, Bool.false_eq_true, if_false, h1, h2]
        cases hb : decide (max = none ∧ min ≤ 1) with
        | true => rfl
        | false => exact ih _ _ y
      simp only at this ⊢
      rw [this]

/-- the two dialects give every atom of `r` the same denotation on the characters (and positions)
    of the subject `s` -/
def agree (i mm : Bool) (s : List Nat) : Re → Prop
  | .ch sp => ∀ c ∈ s, charIn (dE i mm) (chTest sp) c = charIn (dG i mm) (chTest sp) c
  | .dot => ∀ c ∈ s, dotTest (dE i mm) c = dotTest (dG i mm) c
  | .cls k => ∀ c ∈ s, clsTestI (dE i mm) k c = clsTestI (dG i mm) k c
  | .set _ items => ∀ c ∈ s, itemsTest (dE i mm) items c = itemsTest (dG i mm) items c
  | .bol => ∀ p, atBol (dE i mm) s p = atBol (dG i mm) s p
  | .eol => ∀ p, atEol (dE i mm) s p = atEol (dG i mm) s p
  | .group r | .ncgroup r | .quant r _ _ | .look _ r => agree i mm s r
  | .seq a b | .alt a b => agree i mm s a ∧ agree i mm s b
  | _ => True

theorem match_preserved (i mm : Bool) (s : List Nat) : ∀ (r : Re), r.simpleLoops = true → agree i mm s r →
    ∀ (gi : Nat) (x : MS), m (dE i mm) s r gi x = m (dG i mm) s r gi x := by
  intro r; induction r with
  | empty => intro _ _ gi x; rfl
  | ch sp => intro _ ha gi x; exact stepChar_congr s _ _ ha x
  | dot => intro _ ha gi x; exact stepChar_congr s _ _ ha x
  | cls k => intro _ ha gi x; exact stepChar_congr s _ _ ha x
  | set neg items =>
    intro _ ha gi x
    exact stepChar_congr s _ _ (fun c hc => by simp only [ha c hc]) x
  | bol => intro _ ha gi x; simp only [m, ha x.pos]
  | eol => intro _ ha gi x; simp only [m, ha x.pos]
  | wordb => intro _ _ gi x; rfl
  | nwordb => intro _ _ gi x; rfl
  | group r ih => intro hs ha gi x; simp only [m, ih (by simpa [Re.simpleLoops] using hs) ha]
  | ncgroup r ih => intro hs ha gi x; simp only [m, ih (by simpa [Re.simpleLoops] using hs) ha]
  | seq a b iha ihb =>
    intro hs ha gi x
    simp [Re.simpleLoops] at hs
    simp only [m, iha hs.1 ha.1, ihb hs.2 ha.2]
  | alt a b iha ihb =>
    intro hs ha gi x
    simp [Re.simpleLoops] at hs
    simp only [m, iha hs.1 ha.1, ihb hs.2 ha.2]
  | quant r q l ih =>
    intro hs ha gi x
    simp [Re.simpleLoops] at hs
    obtain ⟨⟨hnull, hng⟩, hsl⟩ := hs
    have hf : (fun x : MS => m (dE i mm) s r gi (if (dE i mm).es5 then { x with caps := resetCaps x.caps gi r.ngroups } else x))
        = (fun x : MS => m (dG i mm) s r gi (if (dG i mm).es5 then { x with caps := resetCaps x.caps gi r.ngroups } else x)) := by
      funext x
      simp only [dE, dG, if_true, Bool.false_eq_true, if_false, hng, resetCaps_zero]
      exact ih hsl ha gi x
    simp only [m]
    rw [hf]
    simp only [dE, dG]
    apply repLoop_dialect
    intro x' y' hy'
    simp only [Bool.false_eq_true, if_false] at hy'
    exact m_strict _ s r hnull gi x' y' hy'
  | look n r _ => intro _ _ gi x; rfl
  | backref n => intro _ _ gi x; rfl
/-- a character on which the two dialects cannot disagree (without the i flag):
    not `\r`, U+2028/9, and none of the ES5-only white space characters -/
def plainChar (c : Nat) : Prop :=
  ¬ (c = 13 ∨ c = 0x2028 ∨ c = 0x2029 ∨ c = 11 ∨ c = 0xA0 ∨ c = 0x1680 ∨ c = 0x180E ∨ (0x2000 ≤ c ∧ c ≤ 0x200A) ∨
     c = 0x202F ∨ c = 0x205F ∨ c = 0x3000 ∨ c = 0xFEFF)

theorem lineTerm_plain (mm : Bool) (c : Nat) (h : plainChar c) : isLineTerm (dE false mm) c = isLineTerm (dG false mm) c := by
  simp only [isLineTerm, dE, dG, isLineTermES5, if_true, Bool.false_eq_true, if_false]
  rw [Bool.eq_iff_iff]; simp only [decide_eq_true_eq]; unfold plainChar at h; omega

theorem cls_plain (mm : Bool) (k : ClsK) (c : Nat) (h : plainChar c) : clsTest (dE false mm) k c = clsTest (dG false mm) k c := by
  have hs : isSpaceES5 c = isSpaceGo c := by
    simp only [isSpaceES5, isSpaceGo]
    rw [Bool.eq_iff_iff]; simp only [decide_eq_true_eq]; unfold plainChar at h; omega
  cases k <;> simp [clsTest, dE, dG, hs]

theorem item_plain (mm : Bool) (it : CItem) (c : Nat) (h : plainChar c) :
    it.testI (dE false mm) c = it.testI (dG false mm) c := by
  cases it with
  | range a b => simp [CItem.testI, charIn, dE, dG, CItem.test]
  | one a =>
    cases a with
    | cls k => simp only [CItem.testI, clsTestI, dE, dG, Bool.not_false, if_true]; exact cls_plain mm k c h
    | ch sp => simp [CItem.testI, charIn, dE, dG, CItem.test, CAtom.test]
    | bs => simp [CItem.testI, charIn, dE, dG, CItem.test, CAtom.test]

theorem items_plain (mm : Bool) (c : Nat) (h : plainChar c) : ∀ items : List CItem,
    itemsTest (dE false mm) items c = itemsTest (dG false mm) items c := by
  intro items; induction items with
  | nil => rfl
  | cons it rest ih => simp only [itemsTest, item_plain mm it c h, ih]

theorem getElem?_mem' (s : List Nat) (p c : Nat) (h : s[p]? = some c) : c ∈ s := List.mem_of_getElem? h

/-- without the i flag, on a subject of plain characters, every atom of every pattern has the same
    denotation in both dialects -/
theorem agree_plain (mm : Bool) (s : List Nat) (hs : ∀ c ∈ s, plainChar c) : ∀ r : Re, agree false mm s r := by
  intro r; induction r with
  | ch sp => intro c _; simp [charIn, dE, dG]
  | dot => intro c hc; simp only [dotTest, lineTerm_plain mm c (hs c hc)]
  | cls k => intro c hc; simp only [clsTestI, dE, dG, Bool.not_false, if_true]; exact cls_plain mm k c (hs c hc)
  | set neg items => intro c hc; exact items_plain mm c (hs c hc) items
  | bol =>
    intro p
    simp only [atBol]
    cases hp : s[p - 1]? with
    | none => simp [dE, dG]
    | some c => simp only [lineTerm_plain mm c (hs c (List.mem_of_getElem? hp))]; simp [dE, dG]
  | eol =>
    intro p
    simp only [atEol]
    cases hp : s[p]? with
    | none => simp [dE, dG]
    | some c => simp only [lineTerm_plain mm c (hs c (List.mem_of_getElem? hp))]; simp [dE, dG]
  | group r ih => exact ih
  | ncgroup r ih => exact ih
  | quant r q l ih => exact ih
  | look n r ih => exact ih
  | seq a b iha ihb => exact ⟨iha, ihb⟩
  | alt a b iha ihb => exact ⟨iha, ihb⟩
  | _ => trivial
end OttoVerif.C10.Lem
