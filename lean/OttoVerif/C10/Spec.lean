/-
  C10/Spec — the ES5 matching protocol, written from the standard:

    RegExp.prototype.exec   §15.10.6.2      RegExp.prototype.test   §15.10.6.3
    String.prototype.match  §15.5.4.10      String.prototype.replace §15.5.4.11 (Table 22)
    String.prototype.search §15.5.4.12      String.prototype.split  §15.5.4.14
    new RegExp(P, F) flags  §15.10.4.1

  Strings are lists of UTF-16 code units; all offsets are code-unit offsets.  The matcher is the
  abstract [[Match]](S, q) of §15.10.2.2: `matchAt S q` = failure or the capture vector of the
  match that starts exactly at q (element 0 = (q, endIndex)).  Core-only.
-/
import OttoVerif.C10.Proto
namespace OttoVerif.C10.Spec
open OttoVerif.C10

structure SEng where
  matchAt : List Nat → Nat → Option Caps

inductive ExtInt | fin (z : Int) | pinf | ninf
  deriving Repr, DecidableEq

/-- §9.4 ToInteger -/
def toInteger : LI → ExtInt
  | .int z => .fin z
  | .nan => .fin 0
  | .pinf => .pinf
  | .ninf => .ninf
  | .frac fl => .fin (if fl ≥ 0 then fl else fl + 1)       -- sign(x)·floor(|x|)

/-- §15.10.6.2 step 9: try q = i, i+1, … while q ≤ length (`n` = number of candidates left) -/
def execLoop (E : SEng) (S : List Nat) : Nat → Nat → Option Caps
  | 0, _ => none
  | n + 1, q =>
    match E.matchAt S q with
    | some r => some r
    | none => execLoop E S n (q + 1)

/-- the search of §15.10.6.2 from index i (i ≤ length) -/
def searchFrom (E : SEng) (S : List Nat) (i : Nat) : Option Caps := execLoop E S (S.length + 1 - i) i

/-- §15.10.6.2 steps 4-5: lastIndex is read and ToInteger'd before step 7 looks at `global` (which only
    discards the value): the conversion, with its side effects, happens for every expression -/
def execConvertsLastIndex (_global : Bool) : Bool := true

/-- §15.10.6.2 RegExp.prototype.exec: new object state and capture vector -/
def execCore (E : SEng) (rx : RX) (S : List Nat) : RX × Option Caps :=
  let i : ExtInt := if rx.global then toInteger rx.lastIndex else .fin 0
  let r : Option Caps :=
    match i with
    | .fin z => if z < 0 ∨ z > (S.length : Int) then none else searchFrom E S z.toNat
    | _ => none
  match r with
  | none => ({ rx with lastIndex := .int 0 }, none)
  | some c => (if rx.global then { rx with lastIndex := .int (capEnd c) } else rx, some c)

/-- §15.10.6.2 steps 12-21: the result array -/
def resultArray (S : List Nat) (c : Caps) : Res :=
  .arr (some (capStart c)) (c.map fun o => o.map fun (a, b) => slice S a b)

def exec (E : SEng) (rx : RX) (S : List Nat) : RX × Res :=
  match execCore E rx S with
  | (rx', none) => (rx', .null)
  | (rx', some c) => (rx', resultArray S c)

def test (E : SEng) (rx : RX) (S : List Nat) : RX × Res :=
  match execCore E rx S with
  | (rx', none) => (rx', .bool false)
  | (rx', some _) => (rx', .bool true)

/-- §15.5.4.10 step 8.f: repeated exec with the empty-match advance.  Collects capture vectors. -/
def globalLoop (E : SEng) (S : List Nat) : Nat → RX → Nat → List Caps → RX × List Caps
  | 0, rx, _, acc => (rx, acc)
  | fuel + 1, rx, previousLastIndex, acc =>
    match execCore E rx S with
    | (rx', none) => (rx', acc)
    | (rx', some c) =>
      let thisIndex := capEnd c           -- = rx'.lastIndex
      if thisIndex = previousLastIndex then
        globalLoop E S fuel { rx' with lastIndex := .int (thisIndex + 1) } (thisIndex + 1) (acc ++ [c])
      else globalLoop E S fuel rx' thisIndex (acc ++ [c])

/-- all matches of a global search, and the object state afterwards (lastIndex = 0) -/
def globalMatches (E : SEng) (rx : RX) (S : List Nat) : RX × List Caps :=
  globalLoop E S (S.length + 2) { rx with lastIndex := .int 0 } 0 []

/-- §15.5.4.10 String.prototype.match -/
def stringMatch (E : SEng) (rx : RX) (S : List Nat) : RX × Res :=
  if !rx.global then exec E rx S
  else
    let (rx', ms) := globalMatches E rx S
    if ms.isEmpty then (rx', .null)
    else (rx', .arr none (ms.map fun c => some (slice S (capStart c) (capEnd c))))

def decDigitsAux : Nat → Nat → List Nat → List Nat
  | 0, _, acc => acc
  | f + 1, v, acc => if v < 10 then (48 + v) :: acc else decDigitsAux f (v / 10) ((48 + v % 10) :: acc)
def decDigits (v : Nat) : List Nat := decDigitsAux 32 v []

/-- §15.5.4.11 Table 22.  m = number of captures.  `$n`/`$nn` with n > m is implementation-defined;
    this spec leaves such a `$n` out (the empty string), and reads `$nn` as a two-digit reference
    only when nn ≤ m. -/
def expandF (S : List Nat) (c : Caps) : Nat → List Nat → List Nat
  | 0, _ => []
  | _ + 1, [] => []
  | _ + 1, [x] => [x]
  | f + 1, x0 :: x :: rest =>
    if x0 ≠ 36 then x0 :: expandF S c f (x :: rest) else
    let mcount := c.length - 1
    let grp (k : Nat) : List Nat :=
      match c[k]? with
      | some (some (a, b)) => slice S a b
      | _ => []
    if x = 36 then 36 :: expandF S c f rest
    else if x = 38 then slice S (capStart c) (capEnd c) ++ expandF S c f rest
    else if x = 96 then S.take (capStart c) ++ expandF S c f rest
    else if x = 39 then S.drop (capEnd c) ++ expandF S c f rest
    else if 48 ≤ x ∧ x ≤ 57 then
      -- two-digit form first
      let two : Option (Nat × List Nat) :=
        match rest with
        | y :: rest' => if 48 ≤ y ∧ y ≤ 57 then some ((x - 48) * 10 + (y - 48), rest') else none
        | [] => none
      match two with
      | some (nn, rest') =>
        if 1 ≤ nn ∧ nn ≤ mcount then grp nn ++ expandF S c f rest'
        else if x = 48 then
          (if nn = 0 then 36 :: expandF S c f (x :: rest)                    -- `$00` is not a reference
           else expandF S c f rest')                                         -- `$0n`, n > m: implementation-defined → empty
        else (if x - 48 ≤ mcount then grp (x - 48) else []) ++ expandF S c f rest
      | none =>
        if x = 48 then 36 :: expandF S c f (x :: rest)
        else (if x - 48 ≤ mcount then grp (x - 48) else []) ++ expandF S c f rest
    else 36 :: expandF S c f (x :: rest)

def expand (S : List Nat) (c : Caps) (rv : List Nat) : List Nat := expandF S c (rv.length + 1) rv

/-- the harness's reporting replacer: "<" + args.join(",") + ">" with undefined → "U" -/
def reportArgs (args : List (List Nat)) : List Nat := 60 :: (List.intercalate [44] args) ++ [62]

/-- §15.5.4.11: arguments of a function replacer: matched text, captures, offset, string -/
def replacerArgs (S : List Nat) (c : Caps) : List (List Nat) :=
  (c.map fun o => match o with | some (a, b) => slice S a b | none => [85]) ++ [decDigits (capStart c), S]

def replaceLoop (S : List Nat) (f : Caps → List Nat) : List Caps → Nat → List Nat → List Nat
  | [], last, acc => acc ++ S.drop last
  | c :: rest, last, acc => replaceLoop S f rest (capEnd c) (acc ++ slice S last (capStart c) ++ f c)

/-- §15.5.4.11 String.prototype.replace with a RegExp searchValue.
    global: the matches of §15.5.4.10 (lastIndex ends at 0); not global: the first match, the
    object is left alone. -/
def stringReplace (E : SEng) (rx : RX) (S : List Nat) (repl : Repl) : RX × Res :=
  let (rx', ms) : RX × List Caps :=
    if rx.global then globalMatches E rx S
    else (rx, match searchFrom E S 0 with | some c => [c] | none => [])
  let f : Caps → List Nat := match repl with
    | .str rv => fun c => expand S c rv
    | .report => fun c => reportArgs (replacerArgs S c)
    | .const ret => fun _ => ret              -- ToString(result of the call), used verbatim (step "if replaceValue is a function")
    -- §15.5.4.11: matched substring and captures are Strings (undefined if not matched), the offset a
    -- Number, "the final argument is string" = ToString(this value), a primitive string
    | .types => fun c => typeReport [115, 116, 114, 105, 110, 103] c true
  (rx', .str (replaceLoop S f ms 0 []))

/-- the regexp-observing replacers as state transformers; none = the callback throws -/
def callbackS (E : SEng) (S : List Nat) (kind : Step) (rx : RX) : Option (RX × List Nat) :=
  match kind with
  | .replaceL => some (rx, 60 :: liText rx.lastIndex ++ [62])
  | .replaceW v => some ({ rx with lastIndex := v }, [])
  | .replaceE =>
    match exec E rx S with
    | (rx', .arr (some i) _) => some (rx', 60 :: 109 :: natText i ++ 64 :: liText rx'.lastIndex ++ [62])
    | (rx', _) => some (rx', 60 :: 110 :: 64 :: liText rx'.lastIndex ++ [62])
  | _ => none

def replaceLoopS (S : List Nat) (cb : RX → Option (RX × List Nat)) : List Caps → RX → Nat → List Nat → Option (RX × List Nat)
  | [], rx, last, acc => some (rx, acc ++ S.drop last)
  | c :: rest, rx, last, acc =>
    match cb rx with
    | none => none
    | some (rx', text) => replaceLoopS S cb rest rx' (capEnd c) (acc ++ slice S last (capStart c) ++ text)

/-- §15.5.4.11 with a function replaceValue that uses the RegExp object: the search (for a global regexp
    the whole loop of §15.5.4.10, which leaves lastIndex 0) is done first; then, per match, the function
    is called – it sees and may change the object as the search left it. -/
def stringReplaceS (E : SEng) (rx : RX) (S : List Nat) (kind : Step) : RX × Res :=
  let (rx', ms) : RX × List Caps :=
    if rx.global then globalMatches E rx S
    else (rx, match searchFrom E S 0 with | some c => [c] | none => [])
  match replaceLoopS S (callbackS E S kind) ms rx' 0 [] with
  | none => (rx', .thrown)
  | some (rx'', r) => (rx'', .str r)

/-- §15.5.4.12 String.prototype.search: lastIndex and global are ignored and left unchanged -/
def stringSearch (E : SEng) (rx : RX) (S : List Nat) : RX × Res :=
  match searchFrom E S 0 with
  | none => (rx, .num (-1))
  | some c => (rx, .num (capStart c))

/-- push captures 1.. onto A, stopping at the limit: (A, hitLimit) -/
def pushCaps (S : List Nat) (lim : Nat) : List (Option (Nat × Nat)) → List (Option (List Nat)) → List (Option (List Nat)) × Bool
  | [], A => (A, false)
  | c :: cs, A =>
    let A := A ++ [c.map fun (a, b) => slice S a b]
    if A.length = lim then (A, true) else pushCaps S lim cs A

/-- §15.5.4.14 step 13 -/
def splitLoop (E : SEng) (S : List Nat) (lim : Nat) : Nat → Nat → Nat → List (Option (List Nat)) → List (Option (List Nat))
  | 0, _, _, A => A
  | fuel + 1, p, q, A =>
    if q ≥ S.length then A ++ [some (S.drop p)]               -- steps 14-16
    else
      match E.matchAt S q with
      | none => splitLoop E S lim fuel p (q + 1) A
      | some c =>
        let e := capEnd c
        if e = p then splitLoop E S lim fuel p (q + 1) A
        else
          let A := A ++ [some (slice S p q)]
          if A.length = lim then A else
          match pushCaps S lim (c.drop 1) A with
          | (A, true) => A
          | (A, false) => splitLoop E S lim fuel e e A

/-- §15.5.4.14 String.prototype.split with a RegExp separator; limit = ToUint32(limit), none = undefined -/
def stringSplit (E : SEng) (rx : RX) (S : List Nat) (limit : Option Nat) : RX × Res :=
  let lim := limit.getD (2 ^ 32 - 1)
  if lim = 0 then (rx, .arr none []) else
  if S.isEmpty then
    match E.matchAt S 0 with
    | some _ => (rx, .arr none [])
    | none => (rx, .arr none [some S])
  else (rx, .arr none (splitLoop E S lim (2 * S.length + 2) 0 0 []))

def step (E : SEng) (S : List Nat) (repU : List Nat → List Nat) (rx : RX) : Step → RX × Res
  | .exec => exec E rx S
  | .test => test E rx S
  | .mtch => stringMatch E rx S
  | .search => stringSearch E rx S
  | .replaceS r => stringReplace E rx S (.str (repU r))
  | .replaceF => stringReplace E rx S .report
  | .replaceK r => stringReplace E rx S (.const (repU r))
  | .replaceT => stringReplace E rx S .types
  | .replaceL => stringReplaceS E rx S .replaceL
  | .replaceW v => stringReplaceS E rx S (.replaceW v)
  | .replaceE => stringReplaceS E rx S .replaceE
  | .replaceX => stringReplaceS E rx S .replaceX
  | .split l => stringSplit E rx S l
  | .setLI v => ({ rx with lastIndex := v }, .undef)

/-- a whole history: result of every step and the lastIndex observed after it.
    `repU` converts a replacement string from the request's byte form to code units. -/
def run (E : SEng) (S : List Nat) (repU : List Nat → List Nat) : RX → List Step → List (Res × LI)
  | _, [] => []
  | rx, s :: ss =>
    let (rx', r) := step E S repU rx s
    (r, rx'.lastIndex) :: run E S repU rx' ss

/-- §15.10.4.1: F may contain each of g, i, m at most once and nothing else; otherwise SyntaxError.
    Result (global, ignoreCase, multiline). -/
def parseFlags : List Nat → Bool → Bool → Bool → Option (Bool × Bool × Bool)
  | [], g, i, mm => some (g, i, mm)
  | c :: cs, g, i, mm =>
    if c = 103 then (if g then none else parseFlags cs true i mm)
    else if c = 109 then (if mm then none else parseFlags cs g i true)
    else if c = 105 then (if i then none else parseFlags cs g true mm)
    else none

/-- §15.10.4.1: `source` is a Pattern S such that "/" S "/" flags is a RegularExpressionLiteral that
    behaves identically: the empty pattern as `(?:)` (else the literal would be the comment `//`),
    and every `/` that would end the literal (not escaped, not inside a class, §7.8.5) escaped -/
def sourceLoop : List Nat → Bool → Bool → List Nat
  | [], _, _ => []
  | c :: cs, escaped, inClass =>
    if escaped then c :: sourceLoop cs false inClass
    else if c = 92 then c :: sourceLoop cs true inClass
    else if c = 91 then c :: sourceLoop cs false true
    else if c = 93 then c :: sourceLoop cs false false
    else if c = 47 ∧ !inClass then 92 :: c :: sourceLoop cs false inClass
    else c :: sourceLoop cs false inClass

def source (pattern : List Nat) : List Nat :=
  if pattern.isEmpty then [40, 63, 58, 41] else sourceLoop pattern false false

/-- §15.10.3.1 RegExp(R) with flags undefined returns R; §15.10.4.1 new RegExp(R) with flags undefined
    builds a new object from R's pattern AND flags; with flags defined: TypeError.
    none = TypeError; some (same object?, pattern, flags). -/
def fromRegExp (pat flags : List Nat) (withNew : Bool) (flagsGiven : Bool) : Option (Bool × List Nat × List Nat) :=
  if !withNew ∧ !flagsGiven then some (true, pat, flags)
  else if flagsGiven then none
  else some (false, pat, flags)

end OttoVerif.C10.Spec
