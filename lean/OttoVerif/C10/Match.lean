/-
  C10/Match — one reference matcher for the AST of C10/Re, parametrised by the dialect:

    es5 = true    ES5 §15.10.2 (backtracking, the continuation semantics of the standard written
                  as "all results in priority order"; RepeatMatcher's capture reset and
                  empty-iteration check; ES5 denotations of . \s ^ $ and Canonicalize)
    es5 = false   the documented semantics of Go's regexp package on the same tree (leftmost-first
                  = the same priority order; no capture reset; an empty iteration of an unbounded
                  loop ends the loop; RE2 denotations of . \s ^ $ and simple case folding).
                  This half is the STUB of Go's engine (trusted base §2.6): validated per sample
                  against the real regexp package by the harness, not proved.

  Subjects are lists of characters (code points; = UTF-16 code units for BMP text).
  Results are lists of match states in priority order; the head is THE match.  Core-only.
-/
import OttoVerif.C10.Re
namespace OttoVerif.C10

structure Dialect where
  es5 : Bool
  icase : Bool
  multiline : Bool
  deriving Repr, DecidableEq, Inhabited

/-- the ES5 reading and the Go reading under the same i / m flags -/
def dE (i mm : Bool) : Dialect := { es5 := true, icase := i, multiline := mm }
def dG (i mm : Bool) : Dialect := { es5 := false, icase := i, multiline := mm }

/-! ## denotation of atoms -/

/-- ES5 §7.3 LineTerminator -/
def isLineTermES5 (c : Nat) : Bool := c = 10 ∨ c = 13 ∨ c = 0x2028 ∨ c = 0x2029

def isLineTerm (d : Dialect) (c : Nat) : Bool := if d.es5 then isLineTermES5 c else c = 10

/-- ES5 §15.10.2.12 `\s` = WhiteSpace (§7.2, incl. Unicode Zs and BOM) ∪ LineTerminator -/
def isSpaceES5 (c : Nat) : Bool :=
  c = 9 ∨ c = 10 ∨ c = 11 ∨ c = 12 ∨ c = 13 ∨ c = 32 ∨ c = 0xA0 ∨ c = 0x1680 ∨ c = 0x180E ∨
  (0x2000 ≤ c ∧ c ≤ 0x200A) ∨ c = 0x2028 ∨ c = 0x2029 ∨ c = 0x202F ∨ c = 0x205F ∨ c = 0x3000 ∨ c = 0xFEFF

/-- RE2 `\s` = [\t\n\f\r ] -/
def isSpaceGo (c : Nat) : Bool := c = 9 ∨ c = 10 ∨ c = 12 ∨ c = 13 ∨ c = 32

def isWordChar (c : Nat) : Bool := isLetter c ∨ isDigitC c ∨ c = 95

def clsTest (d : Dialect) : ClsK → Nat → Bool
  | .d, c => isDigitC c
  | .D, c => !isDigitC c
  | .s, c => if d.es5 then isSpaceES5 c else isSpaceGo c
  | .S, c => !(if d.es5 then isSpaceES5 c else isSpaceGo c)
  | .w, c => isWordChar c
  | .W, c => !isWordChar c

def dotTest (d : Dialect) (c : Nat) : Bool := !isLineTerm d c

/-- the characters that are equal to `c` under the `i` flag.
    ES5 (§15.10.2.8 Canonicalize = single-character toUpperCase that does not map non-ASCII to
    ASCII): the set {y | Canonicalize y = Canonicalize c}.
    Go: the orbit of `c` under unicode.SimpleFold.
    Exact for ASCII and for the listed Latin-1 / special characters; other characters are taken to
    be caseless (assumption recorded in checks/C10.json; the generators stay inside this table). -/
def foldSet (d : Dialect) (c : Nat) : List Nat :=
  if 97 ≤ c ∧ c ≤ 122 then
    (if !d.es5 ∧ c = 107 then [c, c - 32, 0x212A] else if !d.es5 ∧ c = 115 then [c, c - 32, 0x17F] else [c, c - 32])
  else if 65 ≤ c ∧ c ≤ 90 then
    (if !d.es5 ∧ c = 75 then [c, c + 32, 0x212A] else if !d.es5 ∧ c = 83 then [c, c + 32, 0x17F] else [c, c + 32])
  else if c = 0x212A then (if d.es5 then [c] else [c, 75, 107])          -- KELVIN SIGN
  else if c = 0x17F then (if d.es5 then [c] else [c, 83, 115])           -- LATIN SMALL LETTER LONG S
  else if c = 0xE5 ∨ c = 0xC5 then (if d.es5 then [0xE5, 0xC5] else [0xE5, 0xC5, 0x212B])
  else if c = 0x212B then (if d.es5 then [c] else [0xE5, 0xC5, 0x212B])  -- ANGSTROM SIGN
  else if c = 0xB5 ∨ c = 0x39C ∨ c = 0x3BC then [0xB5, 0x39C, 0x3BC]    -- MICRO SIGN / MU
  else if 0xE0 ≤ c ∧ c ≤ 0xFE ∧ c ≠ 0xF7 then [c, c - 32]
  else if 0xC0 ≤ c ∧ c ≤ 0xDE ∧ c ≠ 0xD7 then [c, c + 32]
  else if c = 0xFF then [c, 0x178]
  else if c = 0x178 then [c, 0xFF]
  else [c]

def chTest (sp : CharSp) (c : Nat) : Bool := c = sp.val

/-- does `c` satisfy the set `test`, taking the `i` flag into account -/
def charIn (d : Dialect) (test : Nat → Bool) (c : Nat) : Bool :=
  if d.icase then (foldSet d c).any test else test c

def ClsK.positive : ClsK → ClsK
  | .D => .d | .S => .s | .W => .w | k => k
def ClsK.isNeg : ClsK → Bool
  | .D | .S | .W => true | _ => false

/-- a class escape under the flags.  ES5: ∃ a ∈ set, Canonicalize a = Canonicalize c.
    Go (parse.go appendGroup): the positive class is folded first, then negated. -/
def clsTestI (d : Dialect) (k : ClsK) (c : Nat) : Bool :=
  if !d.icase then clsTest d k c
  else if d.es5 then (foldSet d c).any (clsTest d k)
  else (foldSet d c).any (clsTest d k.positive) != k.isNeg

def CAtom.test (d : Dialect) : CAtom → Nat → Bool
  | .ch s, c => c = s.val
  | .bs, c => c = 8
  | .cls k, c => clsTest d k c

def CItem.test (d : Dialect) : CItem → Nat → Bool
  | .one a, c => a.test d c
  | .range a b, c => a.pt ≤ c ∧ c ≤ b.pt

def CItem.testI (d : Dialect) (i : CItem) (c : Nat) : Bool :=
  match i with
  | .one (.cls k) => clsTestI d k c
  | i => charIn d (i.test d) c

def itemsTest (d : Dialect) : List CItem → Nat → Bool
  | [], _ => false
  | i :: is, c => i.testI d c || itemsTest d is c

/-! ## matcher -/

structure MS where
  pos : Nat
  caps : List (Option (Nat × Nat))       -- capture i+1 at index i: (start, end)
  deriving Repr, DecidableEq, Inhabited

def setCap : List (Option (Nat × Nat)) → Nat → Option (Nat × Nat) → List (Option (Nat × Nat))
  | [], _, _ => []
  | _ :: cs, 0, v => v :: cs
  | c :: cs, i + 1, v => c :: setCap cs i v

/-- clear captures gi … gi+n-1 (§15.10.2.5 RepeatMatcher step 4) -/
def resetCaps : List (Option (Nat × Nat)) → Nat → Nat → List (Option (Nat × Nat))
  | cs, _, 0 => cs
  | cs, gi, n + 1 => resetCaps (setCap cs gi none) (gi + 1) n

def digitsVal (ds : List Nat) : Nat := ds.foldl (fun a c => a * 10 + (c - 48)) 0

def Quant.min : Quant → Nat
  | .star => 0 | .plus => 1 | .opt => 0
  | .rep n => digitsVal n | .repFrom n => digitsVal n | .repRange n _ => digitsVal n

def Quant.max : Quant → Option Nat
  | .star => none | .plus => none | .opt => some 1
  | .rep n => some (digitsVal n) | .repFrom _ => none | .repRange _ m => some (digitsVal m)

/-- one character test at the current position -/
def stepChar (s : List Nat) (test : Nat → Bool) (x : MS) : List MS :=
  match s[x.pos]? with
  | some c => if test c then [{ x with pos := x.pos + 1 }] else []
  | none => []

def assertIf (b : Bool) (x : MS) : List MS := if b then [x] else []

def prevWord (s : List Nat) (p : Nat) : Bool :=
  if p = 0 then false else match s[p - 1]? with | some c => isWordChar c | none => false
def nextWord (s : List Nat) (p : Nat) : Bool :=
  match s[p]? with | some c => isWordChar c | none => false

def atBol (d : Dialect) (s : List Nat) (p : Nat) : Bool :=
  p == 0 || (d.multiline && match s[p - 1]? with | some c => isLineTerm d c | none => false)
def atEol (d : Dialect) (s : List Nat) (p : Nat) : Bool :=
  p == s.length || (d.multiline && match s[p]? with | some c => isLineTerm d c | none => false)

/-- §15.10.2.5 RepeatMatcher over the body's result function `f` (which already contains the
    capture reset in the ES5 dialect).  `fuel` bounds the number of iterations.
    `es5 = true`: an empty iteration with min = 0 fails (step 2.a of the continuation d).
    `es5 = false` (Go): x{n,m} is n copies and m-n nested options, no check; the unbounded tail
    (x* = (x+)?, x{n,} = x^(n-1) x+) accepts an empty FIRST iteration and then leaves the loop,
    while an empty later iteration fails (the program revisits the same (pc, position)) – which is
    the ES5 rule, hence the switch of the flag in the recursive call. -/
def repLoop (es5 greedy : Bool) (f : MS → List MS) : Nat → Nat → Option Nat → MS → List MS
  | 0, _, _, _ => []
  | fuel + 1, min, max, x =>
    if max = some 0 then [x] else
    let iter := (f x).flatMap fun y =>
      if es5 then
        (if min = 0 ∧ y.pos = x.pos then [] else repLoop es5 greedy f fuel (min - 1) (max.map (· - 1)) y)
      else
        (if max = none ∧ min ≤ 1 ∧ y.pos = x.pos then [y]
         else repLoop (decide (max = none ∧ min ≤ 1)) greedy f fuel (min - 1) (max.map (· - 1)) y)
    if min ≠ 0 then iter else if greedy then iter ++ [x] else x :: iter

/-- all ways `r` matches `s` from state `x`, best first.  `gi` = index of r's first group. -/
def m (d : Dialect) (s : List Nat) : Re → Nat → MS → List MS
  | .empty, _, x => [x]
  | .ch sp, _, x => stepChar s (charIn d (chTest sp)) x
  | .dot, _, x => stepChar s (dotTest d) x
  | .cls k, _, x => stepChar s (clsTestI d k) x
  | .set neg items, _, x => stepChar s (fun c => itemsTest d items c != neg) x
  | .bol, _, x => assertIf (atBol d s x.pos) x
  | .eol, _, x => assertIf (atEol d s x.pos) x
  | .wordb, _, x => assertIf (prevWord s x.pos != nextWord s x.pos) x
  | .nwordb, _, x => assertIf (prevWord s x.pos == nextWord s x.pos) x
  | .group r, gi, x => (m d s r (gi + 1) x).map fun y => { y with caps := setCap y.caps gi (some (x.pos, y.pos)) }
  | .ncgroup r, gi, x => m d s r gi x
  | .seq a b, gi, x => (m d s a gi x).flatMap fun y => m d s b (gi + a.ngroups) y
  | .alt a b, gi, x => m d s a gi x ++ m d s b (gi + a.ngroups) x
  | .quant r q l, gi, x =>
    repLoop d.es5 (!l)
      (fun x => m d s r gi (if d.es5 then { x with caps := resetCaps x.caps gi r.ngroups } else x))
      (s.length - x.pos + q.min + 2) q.min q.max x
  | .look _ _, _, _ => []          -- not in the portable subset
  | .backref _, _, _ => []         -- not in the portable subset

/-- may match the empty string (syntactic, conservative) -/
def nullable : Re → Bool
  | .empty | .bol | .eol | .wordb | .nwordb => true
  | .group r | .ncgroup r => nullable r
  | .seq a b => nullable a && nullable b
  | .alt a b => nullable a || nullable b
  | .quant r q _ => q.min == 0 || q.max == some 0 || nullable r
  | .look _ _ => true
  | _ => false

/-- every quantified body consumes at least one character and contains no capturing group: the
    sub-subset on which RepeatMatcher's two ES5-specific rules (capture reset, empty-iteration
    check) cannot be observed -/
def Re.simpleLoops : Re → Bool
  | .quant r _ _ => !nullable r && r.ngroups == 0 && r.simpleLoops
  | .group r | .ncgroup r | .look _ r => r.simpleLoops
  | .seq a b | .alt a b => a.simpleLoops && b.simpleLoops
  | _ => true

/-- [[Match]](S, i): the best match of the whole pattern starting exactly at `i` -/
def matchAt (d : Dialect) (r : Re) (s : List Nat) (i : Nat) : Option MS :=
  (m d s r 0 { pos := i, caps := List.replicate r.ngroups none }).head?

/-- first start position ≥ i (counting down `n` candidates) with a match: (start, state) -/
def searchFrom (d : Dialect) (r : Re) (s : List Nat) : Nat → Nat → Option (Nat × MS)
  | 0, _ => none
  | n + 1, i =>
    match matchAt d r s i with
    | some y => some (i, y)
    | none => searchFrom d r s n (i + 1)

/-- leftmost match starting at or after `i` -/
def search (d : Dialect) (r : Re) (s : List Nat) (i : Nat) : Option (Nat × MS) :=
  searchFrom d r s (s.length + 1 - i) i

end OttoVerif.C10
