/-
  C10/Proto — data shared by the model and the spec of the matching protocol:
  lastIndex values, results of the built-ins, capture vectors.  Core-only.
-/
namespace OttoVerif.C10

/-- a Number written to / read from `lastIndex` (only the distinctions ToInteger can see) -/
inductive LI
  | int (z : Int)
  | nan | pinf | ninf
  | frac (fl : Int)            -- a non-integer in the open interval (fl, fl+1)
  deriving Repr, DecidableEq, Inhabited

/-- (start, end) offsets; element 0 = the whole match (always `some`), element k = capture k -/
abbrev Caps := List (Option (Nat × Nat))

/-- a JavaScript result, strings as UTF-16 code units -/
inductive Res
  | null | undef
  | bool (b : Bool)
  | num (n : Int)
  | str (u : List Nat)
  | arr (index : Option Nat) (items : List (Option (List Nat)))   -- exec result (index = some) or plain array
  | thrown                                                         -- the call threw (the callback's own exception)
  deriving Repr, DecidableEq, Inhabited

/-- the state of one RegExp object that the protocol reads and writes -/
structure RX where
  global : Bool
  lastIndex : LI
  deriving Repr, DecidableEq, Inhabited

/-- the text returned by the type-reporting replacer for one match:
    "<" typeof(match) "," typeof(capture)… "," typeof(offset) "," typeof(string) "|" (string === subject) ">" -/
def typeReport (strTypes : List Nat) (mt : Caps) (lastIsSubject : Bool) : List Nat :=
  let str : List Nat := [115, 116, 114, 105, 110, 103]                       -- "string"
  let und : List Nat := [117, 110, 100, 101, 102, 105, 110, 101, 100]        -- "undefined"
  let num : List Nat := [110, 117, 109, 98, 101, 114]                        -- "number"
  60 :: List.intercalate [44] ((mt.map fun o => match o with | some _ => str | none => und) ++ [num, strTypes])
    ++ 124 :: (if lastIsSubject then [116, 114, 117, 101] else [102, 97, 108, 115, 101]) ++ [62]

def natTextAux : Nat → Nat → List Nat → List Nat
  | 0, _, acc => acc
  | f + 1, v, acc => if v < 10 then (48 + v) :: acc else natTextAux f (v / 10) ((48 + v % 10) :: acc)
def natText (v : Nat) : List Nat := natTextAux 40 v []
def intText (z : Int) : List Nat := if z < 0 then 45 :: natText z.natAbs else natText z.natAbs

/-- the harness's rendering of a lastIndex value inside a callback: i<int> nan pinf ninf h<floor> -/
def liText : LI → List Nat
  | .int z => 105 :: intText z
  | .nan => [110, 97, 110] | .pinf => [112, 105, 110, 102] | .ninf => [110, 105, 110, 102]
  | .frac f => 104 :: intText f

def slice (s : List Nat) (a b : Nat) : List Nat := (s.take b).drop a

def capEnd (c : Caps) : Nat := match c.head? with | some (some (_, e)) => e | _ => 0
def capStart (c : Caps) : Nat := match c.head? with | some (some (a, _)) => a | _ => 0

def shiftCaps (k : Nat) (c : Caps) : Caps := c.map fun o => o.map fun (a, b) => (a + k, b + k)

/-- the replaceValue of String.prototype.replace -/
inductive Repl
  | str (rv : List Nat)       -- a string: Table 22 `$` substitution applies
  | report                    -- the harness's reporting function (result built from its arguments)
  | const (ret : List Nat)    -- a function returning the constant string `ret`
  | types                     -- a function reporting `typeof` of every argument and whether the last one === the subject
  deriving Repr, DecidableEq, Inhabited

/-- one step of a call history on one RegExp object and one subject string -/
inductive Step
  | exec | test | mtch | search
  | replaceS (repl : List Nat)        -- String.prototype.replace(re, string)   (repl: UTF-8 bytes / units)
  | replaceF                          -- String.prototype.replace(re, fixed reporting function)
  | replaceK (ret : List Nat)         -- String.prototype.replace(re, function(){ return <ret> })   (a constant function)
  | replaceT                          -- String.prototype.replace(re, type-reporting function)
  -- function replacers that look at the regexp itself (S0 = the subject, r = the same RegExp object):
  | replaceL                          -- returns "<" + li(r.lastIndex) + ">"
  | replaceW (v : LI)                 -- r.lastIndex = v; returns ""
  | replaceE                          -- m = r.exec(S0); returns "<" + (m === null ? "n" : "m" + m.index) + "@" + li(r.lastIndex) + ">"
  | replaceX                          -- throws
  | split (limit : Option Nat)        -- limit already ToUint32'd
  | setLI (v : LI)
  deriving Repr, DecidableEq, Inhabited

end OttoVerif.C10
