/-
  C10/Re — the abstract syntax of the portable subset of ES5 regular expressions (§15.10.1)
  shared by model and spec, with its two concrete syntaxes:

    printES5 : Re → List Nat      the pattern text a script writes           (code points)
    printGo  : Re → List Nat      the text Go's regexp/syntax must be given  (code points)

  The AST keeps the *spelling* of single characters (`a`, `\x61`, `a`, `\cA`, `\t`, `\.`)
  because otto's translation is a character-level rewrite of exactly those spellings.
  No nested inductives: sequences and alternations are binary, class items are a plain
  `List CItem` (CItem does not mention Re).  Core-only.
-/
namespace OttoVerif.C10

/-- how a single character is written -/
inductive CharSp
  | lit (c : Nat)                 -- PatternCharacter / ClassAtom written raw
  | ident (c : Nat)               -- IdentityEscape  `\c`  (c an ASCII punctuation character)
  | ctl (c : Nat)                 -- ControlEscape   `\f \n \r \t \v`  (c = the letter)
  | ctrl (l : Nat)                -- `\cX`  (l = the letter X)
  | hex (h1 h0 : Nat)             -- `\xHH`   (the two hex digit characters)
  | uni (h3 h2 h1 h0 : Nat)       -- `\uHHHH`
  | nul                           -- `\0`
  deriving Repr, DecidableEq, Inhabited

/-- character-class escapes -/
inductive ClsK | d | D | s | S | w | W
  deriving Repr, DecidableEq, Inhabited

/-- an atom inside `[...]` -/
inductive CAtom
  | ch (s : CharSp)
  | bs                            -- `\b` inside a class = U+0008
  | cls (k : ClsK)
  deriving Repr, DecidableEq, Inhabited

inductive CItem
  | one (a : CAtom)
  | range (a b : CAtom)
  deriving Repr, DecidableEq, Inhabited

/-- quantifier; bounds are kept as their decimal digit characters -/
inductive Quant
  | star | plus | opt
  | rep (n : List Nat)                    -- {n}
  | repFrom (n : List Nat)                -- {n,}
  | repRange (n m : List Nat)             -- {n,m}
  deriving Repr, DecidableEq, Inhabited

inductive Re
  | empty
  | ch (s : CharSp)
  | dot
  | cls (k : ClsK)
  | set (neg : Bool) (items : List CItem)
  | bol | eol | wordb | nwordb
  | group (r : Re)                         -- ( r )   capturing
  | ncgroup (r : Re)                       -- (?: r )
  | seq (a b : Re)
  | alt (a b : Re)
  | quant (r : Re) (q : Quant) (lazy : Bool)
  | look (neg : Bool) (r : Re)             -- (?= r ) (?! r )   valid ES5, NOT portable
  | backref (d : Nat)                      -- \d, d the digit character '1'..'9'   valid ES5, NOT portable
  deriving Repr, DecidableEq, Inhabited

/-! ## character codes -/
def hexVal (c : Nat) : Nat :=
  if 48 ≤ c ∧ c ≤ 57 then c - 48
  else if 97 ≤ c ∧ c ≤ 102 then c - 87
  else if 65 ≤ c ∧ c ≤ 70 then c - 55
  else 16

def isLetter (c : Nat) : Bool := (97 ≤ c ∧ c ≤ 122) ∨ (65 ≤ c ∧ c ≤ 90)
def isDigitC (c : Nat) : Bool := 48 ≤ c ∧ c ≤ 57

/-- the character a spelling denotes -/
def CharSp.val : CharSp → Nat
  | .lit c => c
  | .ident c => c
  | .ctl c => if c = 102 then 12 else if c = 110 then 10 else if c = 114 then 13 else if c = 116 then 9 else 11
  | .ctrl l => l % 32
  | .hex h1 h0 => hexVal h1 * 16 + hexVal h0
  | .uni h3 h2 h1 h0 => ((hexVal h3 * 16 + hexVal h2) * 16 + hexVal h1) * 16 + hexVal h0
  | .nul => 0

def ClsK.letter : ClsK → Nat
  | .d => 100 | .D => 68 | .s => 115 | .S => 83 | .w => 119 | .W => 87

/-- lower-case hex digit character of a value < 16 -/
def hexChar (v : Nat) : Nat := if v < 10 then 48 + v else 87 + v

/-! ## ES5 concrete syntax -/
def CharSp.es5 : CharSp → List Nat
  | .lit c => [c]
  | .ident c => [92, c]
  | .ctl c => [92, c]
  | .ctrl l => [92, 99, l]
  | .hex h1 h0 => [92, 120, h1, h0]
  | .uni h3 h2 h1 h0 => [92, 117, h3, h2, h1, h0]
  | .nul => [92, 48]

def CAtom.es5 : CAtom → List Nat
  | .ch s => s.es5
  | .bs => [92, 98]
  | .cls k => [92, k.letter]

def CItem.es5 : CItem → List Nat
  | .one a => a.es5
  | .range a b => a.es5 ++ 45 :: b.es5

def itemsES5 : List CItem → List Nat
  | [] => []
  | i :: is => i.es5 ++ itemsES5 is

def Quant.text : Quant → List Nat
  | .star => [42] | .plus => [43] | .opt => [63]
  | .rep n => 123 :: n ++ [125]
  | .repFrom n => 123 :: n ++ [44, 125]
  | .repRange n m => 123 :: n ++ 44 :: m ++ [125]

def lazyText (l : Bool) : List Nat := if l then [63] else []

def printES5 : Re → List Nat
  | .empty => []
  | .ch s => s.es5
  | .dot => [46]
  | .cls k => [92, k.letter]
  | .set neg items => 91 :: (if neg then [94] else []) ++ itemsES5 items ++ [93]
  | .bol => [94] | .eol => [36] | .wordb => [92, 98] | .nwordb => [92, 66]
  | .group r => 40 :: printES5 r ++ [41]
  | .ncgroup r => 40 :: 63 :: 58 :: printES5 r ++ [41]
  | .seq a b => printES5 a ++ printES5 b
  | .alt a b => printES5 a ++ 124 :: printES5 b
  | .quant r q l => printES5 r ++ q.text ++ lazyText l
  | .look neg r => 40 :: 63 :: (if neg then 33 else 61) :: printES5 r ++ [41]
  | .backref d => [92, d]

/-! ## Go (RE2) concrete syntax of the same tree -/
def CharSp.go : CharSp → List Nat
  | .lit c => [c]
  | .ident c => [92, c]
  | .ctl c => [92, c]
  | .ctrl l => let v := l % 32; if v < 16 then [92, 120, 48, hexChar v] else [92, 120, 49, hexChar (v - 16)]
  | .hex h1 h0 => [92, 120, h1, h0]
  | .uni h3 h2 h1 h0 => [92, 120, 123, h3, h2, h1, h0, 125]
  | .nul => [92, 48]

def CAtom.go : CAtom → List Nat
  | .ch s => s.go
  | .bs => [92, 120, 48, 56]
  | .cls k => [92, k.letter]

def CItem.go : CItem → List Nat
  | .one a => a.go
  | .range a b => a.go ++ 45 :: b.go

def itemsGo : List CItem → List Nat
  | [] => []
  | i :: is => i.go ++ itemsGo is

/-- a count without its leading zeros (the last digit stays) -/
def stripZ : List Nat → List Nat
  | [] => []
  | [c] => [c]
  | c :: d :: cs => if c = 48 then stripZ (d :: cs) else c :: d :: cs

def Quant.textGo : Quant → List Nat
  | .star => [42] | .plus => [43] | .opt => [63]
  | .rep n => 123 :: stripZ n ++ [125]
  | .repFrom n => 123 :: stripZ n ++ [44, 125]
  | .repRange n m => 123 :: stripZ n ++ 44 :: stripZ m ++ [125]

def printGo : Re → List Nat
  | .empty => []
  | .ch s => s.go
  | .dot => [46]
  | .cls k => [92, k.letter]
  | .set neg items =>
    if items.isEmpty then
      91 :: (if neg then [] else [94]) ++ [92, 120, 48, 48, 45, 92, 120, 123, 49, 48, 70, 70, 70, 70, 125, 93]
    else 91 :: (if neg then [94] else []) ++ itemsGo items ++ [93]
  | .bol => [94] | .eol => [36] | .wordb => [92, 98] | .nwordb => [92, 66]
  | .group r => 40 :: printGo r ++ [41]
  | .ncgroup r => 40 :: 63 :: 58 :: printGo r ++ [41]
  | .seq a b => printGo a ++ printGo b
  | .alt a b => printGo a ++ 124 :: printGo b
  | .quant r q l => printGo r ++ q.textGo ++ lazyText l
  | .look neg r => 40 :: 63 :: (if neg then 33 else 61) :: printGo r ++ [41]
  | .backref d => [92, d]

/-! ## well-formedness: the side conditions of the grammar -/

/-- ES5 SyntaxCharacter  ^ $ \ . * + ? ( ) [ ] { } |   plus `/` -/
def isSyntaxChar (c : Nat) : Bool :=
  c = 94 ∨ c = 36 ∨ c = 92 ∨ c = 46 ∨ c = 42 ∨ c = 43 ∨ c = 63 ∨ c = 40 ∨ c = 41 ∨
  c = 91 ∨ c = 93 ∨ c = 123 ∨ c = 125 ∨ c = 124 ∨ c = 47

/-- ASCII punctuation that may follow a backslash as an IdentityEscape: not a letter, digit, `_`;
    33..126 -/
def isPunct (c : Nat) : Bool :=
  33 ≤ c ∧ c ≤ 126 ∧ !isLetter c ∧ !isDigitC c ∧ c ≠ 95

def isHexC (c : Nat) : Bool := hexVal c < 16

/-- spelling is well formed for use outside a class -/
def CharSp.wf : CharSp → Bool
  | .lit c => !isSyntaxChar c ∧ c < 0x110000 ∧ !(0xD800 ≤ c ∧ c ≤ 0xDFFF)
  | .ident c => isPunct c
  | .ctl c => c = 102 ∨ c = 110 ∨ c = 114 ∨ c = 116 ∨ c = 118
  | .ctrl l => isLetter l
  | .hex h1 h0 => isHexC h1 ∧ isHexC h0
  | .uni h3 h2 h1 h0 => isHexC h3 ∧ isHexC h2 ∧ isHexC h1 ∧ isHexC h0
  | .nul => true

/-- spelling is well formed inside a class: a raw character must not be `\ ] - ^ [` -/
def CharSp.wfIn : CharSp → Bool
  | .lit c => c ≠ 92 ∧ c ≠ 93 ∧ c ≠ 45 ∧ c ≠ 94 ∧ c ≠ 91 ∧ c < 0x110000 ∧ !(0xD800 ≤ c ∧ c ≤ 0xDFFF)
  | .nul => false               -- `[\0…]`: what follows must not be a digit; kept out of the proved subset
  | s => s.wf

def CAtom.wf : CAtom → Bool
  | .ch s => s.wfIn
  | _ => true

def CAtom.isCls : CAtom → Bool
  | .cls _ => true
  | _ => false

/-- value of a class atom used as a range end point (class escapes excluded by `wf`) -/
def CAtom.pt : CAtom → Nat
  | .ch s => s.val
  | .bs => 8
  | .cls _ => 0

def CItem.wf : CItem → Bool
  | .one a => a.wf
  | .range a b => a.wf ∧ b.wf ∧ !a.isCls ∧ !b.isCls ∧ a.pt ≤ b.pt

def itemsWf : List CItem → Bool
  | [] => true
  | i :: is => i.wf ∧ itemsWf is

def digitsWf (n : List Nat) : Bool := !n.isEmpty ∧ n.all isDigitC

def Quant.wf : Quant → Bool
  | .rep n => digitsWf n
  | .repFrom n => digitsWf n
  | .repRange n m => digitsWf n ∧ digitsWf m
  | _ => true

/-- may stand directly before a quantifier (an Atom of §15.10.1) -/
def Re.isAtom : Re → Bool
  | .ch _ | .dot | .cls _ | .set _ _ | .group _ | .ncgroup _ | .backref _ => true
  | _ => false

def Re.isAlt : Re → Bool
  | .alt _ _ => true
  | _ => false

def Re.isBackref : Re → Bool
  | .backref _ => true
  | _ => false

/-- last term is a bare back-reference or `\0`: a decimal digit must not follow it in the text
    (§15.10.1: `\0` [lookahead ∉ DecimalDigit]; `\1` followed by `0` would be `\10`) -/
def Re.endsOpen : Re → Bool
  | .backref _ => true
  | .ch .nul => true
  | .seq _ b => b.endsOpen
  | .alt _ b => b.endsOpen
  | _ => false

/-- Well-formed tree of the ES5 grammar (including the two unsupported constructs). -/
def Re.wf : Re → Bool
  | .ch s => s.wf
  | .set _ items => itemsWf items
  | .group r => r.wf
  | .ncgroup r => r.wf
  | .seq a b => a.wf ∧ b.wf ∧ !a.isAlt ∧ !b.isAlt ∧ !a.endsOpen
  | .alt a b => a.wf ∧ b.wf
  | .quant r q _ => r.wf ∧ r.isAtom ∧ q.wf
  | .look _ r => r.wf
  | .backref d => 49 ≤ d ∧ d ≤ 57
  | _ => true

/-- contains a look-ahead or a back-reference -/
def Re.unsupported : Re → Bool
  | .look _ _ => true
  | .backref _ => true
  | .group r => r.unsupported
  | .ncgroup r => r.unsupported
  | .seq a b => a.unsupported || b.unsupported
  | .alt a b => a.unsupported || b.unsupported
  | .quant r _ _ => r.unsupported
  | _ => false

/-- the portable subset of the property statement -/
def Re.portable (r : Re) : Bool := r.wf ∧ !r.unsupported

/-- number of capturing groups -/
def Re.ngroups : Re → Nat
  | .group r => r.ngroups + 1
  | .ncgroup r => r.ngroups
  | .seq a b => a.ngroups + b.ngroups
  | .alt a b => a.ngroups + b.ngroups
  | .quant r _ _ => r.ngroups
  | .look _ r => r.ngroups
  | _ => 0

end OttoVerif.C10
