/-
  C10/Parse — pattern text → AST, for both concrete syntaxes.

    go = false   ES5 §15.10.1 Pattern grammar, strictly (no Annex-B leniency): the SPEC's reading of
                 a pattern.  Look-aheads and back-references are parsed (nodes `look`, `backref`).
    go = true    Go regexp/syntax.Parse with Perl flags, restricted to what otto can emit: the
                 MODEL's reading of the translated pattern.  STUB of regexp/syntax (trusted base
                 §2.6), validated per sample.  Constructs of Go's syntax that have no ES5
                 counterpart ((?i) flag groups, named groups, \A \z \pL \Q, POSIX classes) are
                 recognised just enough to decide accept/reject: result `opaque`.

  Recursive descent, one fuel unit per call (3·length + 6 suffices).  Core-only.
-/
import OttoVerif.C10.Re
namespace OttoVerif.C10

inductive PRes
  | ok (r : Re)
  | opaque            -- accepted by Go's parser, outside the modelled AST
  | err
  deriving Repr, DecidableEq, Inhabited

/-- parser result: tree (none = opaque construct seen) and rest of input -/
abbrev P := Option (Option Re × List Nat)

def takeDigits : List Nat → List Nat × List Nat
  | [] => ([], [])
  | c :: cs => if isDigitC c then let (a, r) := takeDigits cs; (c :: a, r) else ([], c :: cs)

def decVal (ds : List Nat) : Nat := ds.foldl (fun a c => a * 10 + (c - 48)) 0

/-- `{n}` `{n,}` `{n,m}` at the head of the input (after the `{`) -/
def leadZero (n : List Nat) : Bool := match n with | 48 :: _ :: _ => true | _ => false

def parseBraces (go : Bool) (cs : List Nat) : Option (Quant × List Nat) :=
  let (n, r1) := takeDigits cs
  if n.isEmpty then none else
  if go ∧ leadZero n then none else                    -- Go parseInt: leading zeros make `{…}` literal text
  match r1 with
  | 125 :: r => some (.rep n, r)
  | 44 :: 125 :: r => some (.repFrom n, r)
  | 44 :: r2 =>
    let (mm, r3) := takeDigits r2
    if mm.isEmpty then none else
    if go ∧ leadZero mm then none else
    match r3 with
    | 125 :: r => some (.repRange n mm, r)
    | _ => none
  | _ => none

/-- quantifier at the head of the input: (quant, lazy, rest); `bad` = malformed / out of order -/
inductive QRes
  | none
  | some (q : Quant) (lz : Bool) (rest : List Nat)
  | bad

def quantOk (go : Bool) : Quant → Bool
  | .rep n => !go || decVal n ≤ 1000
  | .repFrom n => !go || decVal n ≤ 1000
  | .repRange n mm => decVal n ≤ decVal mm && (!go || decVal mm ≤ 1000)
  | _ => true

def parseQuant (go : Bool) (cs : List Nat) : QRes :=
  let fin (q : Quant) (r : List Nat) : QRes :=
    if !quantOk go q then .bad else
    match r with
    | 63 :: r' => .some q true r'
    | _ => .some q false r
  match cs with
  | 42 :: r => fin .star r
  | 43 :: r => fin .plus r
  | 63 :: r => fin .opt r
  | 123 :: r =>
    match parseBraces go r with
    | some (q, r') => fin q r'
    | none => if go then .none else .bad       -- Go: a literal `{`;  ES5: `{` is not a PatternCharacter
  | _ => .none

def startsQuant (go : Bool) (cs : List Nat) : Bool :=
  match parseQuant go cs with
  | .none => false
  | _ => true

/-- escape that denotes ONE character (after the backslash), common to atoms and class atoms.
    Result: spelling and rest.  Class escapes, `\b`, `\B`, back-references are handled by callers. -/
def parseCharEscape (go : Bool) (cs : List Nat) : Option (CharSp × List Nat) :=
  match cs with
  | [] => none
  | c :: r =>
    if c = 102 ∨ c = 110 ∨ c = 114 ∨ c = 116 ∨ c = 118 then some (.ctl c, r)
    else if c = 97 ∧ go then some (.lit 7, r)                                   -- Go \a
    else if c = 99 then
      if go then none else
      match r with
      | l :: r' => if isLetter l then some (.ctrl l, r') else none
      | [] => none
    else if c = 120 then
      match r with
      | 123 :: r' =>
        if !go then none else
        -- \x{H…}
        let rec hexs : List Nat → Nat → Nat → Option (Nat × List Nat)
          | 125 :: t, v, n => if n = 0 then none else some (v, t)
          | h :: t, v, n => if isHexC h ∧ v * 16 + hexVal h ≤ 0x10FFFF then hexs t (v * 16 + hexVal h) (n + 1) else none
          | [], _, _ => none
        match hexs r' 0 0 with
        | some (v, t) => some (.lit v, t)
        | none => none
      | h1 :: h0 :: r' => if isHexC h1 ∧ isHexC h0 then some (.hex h1 h0, r') else none
      | _ => none
    else if c = 117 then
      if go then none else
      match r with
      | h3 :: h2 :: h1 :: h0 :: r' =>
        if isHexC h3 ∧ isHexC h2 ∧ isHexC h1 ∧ isHexC h0 then some (.uni h3 h2 h1 h0, r') else none
      | _ => none
    else if c = 48 then
      if go then
        -- Go: \0 and up to two more octal digits
        match r with
        | a :: b :: r' =>
          if 48 ≤ a ∧ a ≤ 55 then
            (if 48 ≤ b ∧ b ≤ 55 then some (.lit ((a - 48) * 8 + (b - 48)), r') else some (.lit (a - 48), b :: r'))
          else some (.nul, r)
        | [a] => if 48 ≤ a ∧ a ≤ 55 then some (.lit (a - 48), []) else some (.nul, r)
        | [] => some (.nul, r)
      else
        match r with
        | a :: _ => if isDigitC a then none else some (.nul, r)
        | [] => some (.nul, r)
    else if 49 ≤ c ∧ c ≤ 55 ∧ go then
      -- Go: \1–\7 followed by an octal digit is an octal escape (up to three digits)
      match r with
      | a :: r' =>
        if 48 ≤ a ∧ a ≤ 55 then
          match r' with
          | b :: r'' => if 48 ≤ b ∧ b ≤ 55 then some (.lit (((c - 48) * 8 + (a - 48)) * 8 + (b - 48)), r'')
                        else some (.lit ((c - 48) * 8 + (a - 48)), r')
          | [] => some (.lit ((c - 48) * 8 + (a - 48)), [])
        else none
      | [] => none
    else if go then
      (if c < 128 ∧ !isLetter c ∧ !isDigitC c then some (.ident c, r) else none)
    else
      -- ES5 IdentityEscape: SourceCharacter but not IdentifierPart (ASCII part; others: caller's assumption)
      (if isLetter c ∨ isDigitC c ∨ c = 95 then none else some (.ident c, r))

def clsOfLetter (c : Nat) : Option ClsK :=
  if c = 100 then some .d else if c = 68 then some .D else if c = 115 then some .s else if c = 83 then some .S
  else if c = 119 then some .w else if c = 87 then some .W else none

/-- one ClassAtom; `none` = error -/
def parseClassAtom (go : Bool) (cs : List Nat) : Option (CAtom × List Nat) :=
  match cs with
  | [] => none
  | 92 :: c :: r =>
    match clsOfLetter c with
    | some k => some (.cls k, r)
    | none =>
      if c = 98 ∧ !go then some (.bs, r)
      else match parseCharEscape go (c :: r) with
        | some (sp, r') => some (.ch sp, r')
        | none => none
  | [92] => none
  | c :: r => some (.ch (.lit c), r)

/-- items up to the closing `]`;  `first` = no item read yet (Go: a leading `]` is literal) -/
def parseItems (go : Bool) : Nat → Bool → List Nat → Option (List CItem × List Nat)
  | 0, _, _ => none
  | _ + 1, _, [] => none
  | n + 1, first, c :: cs =>
    if c = 93 ∧ !(go ∧ first) then some ([], cs)
    else if go ∧ c = 91 ∧ cs.head? = some 58 then none            -- [: … :] POSIX class: not modelled
    else
      match parseClassAtom go (c :: cs) with
      | none => none
      | some (a, r) =>
        if go ∧ a.isCls then (parseItems go n false r).map fun (is, t) => (.one a :: is, t) else
        match r with
        | 45 :: r1 =>
          match r1 with
          | 93 :: _ =>                                  -- `a-]` : the `-` is a literal
            (parseItems go n false r1).map fun (is, t) => (.one a :: .one (.ch (.lit 45)) :: is, t)
          | _ =>
            match parseClassAtom go r1 with
            | none => none
            | some (b, r2) =>
              if a.isCls ∨ b.isCls then none
              else if a.pt > b.pt then none
              else (parseItems go n false r2).map fun (is, t) => (.range a b :: is, t)
        | _ => (parseItems go n false r).map fun (is, t) => (.one a :: is, t)

def mkSeq (a b : Re) : Re :=
  match a, b with
  | .empty, b => b
  | a, .empty => a
  | a, b => .seq a b

/-- combine possibly-opaque subtrees -/
def comb (f : Re → Re → Re) (a b : Option Re) : Option Re :=
  match a, b with
  | some a, some b => some (f a b)
  | _, _ => none

mutual
/-- Disjunction, up to `)` or end of input (not consumed) -/
def parseDisj (go : Bool) : Nat → List Nat → P
  | 0, _ => none
  | n + 1, cs =>
    match parseAlt go n cs false with
    | none => none
    | some (a, 124 :: r) =>
      match parseDisj go n r with
      | none => none
      | some (b, r') => some (comb .alt a b, r')
    | some (a, r) => some (a, r)

/-- Alternative = Term*;  `hp` = a term precedes in this alternative (Go: a flag group `(?i)` pushes
    nothing, so a quantifier after it applies to the preceding term, if any) -/
def parseAlt (go : Bool) : Nat → List Nat → Bool → P
  | 0, _, _ => none
  | _ + 1, [], _ => some (some .empty, [])
  | n + 1, c :: cs, hp =>
    if c = 124 ∨ c = 41 then some (some .empty, c :: cs)
    else
      match parseTerm go n (c :: cs) hp with
      | none => none
      | some (t, r) =>
        match parseAlt go n r true with
        | none => none
        | some (rest, r') => some (comb mkSeq t rest, r')

/-- Term = Assertion | Atom Quantifier? -/
def parseTerm (go : Bool) : Nat → List Nat → Bool → P
  | 0, _, _ => none
  | n + 1, cs, hp =>
    -- the atom (or assertion); `qok` = may take a quantifier
    let atom : Option (Option Re × List Nat × Bool) :=
      match cs with
      | [] => none
      | 94 :: r => some (some .bol, r, go)
      | 36 :: r => some (some .eol, r, go)
      | 46 :: r => some (some .dot, r, true)
      | 40 :: 63 :: 58 :: r =>
        match parseDisj go n r with
        | some (d, 41 :: r') => some (d.map .ncgroup, r', true)
        | _ => none
      | 40 :: 63 :: k :: r =>
        if (k = 61 ∨ k = 33) ∧ !go then
          match parseDisj go n r with
          | some (d, 41 :: r') => some (d.map (.look (k = 33)), r', false)
          | _ => none
        else if go then
          -- (?flags) (?flags:…) (?P<name>…) (?<name>…): accepted by Go, not modelled
          let rec flags : List Nat → Option (Bool × List Nat)      -- (hasBody, rest)
            | 41 :: t => some (false, t)
            | 58 :: t => some (true, t)
            | f :: t => if f = 105 ∨ f = 109 ∨ f = 115 ∨ f = 85 ∨ f = 45 then flags t else none
            | [] => none
          let rec name : List Nat → Option (List Nat)
            | 62 :: t => some t
            | f :: t => if isLetter f ∨ isDigitC f ∨ f = 95 then name t else none
            | [] => none
          let body (t : List Nat) : Option (Option Re × List Nat × Bool) :=
            match parseDisj go n t with
            | some (_, 41 :: r') => some (none, r', true)
            | _ => none
          if k = 80 then
            match r with
            | 60 :: l :: t => if l = 62 then none else match name (l :: t) with | some t' => body t' | none => none
            | _ => none
          else if k = 60 then
            match r with
            | l :: t => if l = 62 then none else match name (l :: t) with | some t' => body t' | none => none
            | _ => none
          else
            match flags (k :: r) with
            | some (false, t) => if k = 45 ∧ r.head? = some 41 then none else some (none, t, hp)
            | some (true, t) => if k = 45 ∧ r.head? = some 58 then none else body t
            | none => none
        else none
      | 40 :: r =>
        if r.head? = some 63 then none else
        match parseDisj go n r with
        | some (d, 41 :: r') => some (d.map .group, r', true)
        | _ => none
      | 41 :: _ => none
      | 91 :: 94 :: r =>
        match parseItems go (r.length + 1) true r with
        | some (is, r') => some (some (.set true is), r', true)
        | none => none
      | 91 :: r =>
        match parseItems go (r.length + 1) true r with
        | some (is, r') => some (some (.set false is), r', true)
        | none => none
      | 92 :: c :: r =>
        if c = 98 then some (some .wordb, r, go)
        else if c = 66 then some (some .nwordb, r, go)
        else match clsOfLetter c with
          | some k => some (some (.cls k), r, true)
          | none =>
            if 49 ≤ c ∧ c ≤ 57 ∧ !go then
              let (_, r') := takeDigits r
              some (some (.backref c), r', true)
            else if go ∧ (c = 65 ∨ c = 122) then some (none, r, true)                 -- \A \z
            else match parseCharEscape go (c :: r) with
              | some (sp, r') => some (some (.ch sp), r', true)
              | none => none
      | [92] => none
      | c :: r =>
        if c = 42 ∨ c = 43 ∨ c = 63 then none                         -- nothing to repeat
        else if c = 123 then
          (if go then (match parseBraces go r with | some _ => none | none => some (some (.ch (.lit c)), r, true)) else none)
        else if (c = 125 ∨ c = 93) ∧ !go then none
        else some (some (.ch (.lit c)), r, true)
    match atom with
    | none => none
    | some (a, r, qok) =>
      match parseQuant go r with
      | .none => some (a, r)
      | .bad => none
      | .some q lz r' =>
        if !qok then none
        else if startsQuant go r' then none                            -- `a**`, `a+{2}` …
        else some (a.map fun a => .quant a q lz, r')
end

def Quant.isRepeat : Quant → Bool
  | .rep _ | .repFrom _ | .repRange _ _ => true
  | _ => false

def qMin : Quant → Nat
  | .rep n | .repFrom n | .repRange n _ => decVal n
  | .plus => 1 | _ => 0
def qMax : Quant → Option Nat
  | .rep n => some (decVal n) | .repRange _ m => some (decVal m) | .opt => some 1 | _ => none

/-- regexp/syntax parse.go:451 repeatIsValid -/
def repeatIsValid : Re → Nat → Bool
  | .quant b q _, n =>
    if q.isRepeat then
      if qMax q = some 0 then true else
      let mv := (qMax q).getD (qMin q)
      if mv > n then false else repeatIsValid b (if mv > 0 then n / mv else n)
    else repeatIsValid b n
  | .group r, n | .ncgroup r, n | .look _ r, n => repeatIsValid r n
  | .seq a b, n | .alt a b, n => repeatIsValid a n && repeatIsValid b n
  | _, _ => true

/-- parse.go:435: every `{n,m}` with n ≥ 2 or m ≥ 2 is checked when it is built: nested counts may
    multiply to at most 1000 -/
def goRepeatOk : Re → Bool
  | .quant b q l =>
    goRepeatOk b &&
    (if q.isRepeat ∧ (qMin q ≥ 2 ∨ (qMax q).getD 0 ≥ 2) then repeatIsValid (.quant b q l) 1000 else true)
  | .group r | .ncgroup r | .look _ r => goRepeatOk r
  | .seq a b | .alt a b => goRepeatOk a && goRepeatOk b
  | _ => true

/-- whole pattern -/
def parsePattern (go : Bool) (p : List Nat) : PRes :=
  match parseDisj go (3 * p.length + 6) p with
  | some (some r, []) => .ok r
  | some (none, []) => .opaque
  | _ => .err

end OttoVerif.C10
