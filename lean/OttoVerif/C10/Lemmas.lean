/-
  C10/Lemmas — helper lemmas for the translation theorems (C10/Theorems).
  Part 1: the scanner consumes input (length lemmas), so `length + 1` fuel is always enough
  (fuel irrelevance); part 2: what scanEscape does on each spelling; part 3: the main induction.
-/
import OttoVerif.C10.Transform
namespace OttoVerif.C10.Lem
open OttoVerif.C10 OttoVerif.C10.Model

/-! ## part 1 -/

theorem octLoop_len : ∀ (l : List Nat) v n, (octLoop l v n).2.2.length ≤ l.length := by
  intro l; induction l with
  | nil => intro v n; simp [octLoop]
  | cons c cs ih =>
    intro v n; unfold octLoop; split
    · simp
    · split
      · exact Nat.le_succ_of_le (ih _ _)
      · simp

theorem decLoop_len : ∀ (l : List Nat), (decLoop l).2.length ≤ l.length := by
  intro l; induction l with
  | nil => simp [decLoop]
  | cons c cs ih =>
    unfold decLoop; split
    · exact Nat.le_succ_of_le ih
    · simp

theorem hexLoop_len : ∀ n (l : List Nat), (hexLoop n l).2.1.length ≤ l.length := by
  intro n; induction n with
  | zero => intro l; simp [hexLoop]
  | succ n ih =>
    intro l; cases l with
    | nil => simp [hexLoop]
    | cons c cs =>
      unfold hexLoop; split
      · exact Nat.le_succ_of_le (ih cs)
      · simp

theorem scanEscape_len (idc : Nat → Bool) (ic : Bool) (inp : List Nat) (st : St) :
    (scanEscape idc ic inp st).2.length ≤ inp.length := by
  unfold scanEscape
  cases inp with
  | nil => simp
  | cons c cs =>
    have h1 := octLoop_len (c :: cs) 0 0
    have h2 := decLoop_len (c :: cs)
    have h3 := hexLoop_len 2 cs
    have h4 := hexLoop_len 4 cs
    simp only [List.length_cons] at *
    repeat' split
    all_goals (try simp_all)
    all_goals (first | omega | exact Nat.le_succ_of_le h3 | exact Nat.le_succ_of_le h4)

attribute [local irreducible] scanEscape in
theorem scanBracket_len (idc : Nat → Bool) : ∀ n (inp : List Nat) (st : St),
    (scanBracket idc n inp st).2.length ≤ inp.length := by
  intro n; induction n with
  | zero => intro inp st; simp [scanBracket]
  | succ n ih =>
    intro inp st
    cases inp with
    | nil => simp [scanBracket]
    | cons c cs =>
      unfold scanBracket
      split
      · simp
      · split
        · have h := scanEscape_len idc true cs st
          have := ih (scanEscape idc true cs st).2 (scanEscape idc true cs st).1
          simp only [List.length_cons]; omega
        · have := ih cs (st.emit [c]); simp only [List.length_cons]; omega

attribute [local irreducible] scanEscape in
theorem scanBracket_irrel (idc : Nat → Bool) : ∀ n1 n2 (inp : List Nat) (st : St),
    inp.length < n1 → inp.length < n2 → scanBracket idc n1 inp st = scanBracket idc n2 inp st := by
  intro n1; induction n1 with
  | zero => intro n2 inp st h; omega
  | succ n1 ih =>
    intro n2 inp st h1 h2
    cases n2 with
    | zero => omega
    | succ n2 =>
      cases inp with
      | nil => simp [scanBracket]
      | cons c cs =>
        simp only [List.length_cons] at h1 h2
        unfold scanBracket
        split
        · rfl
        · split
          · have h := scanEscape_len idc true cs st
            exact ih n2 _ _ (by omega) (by omega)
          · exact ih n2 _ _ (by omega) (by omega)

theorem stripZeros_len : ∀ l : List Nat, (stripZeros l).length ≤ l.length := by
  intro l; induction l with
  | nil => simp [stripZeros]
  | cons c cs ih => unfold stripZeros; split <;> simp <;> omega

theorem passDigits_len : ∀ l : List Nat, (passDigits l).2.length ≤ l.length := by
  intro l; induction l with
  | nil => simp [passDigits]
  | cons c cs ih => unfold passDigits; split <;> simp <;> omega

theorem scanRepeat_len : ∀ f (inp : List Nat) (st : St), (scanRepeat f inp st).2.length ≤ inp.length := by
  intro f; induction f with
  | zero => intro inp st; simp [scanRepeat]
  | succ f ih =>
    intro inp st
    have h1 := stripZeros_len inp
    have h2 := passDigits_len (stripZeros inp)
    unfold scanRepeat
    cases hp : passDigits (stripZeros inp) with
    | mk ds r =>
      rw [hp] at h2
      simp only at h2 ⊢
      split
      · rename_i r' 
        have := ih r' (st.emit (ds ++ [44]))
        simp at h2; omega
      · simp only; omega

theorem scanRepeat0_len (inp : List Nat) (st : St) : (scanRepeat0 inp st).2.length ≤ inp.length := by
  unfold scanRepeat0
  split
  · exact scanRepeat_len _ inp st
  · simp

def noDig (k : List Nat) : Prop := nextIsDigit k = false

theorem stripZ_digits : ∀ n : List Nat, n.all isDigitC = true → (stripZ n).all isDigitC = true := by
  intro n; induction n with
  | nil => intro _; rfl
  | cons c cs ih =>
    intro h
    cases cs with
    | nil => simpa [stripZ] using h
    | cons d ds =>
      simp only [stripZ]
      split
      · exact ih (by simp at h ⊢; exact h.2)
      · exact h

theorem stripZeros_digits : ∀ (n k : List Nat), n ≠ [] → n.all isDigitC = true → noDig k → stripZeros (n ++ k) = stripZ n ++ k := by
  intro n; induction n with
  | nil => intro k h; exact absurd rfl h
  | cons c cs ih =>
    intro k _ hd hk
    simp at hd
    cases cs with
    | nil =>
      simp only [List.cons_append, List.nil_append, stripZ, stripZeros]
      rw [if_neg (by intro h; rw [hk] at h; simp at h)]
    | cons d ds =>
      simp only [List.cons_append, stripZ, stripZeros]
      have hdd : nextIsDigit (d :: (ds ++ k)) = true := by simp [nextIsDigit]; exact hd.2 d (by simp)
      by_cases hc : c = 48
      · rw [if_pos ⟨hc, hdd⟩, if_pos hc]
        exact ih k (by simp) (by rw [List.all_eq_true]; exact hd.2) hk
      · rw [if_neg (by intro h; exact hc h.1), if_neg hc]; simp

theorem passDigits_digits : ∀ (n k : List Nat), n.all isDigitC = true → noDig k → passDigits (n ++ k) = (n, k) := by
  intro n; induction n with
  | nil =>
    intro k _ hk
    cases k with
    | nil => rfl
    | cons c cs => simp [noDig, nextIsDigit] at hk; simp [passDigits, hk]
  | cons c cs ih =>
    intro k hd hk
    simp at hd
    simp only [List.cons_append, passDigits, hd.1, if_true, ih k (by simpa using hd.2) hk]

theorem stripZ_ne_nil : ∀ n : List Nat, n ≠ [] → stripZ n ≠ [] := by
  intro n; induction n with
  | nil => intro h; exact absurd rfl h
  | cons c cs ih =>
    intro _
    cases cs with
    | nil => simp [stripZ]
    | cons d ds => simp only [stripZ]; split; exact ih (by simp); simp

theorem scanBracket0_len (idc : Nat → Bool) (n : Nat) (inp : List Nat) (st : St) :
    (scanBracket0 idc n inp st).2.length ≤ inp.length := by
  unfold scanBracket0
  split
  · simp
  · simp; omega
  · exact scanBracket_len idc n inp st

theorem scanBracket0_irrel (idc : Nat → Bool) (n1 n2 : Nat) (inp : List Nat) (st : St)
    (h1 : inp.length < n1) (h2 : inp.length < n2) : scanBracket0 idc n1 inp st = scanBracket0 idc n2 inp st := by
  unfold scanBracket0
  split
  · rfl
  · rfl
  · exact scanBracket_irrel idc n1 n2 inp st h1 h2

attribute [local irreducible] scanEscape scanBracket0 scanRepeat0 in
theorem loop_len (idc : Nat → Bool) : ∀ n top (inp : List Nat) (st : St),
    (loop idc top n inp st).2.length ≤ inp.length := by
  intro n; induction n with
  | zero => intro top inp st; simp [loop]
  | succ n ih =>
    intro top inp st
    cases inp with
    | nil => unfold loop; split <;> simp
    | cons c cs =>
      unfold loop
      simp only [List.length_cons]
      split
      · have h := scanEscape_len idc false cs st
        have := ih top (scanEscape idc false cs st).2 (scanEscape idc false cs st).1
        omega
      · split
        · have h := ih false cs (lookCheck cs (st.emit [40]))
          have := ih top (loop idc false n cs (lookCheck cs (st.emit [40]))).2 (loop idc false n cs (lookCheck cs (st.emit [40]))).1
          omega
        · split
          · have h := scanBracket0_len idc n cs (st.emit [91])
            have := ih top (scanBracket0 idc n cs (st.emit [91])).2 (scanBracket0 idc n cs (st.emit [91])).1
            omega
          · split
            · split
              · have := ih true cs (st.bad.emit [41]); omega
              · simp
            · split
              · have h := scanRepeat0_len cs (st.emit [123])
                have := ih top (scanRepeat0 cs (st.emit [123])).2 (scanRepeat0 cs (st.emit [123])).1
                omega
              · have := ih top cs (st.emit [c]); omega

attribute [local irreducible] scanEscape scanBracket0 scanRepeat0 in
theorem loop_irrel (idc : Nat → Bool) : ∀ n1 n2 top (inp : List Nat) (st : St),
    inp.length < n1 → inp.length < n2 → loop idc top n1 inp st = loop idc top n2 inp st := by
  intro n1; induction n1 with
  | zero => intro n2 top inp st h; omega
  | succ n1 ih =>
    intro n2 top inp st h1 h2
    cases n2 with
    | zero => omega
    | succ n2 =>
      cases inp with
      | nil => simp [loop]
      | cons c cs =>
        simp only [List.length_cons] at h1 h2
        unfold loop
        split
        · have h := scanEscape_len idc false cs st
          exact ih n2 _ _ _ (by omega) (by omega)
        · split
          · have e := ih n2 false cs (lookCheck cs (st.emit [40])) (by omega) (by omega)
            have h := loop_len idc n1 false cs (lookCheck cs (st.emit [40]))
            rw [← e]
            exact ih n2 _ _ _ (by omega) (by omega)
          · split
            · have e := scanBracket0_irrel idc n1 n2 cs (st.emit [91]) (by omega) (by omega)
              have h := scanBracket0_len idc n1 cs (st.emit [91])
              rw [← e]
              exact ih n2 _ _ _ (by omega) (by omega)
            · split
              · split
                · exact ih n2 _ _ _ (by omega) (by omega)
                · rfl
              · split
                · have h := scanRepeat0_len cs (st.emit [123])
                  exact ih n2 _ _ _ (by omega) (by omega)
                · exact ih n2 _ _ _ (by omega) (by omega)

/-! ## part 2 -/

def noDigitStart : List Nat → Bool
  | c :: _ => !isDigitC c
  | [] => true

theorem punct_facts (c : Nat) (h : isPunct c = true) :
    c < 128 ∧ ¬ (48 ≤ c ∧ c ≤ 57) ∧ ¬ (97 ≤ c ∧ c ≤ 122) ∧ ¬ (65 ≤ c ∧ c ≤ 90) ∧ c ≠ 95 := by
  simp [isPunct, isLetter, isDigitC] at h
  omega

theorem scanEscape_ident (idc : Nat → Bool) (ic : Bool) (c : Nat) (h : isPunct c = true) (k : List Nat) (st : St) :
    scanEscape idc ic (c :: k) st = (st.emit [92, c], k) := by
  obtain ⟨h1, h2, h3, h4, h5⟩ := punct_facts c h
  by_cases h92 : c = 92
  · subst h92; simp [scanEscape]
  · by_cases h36 : c = 36
    · subst h36; simp [scanEscape]
    · have hid : isIdentifierPart idc c = false := by
        simp [isIdentifierPart]; omega
      unfold scanEscape
      simp only
      rw [if_neg (by omega), if_neg (by omega), if_neg (by omega), if_neg (by omega)]
      split
      · rfl
      · rw [if_neg (by omega), if_pos (by simp [hid]; omega)]

theorem scanEscape_ctl (idc : Nat → Bool) (ic : Bool) (c : Nat) (h : c = 102 ∨ c = 110 ∨ c = 114 ∨ c = 116 ∨ c = 118) (k : List Nat) (st : St) :
    scanEscape idc ic (c :: k) st = (st.emit [92, c], k) := by
  rcases h with h | h | h | h | h <;> subst h <;> simp [scanEscape]

theorem hexLoop2 (h1 h0 : Nat) (a : isHexC h1 = true) (b : isHexC h0 = true) (k : List Nat) :
    hexLoop 2 (h1 :: h0 :: k) = ([h1, h0], k, true) := by
  simp [isHexC] at a b
  simp [hexLoop, digitValue, a, b]

theorem hexLoop4 (h3 h2 h1 h0 : Nat) (a : isHexC h3 = true) (b : isHexC h2 = true) (c : isHexC h1 = true) (d : isHexC h0 = true) (k : List Nat) :
    hexLoop 4 (h3 :: h2 :: h1 :: h0 :: k) = ([h3, h2, h1, h0], k, true) := by
  simp [isHexC] at a b c d
  simp [hexLoop, digitValue, a, b, c, d]

theorem scanEscape_hex (idc : Nat → Bool) (ic : Bool) (h1 h0 : Nat) (a : isHexC h1 = true) (b : isHexC h0 = true) (k : List Nat) (st : St) :
    scanEscape idc ic (120 :: h1 :: h0 :: k) st = (st.emit [92, 120, h1, h0], k) := by
  simp [scanEscape, hexLoop2 h1 h0 a b]

theorem scanEscape_uni (idc : Nat → Bool) (ic : Bool) (h3 h2 h1 h0 : Nat) (a : isHexC h3 = true) (b : isHexC h2 = true)
    (c : isHexC h1 = true) (d : isHexC h0 = true) (k : List Nat) (st : St) :
    scanEscape idc ic (117 :: h3 :: h2 :: h1 :: h0 :: k) st = (st.emit [92, 120, 123, h3, h2, h1, h0, 125], k) := by
  simp [scanEscape, hexLoop4 h3 h2 h1 h0 a b c d]

theorem ctrl_table : ∀ l < 128, isLetter l = true →
    (if 97 ≤ l ∧ l ≤ 122 then hexEsc (l - 97 + 1) else hexEsc (l - 65 + 1)) = CharSp.go (.ctrl l) := by
  decide

theorem scanEscape_ctrl (idc : Nat → Bool) (ic : Bool) (l : Nat) (h : isLetter l = true) (k : List Nat) (st : St) :
    scanEscape idc ic (99 :: l :: k) st = (st.emit (CharSp.go (.ctrl l)), k) := by
  have hl : l < 128 := by simp [isLetter] at h; omega
  have t := ctrl_table l hl h
  simp [isLetter] at h
  unfold scanEscape
  simp only
  rw [if_neg (by omega), if_neg (by omega), if_neg (by omega), if_neg (by simp), if_neg (by omega)]
  simp only [if_true]
  by_cases hlow : 97 ≤ l ∧ l ≤ 122
  · rw [if_pos hlow]; rw [if_pos hlow] at t; rw [t]
  · rw [if_neg hlow, if_pos (by omega)]; rw [if_neg hlow] at t; rw [t]

/-! ## part 3 -/

theorem octLoop_stop (k : List Nat) (v n : Nat) (h : noDigitStart k = true) : octLoop k v n = (v, n, k) := by
  cases k with
  | nil => rfl
  | cons c cs =>
    simp [noDigitStart, isDigitC] at h
    unfold octLoop
    have : ¬ digitValue c < 8 := by
      simp only [digitValue, hexVal]; split <;> (try split) <;> (try split) <;> omega
    rw [if_neg this]
    split <;> rfl

theorem decLoop_stop (k : List Nat) (h : noDigitStart k = true) : decLoop k = ([], k) := by
  cases k with
  | nil => rfl
  | cons c cs =>
    simp [noDigitStart, isDigitC] at h
    unfold decLoop
    have : ¬ digitValue c < 10 := by
      simp only [digitValue, hexVal]; split <;> (try split) <;> (try split) <;> omega
    rw [if_neg this]

theorem scanEscape_nul (idc : Nat → Bool) (ic : Bool) (k : List Nat) (st : St) (h : noDigitStart k = true) :
    scanEscape idc ic (48 :: k) st = (st.emit [92, 48], k) := by
  unfold scanEscape
  simp only
  rw [if_pos (by omega)]
  have : octLoop (48 :: k) 0 0 = (0, 1, k) := by
    unfold octLoop
    rw [if_neg (by omega), if_pos (by simp [digitValue, hexVal])]
    simpa [digitValue, hexVal] using octLoop_stop k 0 1 h
  rw [this]
  simp

theorem scanEscape_backref (idc : Nat → Bool) (ic : Bool) (d : Nat) (hd : 49 ≤ d ∧ d ≤ 57) (k : List Nat) (st : St)
    (h : noDigitStart k = true) :
    scanEscape idc ic (d :: k) st = ((st.emit [92, d]).fail, k) := by
  unfold scanEscape
  simp only
  by_cases h7 : d ≤ 55
  · rw [if_pos (by omega)]
    have hv : digitValue d = d - 48 := by
      simp only [digitValue, hexVal]; rw [if_pos (by omega)]
    have : octLoop (d :: k) 0 0 = (d - 48, 1, k) := by
      unfold octLoop
      rw [if_neg (by omega), if_pos (by rw [hv]; omega)]
      simpa [hv] using octLoop_stop k (d - 48) 1 h
    rw [this]
    simp only [if_true]
    rw [if_pos (by omega)]
    have : (d - 48) % 256 + 48 = d := by omega
    rw [this]
  · rw [if_neg (by omega), if_pos (by omega)]
    have hv : digitValue d = d - 48 := by
      simp only [digitValue, hexVal]; rw [if_pos (by omega)]
    have : decLoop (d :: k) = ([d], k) := by
      unfold decLoop
      rw [if_pos (by rw [hv]; omega)]
      rw [decLoop_stop k h]
    rw [this]

theorem scanEscape_letter (idc : Nat → Bool) (c : Nat)
    (h : c = 98 ∨ c = 66 ∨ c = 100 ∨ c = 68 ∨ c = 115 ∨ c = 83 ∨ c = 119 ∨ c = 87) (k : List Nat) (st : St) :
    scanEscape idc false (c :: k) st = (st.emit [92, c], k) := by
  rcases h with h | h | h | h | h | h | h | h <;> subst h <;> simp [scanEscape]

theorem scanEscape_cls_in (idc : Nat → Bool) (kk : ClsK) (k : List Nat) (st : St) :
    scanEscape idc true (kk.letter :: k) st = (st.emit [92, kk.letter], k) := by
  cases kk <;> simp [scanEscape, ClsK.letter]

theorem scanEscape_bs_in (idc : Nat → Bool) (k : List Nat) (st : St) :
    scanEscape idc true (98 :: k) st = (st.emit [92, 120, 48, 56], k) := by
  simp [scanEscape]

/-- every escaped spelling: the scanner emits exactly the Go spelling -/
theorem scanEscape_sp (idc : Nat → Bool) (ic : Bool) (sp : CharSp) (hwf : sp.wf = true) (body : List Nat)
    (hb : sp.es5 = 92 :: body) (k : List Nat) (st : St) (hk : sp = .nul → noDigitStart k = true) :
    scanEscape idc ic (body ++ k) st = (st.emit sp.go, k) := by
  cases sp with
  | lit c =>
    simp [CharSp.es5] at hb
    obtain ⟨rfl, _⟩ := hb
    simp [CharSp.wf, isSyntaxChar] at hwf
  | ident c =>
    simp [CharSp.es5] at hb; subst hb
    exact scanEscape_ident idc ic c (by simpa [CharSp.wf] using hwf) k st
  | ctl c =>
    simp [CharSp.es5] at hb; subst hb
    exact scanEscape_ctl idc ic c (by simpa [CharSp.wf] using hwf) k st
  | ctrl l =>
    simp [CharSp.es5] at hb; subst hb
    exact scanEscape_ctrl idc ic l (by simpa [CharSp.wf] using hwf) k st
  | hex h1 h0 =>
    simp [CharSp.es5] at hb; subst hb
    simp [CharSp.wf] at hwf
    exact scanEscape_hex idc ic h1 h0 hwf.1 hwf.2 k st
  | uni h3 h2 h1 h0 =>
    simp [CharSp.es5] at hb; subst hb
    simp [CharSp.wf] at hwf
    exact scanEscape_uni idc ic h3 h2 h1 h0 hwf.1 hwf.2.1 hwf.2.2.1 hwf.2.2.2 k st
  | nul =>
    simp [CharSp.es5] at hb; subst hb
    exact scanEscape_nul idc ic k st (hk rfl)

/-- state after emitting `o` and (if `e`) recording an error -/
def adv (st : St) (o : List Nat) (e : Bool) : St := { out := st.out ++ o, err := st.err || e, inv := st.inv }

@[simp] theorem emit_adv (st : St) (o : List Nat) : st.emit o = adv st o false := by
  simp [St.emit, adv]
@[simp] theorem adv_adv (st : St) (a b : List Nat) (e f : Bool) : adv (adv st a e) b f = adv st (a ++ b) (e || f) := by
  simp [adv, Bool.or_assoc]
@[simp] theorem fail_adv (st : St) (a : List Nat) (e : Bool) : (adv st a e).fail = adv st a true := by
  simp [St.fail, adv]
theorem adv_nil (st : St) : adv st [] false = st := by
  cases st; simp [adv]

def plain (c : Nat) : Bool := c ≠ 92 ∧ c ≠ 40 ∧ c ≠ 91 ∧ c ≠ 41 ∧ c ≠ 123

attribute [local irreducible] scanEscape scanRepeat0 in
theorem loop_plain1 (idc : Nat → Bool) (top : Bool) (n c : Nat) (k : List Nat) (st : St) (hc : plain c = true)
    (hn : (c :: k).length < n) : loop idc top n (c :: k) st = loop idc top n k (adv st [c] false) := by
  simp [plain] at hc
  cases n with
  | zero => simp at hn
  | succ m =>
    simp only [List.length_cons] at hn
    conv => lhs; unfold loop
    rw [if_neg hc.1, if_neg hc.2.1, if_neg hc.2.2.1, if_neg hc.2.2.2.1, if_neg hc.2.2.2.2]
    rw [emit_adv]
    exact loop_irrel idc m (m + 1) top k _ (by omega) (by omega)

theorem loop_plain (idc : Nat → Bool) (top : Bool) : ∀ (cs : List Nat) (n : Nat) (k : List Nat) (st : St), cs.all plain = true →
    (cs ++ k).length < n → loop idc top n (cs ++ k) st = loop idc top n k (adv st cs false) := by
  intro cs; induction cs with
  | nil => intro n k st _ _; simp [adv_nil]
  | cons c cs ih =>
    intro n k st hc hn
    simp at hc
    simp only [List.cons_append] at hn ⊢
    rw [loop_plain1 idc top n c (cs ++ k) st hc.1 hn]
    rw [ih n k _ (by simpa using hc.2) (by simp at hn ⊢; omega)]
    simp

attribute [local irreducible] scanEscape scanRepeat0 in
theorem loop_esc (idc : Nat → Bool) (top : Bool) (n : Nat) (body : List Nat) (st st' : St) (rest : List Nat)
    (h : scanEscape idc false body st = (st', rest)) (hn : (92 :: body).length < n) :
    loop idc top n (92 :: body) st = loop idc top n rest st' := by
  cases n with
  | zero => simp at hn
  | succ m =>
    simp only [List.length_cons] at hn
    conv => lhs; unfold loop
    rw [if_pos rfl, h]
    have := scanEscape_len idc false body st
    rw [h] at this
    exact loop_irrel idc m (m + 1) top rest _ (by simp at this; omega) (by simp at this; omega)

attribute [local irreducible] scanEscape scanRepeat0 in
theorem loop_group (idc : Nat → Bool) (top : Bool) (n : Nat) (inner : List Nat) (st st' : St) (rest : List Nat)
    (h : loop idc false n inner (lookCheck inner (adv st [40] false)) = (st', rest)) (hn : (40 :: inner).length < n) :
    loop idc top n (40 :: inner) st = loop idc top n rest st' := by
  cases n with
  | zero => simp at hn
  | succ m =>
    simp only [List.length_cons] at hn
    conv => lhs; unfold loop
    rw [if_neg (by decide), if_pos rfl, emit_adv]
    rw [loop_irrel idc m (m + 1) false inner _ (by omega) (by omega), h]
    have := loop_len idc (m + 1) false inner (lookCheck inner (adv st [40] false))
    rw [h] at this
    exact loop_irrel idc m (m + 1) top rest _ (by simp at this; omega) (by simp at this; omega)

attribute [local irreducible] scanEscape scanBracket0 scanRepeat0 in
theorem loop_bracket (idc : Nat → Bool) (top : Bool) (n : Nat) (inner : List Nat) (st st' : St) (rest : List Nat)
    (h : scanBracket0 idc n inner (adv st [91] false) = (st', rest)) (hn : (91 :: inner).length < n) :
    loop idc top n (91 :: inner) st = loop idc top n rest st' := by
  cases n with
  | zero => simp at hn
  | succ m =>
    simp only [List.length_cons] at hn
    conv => lhs; unfold loop
    rw [if_neg (by decide), if_neg (by decide), if_pos rfl, emit_adv]
    rw [scanBracket0_irrel idc m (m + 1) inner _ (by omega) (by omega), h]
    have := scanBracket0_len idc (m + 1) inner (adv st [91] false)
    rw [h] at this
    exact loop_irrel idc m (m + 1) top rest _ (by simp at this; omega) (by simp at this; omega)

theorem loop_close (idc : Nat → Bool) (n : Nat) (k : List Nat) (st : St) (hn : 0 < n) :
    loop idc false n (41 :: k) st = (adv st [41] false, k) := by
  cases n with
  | zero => omega
  | succ m =>
    unfold loop
    rw [if_neg (by decide), if_neg (by decide), if_neg (by decide), if_pos rfl]
    simp

attribute [local irreducible] scanEscape in
theorem br_plain1 (idc : Nat → Bool) (n c : Nat) (k : List Nat) (st : St) (h1 : c ≠ 93) (h2 : c ≠ 92)
    (hn : (c :: k).length < n) : scanBracket idc n (c :: k) st = scanBracket idc n k (adv st [c] false) := by
  cases n with
  | zero => simp at hn
  | succ m =>
    simp only [List.length_cons] at hn
    conv => lhs; unfold scanBracket
    rw [if_neg h1, if_neg h2, emit_adv]
    exact scanBracket_irrel idc m (m + 1) k _ (by omega) (by omega)

attribute [local irreducible] scanEscape in
theorem br_esc (idc : Nat → Bool) (n : Nat) (body : List Nat) (st st' : St) (rest : List Nat)
    (h : scanEscape idc true body st = (st', rest)) (hn : (92 :: body).length < n) :
    scanBracket idc n (92 :: body) st = scanBracket idc n rest st' := by
  cases n with
  | zero => simp at hn
  | succ m =>
    simp only [List.length_cons] at hn
    conv => lhs; unfold scanBracket
    rw [if_neg (by decide), if_pos rfl, h]
    have := scanEscape_len idc true body st
    rw [h] at this
    exact scanBracket_irrel idc m (m + 1) rest _ (by simp at this; omega) (by simp at this; omega)

theorem br_close (idc : Nat → Bool) (n : Nat) (k : List Nat) (st : St) (hn : 0 < n) :
    scanBracket idc n (93 :: k) st = (adv st [93] false, k) := by
  cases n with
  | zero => omega
  | succ m => unfold scanBracket; simp

theorem br_sp (idc : Nat → Bool) (sp : CharSp) (hwf : sp.wf = true) (hnn : sp ≠ .nul) (body : List Nat)
    (hb : sp.es5 = 92 :: body) (n : Nat) (k : List Nat) (st : St) (hn : (92 :: (body ++ k)).length < n) :
    scanBracket idc n (92 :: (body ++ k)) st = scanBracket idc n k (adv st sp.go false) := by
  rw [br_esc idc n _ st _ k (scanEscape_sp idc true sp hwf body hb k st (fun h => absurd h hnn)) hn]
  simp

theorem br_atom (idc : Nat → Bool) (a : CAtom) (hwf : a.wf = true) (n : Nat) (k : List Nat) (st : St)
    (hn : (a.es5 ++ k).length < n) :
    scanBracket idc n (a.es5 ++ k) st = scanBracket idc n k (adv st a.go false) := by
  cases a with
  | ch sp =>
    cases sp with
    | lit c =>
      simp [CAtom.wf, CharSp.wfIn] at hwf
      simp only [CAtom.es5, CharSp.es5, CAtom.go, CharSp.go, List.cons_append, List.nil_append] at hn ⊢
      exact br_plain1 idc n c k st hwf.2.1 hwf.1 hn
    | nul => simp [CAtom.wf, CharSp.wfIn] at hwf
    | ident c =>
      have := br_sp idc (.ident c) (by simpa [CAtom.wf, CharSp.wfIn] using hwf) (by simp) [c] rfl n k st (by simpa [CAtom.es5, CharSp.es5] using hn)
      simpa [CAtom.es5, CharSp.es5, CAtom.go] using this
    | ctl c =>
      have := br_sp idc (.ctl c) (by simpa [CAtom.wf, CharSp.wfIn] using hwf) (by simp) [c] rfl n k st (by simpa [CAtom.es5, CharSp.es5] using hn)
      simpa [CAtom.es5, CharSp.es5, CAtom.go] using this
    | ctrl l =>
      have := br_sp idc (.ctrl l) (by simpa [CAtom.wf, CharSp.wfIn] using hwf) (by simp) [99, l] rfl n k st (by simpa [CAtom.es5, CharSp.es5] using hn)
      simpa [CAtom.es5, CharSp.es5, CAtom.go] using this
    | hex h1 h0 =>
      have := br_sp idc (.hex h1 h0) (by simpa [CAtom.wf, CharSp.wfIn] using hwf) (by simp) [120, h1, h0] rfl n k st (by simpa [CAtom.es5, CharSp.es5] using hn)
      simpa [CAtom.es5, CharSp.es5, CAtom.go] using this
    | uni h3 h2 h1 h0 =>
      have := br_sp idc (.uni h3 h2 h1 h0) (by simpa [CAtom.wf, CharSp.wfIn] using hwf) (by simp) [117, h3, h2, h1, h0] rfl n k st (by simpa [CAtom.es5, CharSp.es5] using hn)
      simpa [CAtom.es5, CharSp.es5, CAtom.go] using this
  | bs =>
    simp only [CAtom.es5, CAtom.go, List.cons_append, List.nil_append] at hn ⊢
    rw [br_esc idc n _ st _ k (scanEscape_bs_in idc k st) hn]
    simp
  | cls kk =>
    simp only [CAtom.es5, CAtom.go, List.cons_append, List.nil_append] at hn ⊢
    rw [br_esc idc n _ st _ k (scanEscape_cls_in idc kk k st) hn]
    simp

theorem br_item (idc : Nat → Bool) (i : CItem) (hwf : i.wf = true) (n : Nat) (k : List Nat) (st : St)
    (hn : (i.es5 ++ k).length < n) :
    scanBracket idc n (i.es5 ++ k) st = scanBracket idc n k (adv st i.go false) := by
  cases i with
  | one a => exact br_atom idc a (by simpa [CItem.wf] using hwf) n k st hn
  | range a b =>
    simp [CItem.wf] at hwf
    simp only [CItem.es5, CItem.go, List.append_assoc, List.cons_append] at hn ⊢
    rw [br_atom idc a hwf.1 n _ st hn]
    rw [br_plain1 idc n 45 _ _ (by decide) (by decide) (by simp at hn ⊢; omega)]
    rw [br_atom idc b hwf.2.1 n k _ (by simp at hn ⊢; omega)]
    simp

theorem br_items (idc : Nat → Bool) : ∀ (is : List CItem), itemsWf is = true → ∀ (n : Nat) (k : List Nat) (st : St),
    (itemsES5 is ++ k).length < n →
    scanBracket idc n (itemsES5 is ++ k) st = scanBracket idc n k (adv st (itemsGo is) false) := by
  intro is; induction is with
  | nil => intro _ n k st _; simp [itemsES5, itemsGo, adv_nil]
  | cons i is ih =>
    intro hwf n k st hn
    simp [itemsWf] at hwf
    simp only [itemsES5, itemsGo, List.append_assoc] at hn ⊢
    rw [br_item idc i hwf.1 n _ st hn]
    rw [ih hwf.2 n k _ (by simp at hn ⊢; omega)]
    simp

macro "len_omega" : tactic => `(tactic| (simp only [List.length_append, List.length_cons, List.length_nil] at *; omega))

theorem atomc_head (a : CAtom) (h : a.wf = true) : ∃ c t, a.es5 = c :: t ∧ c ≠ 93 ∧ c ≠ 94 := by
  cases a with
  | ch sp =>
    cases sp with
    | lit c => simp [CAtom.wf, CharSp.wfIn] at h; exact ⟨c, [], rfl, h.2.1, h.2.2.2.1⟩
    | _ => exact ⟨92, _, rfl, by decide, by decide⟩
  | bs => exact ⟨92, _, rfl, by decide, by decide⟩
  | cls k => exact ⟨92, _, rfl, by decide, by decide⟩

theorem item_head (i : CItem) (h : i.wf = true) : ∃ c t, i.es5 = c :: t ∧ c ≠ 93 ∧ c ≠ 94 := by
  cases i with
  | one a => exact atomc_head a (by simpa [CItem.wf] using h)
  | range a b =>
    simp [CItem.wf] at h
    obtain ⟨c, t, hc, hne⟩ := atomc_head a h.1
    exact ⟨c, t ++ 45 :: b.es5, by simp [CItem.es5, hc], hne⟩

def headOk (l : List Nat) : Prop := l.head? ≠ some 63

theorem lookCheck_headOk (l : List Nat) (st : St) (h : headOk l) : lookCheck l st = st := by
  unfold lookCheck
  split
  · simp [headOk] at h
  · rfl

theorem sp_head (sp : CharSp) (hwf : sp.wf = true) (k : List Nat) : headOk (sp.es5 ++ k) := by
  cases sp <;> simp [headOk, CharSp.es5]
  case lit c => simp [CharSp.wf, isSyntaxChar] at hwf; omega

theorem atom_head (r : Re) (hwf : r.wf = true) (ha : r.isAtom = true) (k : List Nat) : headOk (printES5 r ++ k) := by
  cases r with
  | ch sp => exact sp_head sp (by simpa [Re.wf] using hwf) k
  | dot => simp [printES5, headOk]
  | cls kk => simp [printES5, headOk]
  | set neg items => simp [printES5, headOk]
  | group r => simp [printES5, headOk]
  | ncgroup r => simp [printES5, headOk]
  | backref d => simp [printES5, headOk]
  | _ => simp [Re.isAtom] at ha

theorem pr_head : ∀ (r : Re), r.wf = true → ∀ k, headOk k → headOk (printES5 r ++ k) := by
  intro r; induction r with
  | empty => intro _ k hk; simpa [printES5] using hk
  | ch sp => intro hwf k _; exact sp_head sp (by simpa [Re.wf] using hwf) k
  | seq a b iha ihb =>
    intro hwf k hk
    simp [Re.wf] at hwf
    simp only [printES5, List.append_assoc]
    exact iha hwf.1 _ (ihb hwf.2.1 k hk)
  | alt a b iha _ =>
    intro hwf k _
    simp [Re.wf] at hwf
    simp only [printES5, List.append_assoc, List.cons_append]
    exact iha hwf.1 _ (by simp [headOk])
  | quant r q l _ =>
    intro hwf k _
    simp [Re.wf] at hwf
    simp only [printES5, List.append_assoc]
    exact atom_head r hwf.1 hwf.2.1 _
  | _ => intro _ k _; simp [printES5, headOk]

theorem noDig_125 (k : List Nat) : noDig (125 :: k) := by simp [noDig, nextIsDigit, isDigitC]
theorem noDig_44 (k : List Nat) : noDig (44 :: k) := by simp [noDig, nextIsDigit, isDigitC]

theorem pass_strip (n k : List Nat) (hn : digitsWf n = true) (hk : noDig k) :
    passDigits (stripZeros (n ++ k)) = (stripZ n, k) := by
  simp [digitsWf] at hn
  rw [stripZeros_digits n k hn.1 (by rw [List.all_eq_true]; exact hn.2) hk]
  exact passDigits_digits _ k (stripZ_digits n (by rw [List.all_eq_true]; exact hn.2)) hk

theorem pass_strip_125 (k : List Nat) : passDigits (stripZeros (125 :: k)) = ([], 125 :: k) := by
  simp [stripZeros, passDigits, isDigitC]

theorem scanRepeat_rep (n k : List Nat) (hn : digitsWf n = true) (st : St) (f : Nat) :
    scanRepeat (f + 1) (n ++ 125 :: k) st = (adv st (stripZ n) false, 125 :: k) := by
  unfold scanRepeat
  rw [pass_strip n _ hn (noDig_125 k)]
  simp

theorem scanRepeat_from (n k : List Nat) (hn : digitsWf n = true) (st : St) (f : Nat) :
    scanRepeat (f + 2) (n ++ 44 :: 125 :: k) st = (adv st (stripZ n ++ [44]) false, 125 :: k) := by
  unfold scanRepeat
  rw [pass_strip n _ hn (noDig_44 _)]
  simp only
  unfold scanRepeat
  rw [pass_strip_125]
  simp

theorem scanRepeat_range (n mm k : List Nat) (hn : digitsWf n = true) (hm : digitsWf mm = true) (st : St) (f : Nat) :
    scanRepeat (f + 2) (n ++ 44 :: (mm ++ 125 :: k)) st = (adv st (stripZ n ++ 44 :: stripZ mm) false, 125 :: k) := by
  unfold scanRepeat
  rw [pass_strip n _ hn (noDig_44 _)]
  simp only
  rw [scanRepeat_rep mm k hm]
  simp

theorem valid_rep (n k : List Nat) (hn : digitsWf n = true) : validCount (n ++ 125 :: k) = true := by
  simp [digitsWf] at hn
  unfold validCount
  rw [passDigits_digits n _ (by rw [List.all_eq_true]; exact hn.2) (noDig_125 k)]
  simp [hn.1]

theorem valid_from (n k : List Nat) (hn : digitsWf n = true) : validCount (n ++ 44 :: 125 :: k) = true := by
  simp [digitsWf] at hn
  unfold validCount
  rw [passDigits_digits n _ (by rw [List.all_eq_true]; exact hn.2) (noDig_44 _)]
  simp [hn.1, passDigits, isDigitC]

theorem valid_range (n mm k : List Nat) (hn : digitsWf n = true) (hm : digitsWf mm = true) :
    validCount (n ++ 44 :: (mm ++ 125 :: k)) = true := by
  simp [digitsWf] at hn hm
  unfold validCount
  rw [passDigits_digits n _ (by rw [List.all_eq_true]; exact hn.2) (noDig_44 _)]
  simp only [hn.1, List.isEmpty_iff, if_false]
  rw [passDigits_digits mm _ (by rw [List.all_eq_true]; exact hm.2) (noDig_125 k)]
  simp

theorem scanRepeat0_valid (inp : List Nat) (st : St) (h : validCount inp = true) :
    scanRepeat0 inp st = scanRepeat (inp.length + 1) inp st := by
  unfold scanRepeat0; rw [if_pos h]

attribute [local irreducible] scanEscape scanRepeat0 in
theorem loop_brace (idc : Nat → Bool) (top : Bool) (n : Nat) (inner : List Nat) (st st' : St) (rest : List Nat)
    (h : scanRepeat0 inner (adv st [123] false) = (st', rest)) (hn : (123 :: inner).length < n) :
    loop idc top n (123 :: inner) st = loop idc top n rest st' := by
  cases n with
  | zero => simp at hn
  | succ m =>
    simp only [List.length_cons] at hn
    conv => lhs; unfold loop
    rw [if_neg (by decide), if_neg (by decide), if_neg (by decide), if_neg (by decide), if_pos rfl, emit_adv, h]
    have := scanRepeat0_len inner (adv st [123] false)
    rw [h] at this
    exact loop_irrel idc m (m + 1) top rest _ (by simp at this; omega) (by simp at this; omega)

theorem lazy_plain (l : Bool) : (lazyText l).all plain = true := by cases l <;> simp [lazyText, plain]

/-- the scanner on a quantifier: the counts lose their leading zeros, everything else is copied -/
theorem loop_quant (idc : Nat → Bool) (top : Bool) (q : Quant) (hq : q.wf = true) (l : Bool) (n : Nat) (k : List Nat) (st : St)
    (hn : (q.text ++ (lazyText l ++ k)).length < n) :
    loop idc top n (q.text ++ (lazyText l ++ k)) st = loop idc top n k (adv st (q.textGo ++ lazyText l) false) := by
  have tail : ∀ (st0 : St) (pre : List Nat), (125 :: (lazyText l ++ k)).length < n →
      loop idc top n (125 :: (lazyText l ++ k)) (adv st0 pre false) = loop idc top n k (adv st0 (pre ++ 125 :: lazyText l) false) := by
    intro st0 pre h
    rw [loop_plain1 idc top n 125 _ _ (by decide) h]
    rw [loop_plain idc top (lazyText l) n k _ (lazy_plain l) (by simp at h ⊢; omega)]
    simp
  cases q with
  | star =>
    simp only [Quant.text, Quant.textGo, List.cons_append, List.nil_append] at hn ⊢
    rw [loop_plain1 idc top n 42 _ _ (by decide) hn, loop_plain idc top (lazyText l) n k _ (lazy_plain l) (by simp at hn ⊢; omega)]
    simp
  | plus =>
    simp only [Quant.text, Quant.textGo, List.cons_append, List.nil_append] at hn ⊢
    rw [loop_plain1 idc top n 43 _ _ (by decide) hn, loop_plain idc top (lazyText l) n k _ (lazy_plain l) (by simp at hn ⊢; omega)]
    simp
  | opt =>
    simp only [Quant.text, Quant.textGo, List.cons_append, List.nil_append] at hn ⊢
    rw [loop_plain1 idc top n 63 _ _ (by decide) hn, loop_plain idc top (lazyText l) n k _ (lazy_plain l) (by simp at hn ⊢; omega)]
    simp
  | rep c =>
    simp only [Quant.wf] at hq
    simp only [Quant.text, Quant.textGo, List.cons_append, List.append_assoc, List.nil_append] at hn ⊢
    have hsr := scanRepeat_rep c (lazyText l ++ k) hq (adv st [123] false) (c ++ 125 :: (lazyText l ++ k)).length
    rw [loop_brace idc top n _ st _ _ ((scanRepeat0_valid _ (adv st [123] false) (valid_rep c (lazyText l ++ k) hq)).trans hsr) hn]
    simp only [adv_adv, Bool.or_false]
    rw [tail st _ (by simp at hn ⊢; omega)]
    simp
  | repFrom c =>
    simp only [Quant.wf] at hq
    simp only [Quant.text, Quant.textGo, List.cons_append, List.append_assoc, List.nil_append] at hn ⊢
    have hlen : (c ++ 44 :: 125 :: (lazyText l ++ k)).length + 1 = ((c ++ 44 :: 125 :: (lazyText l ++ k)).length - 1) + 2 := by simp; omega
    have hsr := scanRepeat_from c (lazyText l ++ k) hq (adv st [123] false) ((c ++ 44 :: 125 :: (lazyText l ++ k)).length - 1)
    rw [← hlen] at hsr
    rw [loop_brace idc top n _ st _ _ ((scanRepeat0_valid _ (adv st [123] false) (valid_from c (lazyText l ++ k) hq)).trans hsr) hn]
    simp only [adv_adv, Bool.or_false]
    rw [tail st _ (by simp at hn ⊢; omega)]
    simp
  | repRange c d =>
    simp only [Quant.wf, Bool.and_eq_true, decide_eq_true_eq] at hq
    simp only [Quant.text, Quant.textGo, List.cons_append, List.append_assoc, List.nil_append] at hn ⊢
    have hlen : (c ++ 44 :: (d ++ 125 :: (lazyText l ++ k))).length + 1 = ((c ++ 44 :: (d ++ 125 :: (lazyText l ++ k))).length - 1) + 2 := by simp; omega
    have hsr := scanRepeat_range c d (lazyText l ++ k) hq.1 hq.2 (adv st [123] false) ((c ++ 44 :: (d ++ 125 :: (lazyText l ++ k))).length - 1)
    rw [← hlen] at hsr
    rw [loop_brace idc top n _ st _ _ ((scanRepeat0_valid _ (adv st [123] false) (valid_range c d (lazyText l ++ k) hq.1 hq.2)).trans hsr) hn]
    simp only [adv_adv, Bool.or_false]
    rw [tail st _ (by simp at hn ⊢; omega)]
    simp

theorem quant_noDigit (q : Quant) (l : Bool) (k : List Nat) : noDigitStart (q.text ++ lazyText l ++ k) = true := by
  cases q <;> simp [Quant.text, noDigitStart, isDigitC]

/-- THE MAIN INDUCTION: scanning the ES5 text of a well-formed tree emits the Go text of the same
    tree, records an error iff the tree contains a look-ahead or back-reference, never sets
    `invalid`, and stops exactly at the end of the tree's text. -/
theorem loop_print (idc : Nat → Bool) : ∀ (r : Re), r.wf = true → ∀ (top : Bool) (n : Nat) (k : List Nat) (st : St),
    (printES5 r ++ k).length < n → (r.endsOpen = true → noDigitStart k = true) →
    loop idc top n (printES5 r ++ k) st = loop idc top n k (adv st (printGo r) r.unsupported) := by
  intro r; induction r with
  | empty => intro _ top n k st _ _; simp [printES5, printGo, Re.unsupported, adv_nil]
  | ch sp =>
    intro hwf top n k st hn ho
    simp [Re.wf] at hwf
    cases hsp : sp with
    | lit c =>
      subst hsp
      simp [CharSp.wf, isSyntaxChar] at hwf
      simp only [printES5, printGo, CharSp.es5, CharSp.go, Re.unsupported, List.cons_append, List.nil_append] at hn ⊢
      exact loop_plain1 idc top n c k st (by simp [plain]; omega) hn
    | nul =>
      subst hsp
      have h := scanEscape_sp idc false .nul hwf [48] rfl k st (fun _ => ho (by simp [Re.endsOpen]))
      have := loop_esc idc top n _ st _ k h (by simpa [printES5, CharSp.es5] using hn)
      simpa [printES5, printGo, CharSp.es5, Re.unsupported] using this
    | _ =>
      subst hsp
      have h := scanEscape_sp idc false _ hwf _ rfl k st (by simp)
      have := loop_esc idc top n _ st _ k h (by simpa [printES5, CharSp.es5] using hn)
      simpa [printES5, printGo, CharSp.es5, Re.unsupported] using this
  | dot => intro _ top n k st hn _; exact loop_plain1 idc top n 46 k st (by decide) hn
  | bol => intro _ top n k st hn _; exact loop_plain1 idc top n 94 k st (by decide) hn
  | eol => intro _ top n k st hn _; exact loop_plain1 idc top n 36 k st (by decide) hn
  | cls kk =>
    intro _ top n k st hn _
    have h := scanEscape_letter idc kk.letter (by cases kk <;> simp [ClsK.letter]) k st
    have := loop_esc idc top n _ st _ k h (by simpa [printES5] using hn)
    simpa [printES5, printGo, Re.unsupported] using this
  | wordb =>
    intro _ top n k st hn _
    have h := scanEscape_letter idc 98 (by simp) k st
    have := loop_esc idc top n _ st _ k h (by simpa [printES5] using hn)
    simpa [printES5, printGo, Re.unsupported] using this
  | nwordb =>
    intro _ top n k st hn _
    have h := scanEscape_letter idc 66 (by simp) k st
    have := loop_esc idc top n _ st _ k h (by simpa [printES5] using hn)
    simpa [printES5, printGo, Re.unsupported] using this
  | backref d =>
    intro hwf top n k st hn ho
    simp [Re.wf] at hwf
    have h := scanEscape_backref idc false d hwf k st (ho (by simp [Re.endsOpen]))
    have := loop_esc idc top n _ st _ k h (by simpa [printES5] using hn)
    simpa [printES5, printGo, Re.unsupported] using this
  | set neg items =>
    intro hwf top n k st hn _
    simp [Re.wf] at hwf
    cases items with
    | nil =>
      have key : scanBracket0 idc n ((if neg then [94] else []) ++ [93] ++ k) (adv st [91] false)
          = (adv st (91 :: (if neg then [] else [94]) ++ fullRange) false, k) := by
        cases neg <;> simp [scanBracket0, fullRange]
      have := loop_bracket idc top n _ st _ k key (by cases neg <;> simp [printES5, itemsES5] at hn ⊢ <;> omega)
      simpa [printES5, printGo, Re.unsupported, itemsES5, fullRange] using this
    | cons it its =>
      obtain ⟨c0, t0, hc0, hne, hne2⟩ := item_head it (by simp [itemsWf] at hwf; exact hwf.1)
      have hsb : scanBracket0 idc n ((if neg then [94] else []) ++ itemsES5 (it :: its) ++ [93] ++ k) (adv st [91] false)
          = scanBracket idc n ((if neg then [94] else []) ++ itemsES5 (it :: its) ++ [93] ++ k) (adv st [91] false) := by
        cases neg <;> simp only [itemsES5, hc0] <;> unfold scanBracket0 <;> split <;> simp_all
      have key : scanBracket0 idc n ((if neg then [94] else []) ++ itemsES5 (it :: its) ++ [93] ++ k) (adv st [91] false)
          = (adv st (91 :: (if neg then [94] else []) ++ itemsGo (it :: its) ++ [93]) false, k) := by
        rw [hsb]
        cases neg with
        | false =>
          have hlen : (printES5 (.set false (it :: its)) ++ k).length = 1 + (itemsES5 (it :: its) ++ 93 :: k).length := by
            simp [printES5]; omega
          simp only [Bool.false_eq_true, if_false, List.nil_append, List.append_assoc, List.cons_append]
          rw [br_items idc (it :: its) hwf n _ _ (by omega)]
          rw [br_close idc n k _ (by omega)]
          simp
        | true =>
          have hlen : (printES5 (.set true (it :: its)) ++ k).length = 2 + (itemsES5 (it :: its) ++ 93 :: k).length := by
            simp [printES5]; omega
          simp only [if_true, List.cons_append, List.nil_append, List.append_assoc]
          rw [br_plain1 idc n 94 _ _ (by decide) (by decide) (by simp only [List.length_cons]; omega)]
          rw [br_items idc (it :: its) hwf n _ _ (by omega)]
          rw [br_close idc n k _ (by omega)]
          simp
      have hlen2 : (91 :: ((if neg then [94] else []) ++ itemsES5 (it :: its) ++ [93] ++ k)).length = (printES5 (.set neg (it :: its)) ++ k).length := by
        cases neg <;> simp [printES5]
      have := loop_bracket idc top n _ st _ k key (by omega)
      simpa [printES5, printGo, Re.unsupported] using this
  | group r ih =>
    intro hwf top n k st hn _
    simp [Re.wf] at hwf
    have hlen : (printES5 (.group r) ++ k).length = (printES5 r ++ 41 :: k).length + 1 := by simp [printES5]
    have hl : lookCheck (printES5 r ++ 41 :: k) (adv st [40] false) = adv st [40] false :=
      lookCheck_headOk _ _ (pr_head r hwf _ (by simp [headOk]))
    have key : loop idc false n (printES5 r ++ 41 :: k) (lookCheck (printES5 r ++ 41 :: k) (adv st [40] false))
        = (adv st (40 :: printGo r ++ [41]) r.unsupported, k) := by
      rw [hl, ih hwf false n (41 :: k) _ (by len_omega) (by simp [noDigitStart, isDigitC])]
      rw [loop_close idc n k _ (by len_omega)]
      simp
    have := loop_group idc top n _ st _ k key (by len_omega)
    simpa [printES5, printGo, Re.unsupported] using this
  | ncgroup r ih =>
    intro hwf top n k st hn _
    simp [Re.wf] at hwf
    have hlen : (printES5 (.ncgroup r) ++ k).length = (printES5 r ++ 41 :: k).length + 3 := by simp [printES5]
    have key : loop idc false n (63 :: 58 :: (printES5 r ++ 41 :: k)) (lookCheck (63 :: 58 :: (printES5 r ++ 41 :: k)) (adv st [40] false))
        = (adv st (40 :: 63 :: 58 :: printGo r ++ [41]) r.unsupported, k) := by
      have : lookCheck (63 :: 58 :: (printES5 r ++ 41 :: k)) (adv st [40] false) = adv st [40] false := by simp [lookCheck]
      rw [this, loop_plain1 idc false n 63 _ _ (by decide) (by len_omega), loop_plain1 idc false n 58 _ _ (by decide) (by len_omega)]
      rw [ih hwf false n (41 :: k) _ (by len_omega) (by simp [noDigitStart, isDigitC])]
      rw [loop_close idc n k _ (by len_omega)]
      simp
    have := loop_group idc top n _ st _ k key (by len_omega)
    simpa [printES5, printGo, Re.unsupported] using this
  | look neg r ih =>
    intro hwf top n k st hn _
    simp [Re.wf] at hwf
    have hlen : (printES5 (.look neg r) ++ k).length = (printES5 r ++ 41 :: k).length + 3 := by simp [printES5]
    have key : loop idc false n (63 :: (if neg then 33 else 61) :: (printES5 r ++ 41 :: k))
        (lookCheck (63 :: (if neg then 33 else 61) :: (printES5 r ++ 41 :: k)) (adv st [40] false))
        = (adv st (40 :: 63 :: (if neg then 33 else 61) :: printGo r ++ [41]) true, k) := by
      have : lookCheck (63 :: (if neg then 33 else 61) :: (printES5 r ++ 41 :: k)) (adv st [40] false) = adv st [40] true := by
        cases neg <;> simp [lookCheck]
      rw [this, loop_plain1 idc false n 63 _ _ (by decide) (by len_omega),
        loop_plain1 idc false n (if neg then 33 else 61) _ _ (by cases neg <;> decide) (by len_omega)]
      rw [ih hwf false n (41 :: k) _ (by len_omega) (by simp [noDigitStart, isDigitC])]
      rw [loop_close idc n k _ (by len_omega)]
      simp
    have := loop_group idc top n _ st _ k key (by len_omega)
    simpa [printES5, printGo, Re.unsupported] using this
  | seq a b iha ihb =>
    intro hwf top n k st hn ho
    simp [Re.wf] at hwf
    simp only [printES5, printGo, List.append_assoc] at hn ⊢
    rw [iha hwf.1 top n _ st hn (by simp [hwf.2.2.2.2])]
    rw [ihb hwf.2.1 top n k _ (by simp at hn ⊢; omega) (by simpa [Re.endsOpen] using ho)]
    simp [Re.unsupported]
  | alt a b iha ihb =>
    intro hwf top n k st hn ho
    simp [Re.wf] at hwf
    simp only [printES5, printGo, List.append_assoc, List.cons_append] at hn ⊢
    rw [iha hwf.1 top n _ st hn (by simp [noDigitStart, isDigitC])]
    rw [loop_plain1 idc top n 124 _ _ (by decide) (by simp at hn ⊢; omega)]
    rw [ihb hwf.2 top n k _ (by simp at hn ⊢; omega) (by simpa [Re.endsOpen] using ho)]
    simp [Re.unsupported]
  | quant r q l ih =>
    intro hwf top n k st hn _
    simp [Re.wf] at hwf
    simp only [printES5, printGo, List.append_assoc] at hn ⊢
    rw [ih hwf.1 top n _ st hn (fun _ => by simpa using quant_noDigit q l k)]
    rw [loop_quant idc top q hwf.2.2 l n k _ (by simp at hn ⊢; omega)]
    simp [Re.unsupported]
end OttoVerif.C10.Lem
