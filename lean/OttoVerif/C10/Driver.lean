/-
  C10/Driver — line protocol front end (core-only).

    new <patHex> <flagsHex>                      construct only:  ok | error
    x   <patHex> <flagsHex> <subjHex> <steps>    history on one RegExp object and one subject
    tr  <patHex>                                 TransformRegExp alone: ok:<hex> | inc:<hex> | invalid

  pat / flags / subject / replacement strings are hex of UTF-8 bytes (`-` = empty).
  steps (comma separated): e  t  m  s  rS:<hex>  rF  rK:<hex>  p:<n|u>  L:<li>      li: i<int> nan pinf ninf h<int>
  reply: <model> <spec> <dev>
-/
import OttoVerif.Base.Proto
import OttoVerif.Base.Str
import OttoVerif.C10.Transform
import OttoVerif.C10.Parse
import OttoVerif.C10.Match
import OttoVerif.C10.Model
import OttoVerif.C10.Spec
namespace OttoVerif.C10.Driver
open OttoVerif OttoVerif.Proto OttoVerif.C10

def dropS (t : String) (n : Nat) : String := String.ofList (t.toList.drop n)

def hex? (t : String) : Option (List Nat) := if t = "-" then some [] else bytes? t

/-- unicodeIDContinue for non-ASCII code points: not modelled (generators never escape such a
    character); Latin-1 letters are answered correctly for robustness. -/
def idc (c : Nat) : Bool := (0xC0 ≤ c ∧ c ≤ 0xFF ∧ c ≠ 0xD7 ∧ c ≠ 0xF7) ∨ c = 0xAA ∨ c = 0xB5 ∨ c = 0xBA ∨
  c = 0x212A ∨ c = 0x212B ∨ c = 0x17F ∨ c = 0x39C ∨ c = 0x3BC ∨ c = 0x178

/-! ## the concrete engines -/

/-- decode a Go string into (rune, byte offset) pairs -/
def decodeOffs : Nat → List Nat → Nat → List (Nat × Nat)
  | 0, _, _ => []
  | f + 1, bs, off =>
    match Str.decodeRune bs with
    | none => []
    | some (r, w) => (r, off) :: decodeOffs f (bs.drop w) (off + w)

/-- Go's regexp on the tree `r`: doExecute(s, pos) in byte offsets -/
def goEngine (d : Dialect) (r : Re) : Model.Eng where
  findAt := fun s pos =>
    let cs := decodeOffs s.length s 0
    let chars := cs.map (·.1)
    let offs : Array Nat := (cs.map (·.2)).toArray.push s.length
    let ci := (cs.filter fun p => p.2 < pos).length
    match search d r chars ci with
    | none => none
    | some (st, y) =>
      let bo (i : Nat) : Nat := offs.getD i s.length
      some (some (bo st, bo y.pos) :: y.caps.map fun o => o.map fun (a, b) => (bo a, bo b))

/-- ES5 [[Match]] on the tree `r` -/
def es5Engine (d : Dialect) (r : Re) : Spec.SEng where
  matchAt := fun S q =>
    match matchAt d r S q with
    | none => none
    | some y => some (some (q, y.pos) :: y.caps)

/-! ## construction -/

inductive Built (α : Type)
  | error (cls : String)
  | opaque
  | ok (global : Bool) (d : Dialect) (r : α)

/-- otto: newRegExpObject = flags, TransformRegExp, (?flags:…), regexp.Compile -/
def buildModel (pat flags : List Nat) : Built Re :=
  match Model.parseFlags flags false false false with
  | none => .error "SyntaxError"
  | some (g, i, mm) =>
    match Model.transform idc pat with
    | .invalid => .error "SyntaxError"              -- type_regexp.go: re2pattern == "" → not a pattern
    | .incompatible _ => .error "TypeError"          -- a pattern re2 cannot do
    | .ok gp =>
      -- the wrapper (?im:…) is represented by the dialect record; a stray `)` in gp would close
      -- it early, but TransformRegExp has already rejected unbalanced parentheses
      match parsePattern true gp with
      | .err => .error "SyntaxError"
      | .opaque => .opaque
      | .ok r => if goRepeatOk r then .ok g { es5 := false, icase := i, multiline := mm } r else .error "SyntaxError"

/-- ES5 §15.10.4.1: not a Pattern, or bad flags → SyntaxError.  A valid pattern with a look-ahead or a
    back-reference is "rejected with an error" by the property; TypeError is what is specified here. -/
def buildSpec (pat flags : List Nat) : Built Re :=
  match parsePattern false pat with
  | .ok r =>
    (match Spec.parseFlags flags false false false with
     | none => .error "SyntaxError"
     | some (g, i, mm) =>
       if r.unsupported then .error "TypeError" else .ok g { es5 := true, icase := i, multiline := mm } r)
  | _ => .error "SyntaxError"

/-! ## rendering -/

def liOut : LI → String
  | .int z => "i" ++ toString z
  | .nan => "nan" | .pinf => "pinf" | .ninf => "ninf"
  | .frac f => "h" ++ toString f

def li? (t : String) : Option LI :=
  if t = "nan" then some .nan else if t = "pinf" then some .pinf else if t = "ninf" then some .ninf
  else if t.startsWith "i" then (dropS t 1).toInt?.map .int
  else if t.startsWith "h" then (dropS t 1).toInt?.map .frac
  else none

def itemOut : Option (List Nat) → String
  | none => "U"
  | some u => "=" ++ unitsOut u

def resOut : Res → String
  | .null => "null" | .undef => "undef" | .thrown => "throw"
  | .bool b => if b then "true" else "false"
  | .num n => "n" ++ toString n
  | .str u => "s" ++ unitsOut u
  | .arr idx items =>
    "A" ++ (match idx with | some i => toString i | none => "") ++ ":" ++ String.intercalate "," (items.map itemOut)

def histOut (h : List (Res × LI)) : String :=
  String.intercalate ";" (h.map fun (r, li) => resOut r ++ "@" ++ liOut li)

def step? (t : String) : Option Step :=
  if t = "e" then some .exec else if t = "t" then some .test else if t = "m" then some .mtch
  else if t = "s" then some .search else if t = "rF" then some .replaceF else if t = "rT" then some .replaceT
  else if t = "rL" then some .replaceL else if t = "rE" then some .replaceE else if t = "rX" then some .replaceX
  else if t.startsWith "rW:" then (li? (dropS t 3)).map .replaceW
  else if t.startsWith "rS:" then (hex? (dropS t 3)).map .replaceS
  else if t.startsWith "rK:" then (hex? (dropS t 3)).map .replaceK
  else if t = "p:u" then some (.split none)
  else if t.startsWith "p:" then (dropS t 2).toNat?.map fun n => .split (some n)
  else if t.startsWith "L:" then (li? (dropS t 2)).map .setLI
  else none

def steps? (t : String) : Option (List Step) := (t.splitOn ",").mapM step?

/-! ## deviation regions: decidable predicates of the request -/

def Re.any (p : Re → Bool) : Re → Bool
  | .group r => p (.group r) || Re.any p r
  | .ncgroup r => p (.ncgroup r) || Re.any p r
  | .seq a b => p (.seq a b) || Re.any p a || Re.any p b
  | .alt a b => p (.alt a b) || Re.any p a || Re.any p b
  | .quant r q l => p (.quant r q l) || Re.any p r
  | .look n r => p (.look n r) || Re.any p r
  | r => p r

def itemHasSpace : CItem → Bool
  | .one (.cls .s) | .one (.cls .S) => true
  | _ => false

def foldSpecial (c : Nat) : Bool := c = 0x212A ∨ c = 0x17F ∨ c = 0x212B

def itemFoldSpecial : CItem → Bool
  | .one a => foldSpecial a.pt
  | .range a b => (a.pt ≤ 0x212A ∧ 0x212A ≤ b.pt) ∨ (a.pt ≤ 0x17F ∧ 0x17F ≤ b.pt) ∨ (a.pt ≤ 0x212B ∧ 0x212B ≤ b.pt)

/-- the pattern mentions (by any spelling, or inside a range) one of the characters whose
    case folding differs between ES5 and Go -/
def reFoldSpecial (r : Re) : Bool :=
  Re.any (fun | .ch sp => foldSpecial sp.val | .set _ is => is.any itemFoldSpecial | _ => false) r
def ltSpecial (c : Nat) : Bool := c = 13 ∨ c = 0x2028 ∨ c = 0x2029

/-- `\` [1-7] [0-7] in the pattern text (skipping escaped backslashes) -/
def hasOctalBackref : List Nat → Bool
  | 92 :: 92 :: r => hasOctalBackref r
  | 92 :: a :: b :: r => (49 ≤ a ∧ a ≤ 55 ∧ 48 ≤ b ∧ b ≤ 55) || hasOctalBackref (b :: r)
  | _ :: r => hasOctalBackref r
  | [] => false

def devNew (pat flags : List Nat) : List String :=
  let pt := match parsePattern false pat with
    | .ok r =>
      (if r.unsupported ∧ hasOctalBackref pat then ["backref_octal"] else []) ++
      (if Re.any (fun | .quant _ q _ => decide (q.min > 1000) || (match q.max with | some k => decide (k > 1000) | none => false) | _ => false) r ∨ !goRepeatOk r then ["repeat_limit"] else [])
    | _ => ["lenient_syntax"]
  pt

def devX (pat flags subj : List Nat) (steps : List Step) : List String :=
  let base := devNew pat flags
  match parsePattern false pat with
  | .ok r =>
    let chars := Str.decodeRunes subj
    let g := flags.contains 103
    let ic := flags.contains 105
    let ml := flags.contains 109
    let has (p : Step → Bool) := steps.any p
    let execLike := has fun | .exec | .test | .replaceE => true | .mtch => !g | _ => false
    let allLike := has fun | .mtch => g | .replaceS _ | .replaceF | .replaceK _ | .replaceT | .replaceL | .replaceW _ | .replaceE | .replaceX => g | _ => false
    let anyMatch := has fun | .setLI _ => false | _ => true
    let nl := nullable r
    base ++
    (if anyMatch ∧ Re.any (· == .dot) r ∧ chars.any ltSpecial then ["dot_lineterm"] else []) ++
    (if anyMatch ∧ Re.any (fun | .cls .s | .cls .S => true | .set _ is => is.any itemHasSpace | _ => false) r
        ∧ chars.any (fun c => isSpaceES5 c != isSpaceGo c) then ["space_class"] else []) ++
    (if anyMatch ∧ ml ∧ Re.any (fun | .bol | .eol => true | _ => false) r ∧ chars.any ltSpecial then ["multiline_lineterm"] else []) ++
    (if anyMatch ∧ ic ∧ (chars.any foldSpecial ∨ reFoldSpecial r) then ["icase_fold"] else []) ++
    (if anyMatch ∧ Re.any (fun | .quant b q _ => b.ngroups > 0 ∧ q.max != some 1 ∧ q.max != some 0 | _ => false) r then ["capture_reset"] else []) ++
    (if anyMatch ∧ Re.any (fun | .quant b _ _ => nullable b | _ => false) r then ["nullable_loop"] else []) ++
    (if anyMatch ∧ (chars.any (· ≥ 0x10000) ∨ pat.any (· ≥ 0x10000)) then ["astral_subject"] else []) ++
    (if g ∧ execLike ∧ Re.any (fun | .bol | .wordb | .nwordb => true | _ => false) r then ["exec_substring"] else []) ++
    (if g ∧ has (· == .mtch) then ["match_global_lastindex"] else []) ++
    (if nl ∧ allLike then ["empty_adjacent"] else [])
  | _ => base

def devOut (ds : List String) : String := if ds.isEmpty then "-" else String.intercalate "," ds

def flagsTok (flags : List Nat) : String :=
  (if flags.contains 103 then "g" else "") ++ (if flags.contains 105 then "i" else "") ++ (if flags.contains 109 then "m" else "")

/-- a constructed object: ok:<source as units>:<flags as toString prints them> -/
def okTok (src : List Nat) (flags : List Nat) : String := "ok:" ++ unitsOut (Str.utf16Encode src) ++ ":" ++ flagsTok flags

def builtTokM (pat flags : List Nat) : Built Re → String
  | .error c => "throw:" ++ c
  | _ => okTok (Model.regExpSource pat) flags
def builtTokS (pat flags : List Nat) : Built Re → String
  | .error c => "throw:" ++ c
  | _ => okTok (Spec.source pat) flags

def trOut : Model.TRes → String
  | .ok p => "ok:" ++ (if p.isEmpty then "-" else bytesOut (Str.encodeRunes p))
  | .incompatible p => "inc:" ++ (if p.isEmpty then "-" else bytesOut (Str.encodeRunes p))
  | .invalid => "invalid"

def handle (ws : List String) : String :=
  match ws with
  | ["tr", p] => match hex? p with
    | some pb =>
      let t := trOut (Model.transform idc (Str.decodeRunes pb))
      t ++ " " ++ t ++ " -"
    | none => "bad-op"
  | ["new", p, f] => match hex? p, hex? f with
    | some pb, some fb =>
      let pat := Str.decodeRunes pb
      builtTokM pat fb (buildModel pat fb) ++ " " ++ builtTokS pat fb (buildSpec pat fb) ++ " " ++ devOut (devNew pat fb)
    | _, _ => "bad-op"
  | ["x", p, f, s, st] => match hex? p, hex? f, hex? s, steps? st with
    | some pb, some fb, some sb, some steps =>
      let pat := Str.decodeRunes pb
      let mo := match buildModel pat fb with
        | .error c => "throw:" ++ c
        | .opaque => "unmodelled"
        | .ok g d r => histOut (Model.run (goEngine d r) sb { global := g, lastIndex := .int 0 } steps)
      let sp := match buildSpec pat fb with
        | .ok g d r => histOut (Spec.run (es5Engine d r) (Str.unitsOfBytes sb) Str.unitsOfBytes { global := g, lastIndex := .int 0 } steps)
        | .error c => "throw:" ++ c
        | .opaque => "throw:SyntaxError"
      mo ++ " " ++ sp ++ " " ++ devOut (devX pat fb sb steps)
    | _, _, _, _ => "bad-op"
  -- the literal route (§7.8.5): function f(){ return /p/f }; r1 = f(); steps on r1; r1.lastIndex = 7; r1.xp = 1;
  -- r2 = f(); identity, r2.lastIndex, typeof r2.xp; the same steps on r2; then the literal in a loop body.
  -- otto (cmpl_evaluate_expression.go:84) calls newRegExpDirect on EVERY evaluation, as §7.8.5 demands:
  -- r2 is a fresh object and behaves exactly as r1 did.
  | ["xl", p, f, s, st] => match hex? p, hex? f, hex? s, steps? st with
    | some pb, some fb, some sb, some steps =>
      let pat := Str.decodeRunes pb
      let fresh := "|diff:i0:undefined|"
      let mo := match buildModel pat fb with
        | .error c => "throw:" ++ c
        | .opaque => "unmodelled"
        | .ok g d r =>
          let h := histOut (Model.run (goEngine d r) sb { global := g, lastIndex := .int 0 } steps)
          h ++ fresh ++ h ++ "|loop:diff"
      let sp := match buildSpec pat fb with
        | .ok g d r =>
          let h := histOut (Spec.run (es5Engine d r) (Str.unitsOfBytes sb) Str.unitsOfBytes { global := g, lastIndex := .int 0 } steps)
          h ++ fresh ++ h ++ "|loop:diff"
        | .error c => "throw:" ++ c
        | .opaque => "throw:SyntaxError"
      mo ++ " " ++ sp ++ " " ++ devOut (devX pat fb sb steps)
    | _, _, _, _ => "bad-op"
  -- lastIndex is a scripted OBJECT: kind o<li> = {valueOf: logs, returns the number <li>}, kind x = {valueOf: throws}.
  -- steps e / t / m only.  Token per step: result @ (Tobject while the object is still there | the number), and the
  -- number of valueOf calls at the end.  exec/test/non-global match convert lastIndex once per call – global or
  -- not (execConvertsLastIndex); a throwing valueOf propagates and leaves everything as it was.
  | ["xo", p, f, s, kind, st] => match hex? p, hex? f, hex? s, steps? st with
    | some pb, some fb, some sb, some steps =>
      let pat := Str.decodeRunes pb
      let inner : Option LI := if kind = "x" then some .nan else li? (dropS kind 1)
      let throws := kind = "x"
      match inner with
      | none => "bad-op"
      | some v0 =>
      let sim (g : Bool) (conv : Bool → Bool) (stepf : RX → Step → RX × Res) : String :=
        let rec go : List Step → RX → Bool → Nat → List String → String
          | [], _, _, log, acc => String.intercalate ";" acc.reverse ++ "|log:" ++ toString log
          | stp :: rest, rx, isObj, log, acc =>
            let isGlobalMatch : Bool := g && stp == .mtch
            let reads : Bool := !isGlobalMatch && isObj && conv g
            if reads && throws then go rest rx isObj log ("throw@Tobject" :: acc)
            else
              let log' := if reads then log + 1 else log
              let (rx', r) := stepf rx stp
              -- the property is written on failure (lastIndex := 0) and by a global expression
              let written : Bool := g || (match r with | .null => true | .bool false => true | _ => false)
              let isObj' : Bool := isObj && !written
              go rest rx' isObj' log' ((resOut r ++ "@" ++ (if isObj' then "Tobject" else liOut rx'.lastIndex)) :: acc)
        go steps { global := g, lastIndex := v0 } true 0 []
      let mo := match buildModel pat fb with
        | .error c => "throw:" ++ c
        | .opaque => "unmodelled"
        | .ok g d r => sim g Model.execConvertsLastIndex (fun rx stp => Model.step (goEngine d r) sb rx stp)
      let sp := match buildSpec pat fb with
        | .ok g d r => sim g Spec.execConvertsLastIndex (fun rx stp => Spec.step (es5Engine d r) (Str.unitsOfBytes sb) Str.unitsOfBytes rx stp)
        | .error c => "throw:" ++ c
        | .opaque => "throw:SyntaxError"
      mo ++ " " ++ sp ++ " " ++ devOut (devX pat fb sb steps)
    | _, _, _, _ => "bad-op"
  -- a RegExp whose lastIndex cannot be written (mode nw: defineProperty writable:false; fr: Object.freeze), then
  -- S.replace(re, counting function returning "-").  Global: the search of §15.5.4.10 begins with
  -- [[Put]]("lastIndex", 0, true) → TypeError BEFORE any call of the function (builtin_string.go:287-290 does the
  -- put right after the search, before the loop).  Not global: the object is not written at all.
  | ["xf", _mode, p, f, s] => match hex? p, hex? f, hex? s with
    | some pb, some fb, some sb =>
      let pat := Str.decodeRunes pb
      let mo := match buildModel pat fb with
        | .error c => "throw:" ++ c
        | .opaque => "unmodelled"
        | .ok g d r =>
          if g then "throw:TypeError|calls:0|li:i0" else
          let e := goEngine d r
          resOut (Model.builtinStringReplace e { global := g, lastIndex := .int 0 } sb (.const [45])).2 ++
            "|calls:" ++ toString (Model.findAll e sb (some 1)).length ++ "|li:i0"
      let sp := match buildSpec pat fb with
        | .ok g d r =>
          if g then "throw:TypeError|calls:0|li:i0" else
          let e := es5Engine d r
          let u := Str.unitsOfBytes sb
          resOut (Spec.stringReplace e { global := g, lastIndex := .int 0 } u (.const [45])).2 ++
            "|calls:" ++ (match Spec.searchFrom e u 0 with | some _ => "1" | none => "0") ++ "|li:i0"
        | .error c => "throw:" ++ c
        | .opaque => "throw:SyntaxError"
      mo ++ " " ++ sp ++ " " ++ devOut (devX pat fb sb [.replaceK [45]])
    | _, _, _ => "bad-op"
  -- the receiver dimension: the String methods are called through .call on a receiver that is not a primitive
  -- string (String object, number, boolean, object with a counting toString); <recv> = p:<hex> S:<hex> n:<hex> b:<hex>
  -- o:<hex>, the hex being the string the receiver converts to.  §15.5.4.10-14 step 2 / §15.10.6.2 step 2:
  -- ToString once per call; everything afterwards sees that primitive string.
  | ["xr", recv, p, f, st] =>
    let kind := (recv.splitOn ":").headD ""
    match hex? (dropS recv (kind.length + 1)), hex? p, hex? f, steps? st with
    | some sb, some pb, some fb, some steps =>
      let pat := Str.decodeRunes pb
      let calls := (steps.filter fun | .setLI _ => false | _ => true).length
      let conv := "|conv:" ++ toString (if kind = "o" then calls else 0)
      let mo := match buildModel pat fb with
        | .error c => "throw:" ++ c
        | .opaque => "unmodelled"
        | .ok g d r => histOut (Model.run (goEngine d r) sb { global := g, lastIndex := .int 0 } steps) ++ conv
      let sp := match buildSpec pat fb with
        | .ok g d r => histOut (Spec.run (es5Engine d r) (Str.unitsOfBytes sb) Str.unitsOfBytes { global := g, lastIndex := .int 0 } steps) ++ conv
        | .error c => "throw:" ++ c
        | .opaque => "throw:SyntaxError"
      mo ++ " " ++ sp ++ " " ++ devOut (devX pat fb sb steps)
    | _, _, _, _ => "bad-op"
  -- a RegExp object built FROM a RegExp object R = new RegExp(p, f):
  --   mode n: new RegExp(R)   u: new RegExp(R, undefined)   f: RegExp(R)   e: new RegExp(R, "g")   c: RegExp(R, "g")
  | ["xc", mode, p, f, s, st] => match hex? p, hex? f, hex? s, steps? st with
    | some pb, some fb, some sb, some steps =>
      let pat := Str.decodeRunes pb
      let withNew := mode = "n" ∨ mode = "u" ∨ mode = "e"
      let given := mode = "e" ∨ mode = "c"
      let mo := match buildModel pat fb with
        | .error c => "throw:" ++ c
        | .opaque => "unmodelled"
        | .ok _ _ _ =>
          match Model.fromRegExp pat fb withNew given with
          | none => "throw:TypeError"
          | some (same, pat2, fl2) =>
            match buildModel pat2 fl2 with
            | .ok g d r => (if same then "same:" else "copy:") ++ okTok (Model.regExpSource pat2) fl2 ++ "|" ++
                histOut (Model.run (goEngine d r) sb { global := g, lastIndex := .int 0 } steps)
            | .error c => "throw:" ++ c
            | .opaque => "unmodelled"
      let sp := match buildSpec pat fb with
        | .error c => "throw:" ++ c
        | .opaque => "throw:SyntaxError"
        | .ok _ _ _ =>
          match Spec.fromRegExp pat fb withNew given with
          | none => "throw:TypeError"
          | some (same, pat2, fl2) =>
            match buildSpec pat2 fl2 with
            | .ok g d r => (if same then "same:" else "copy:") ++ okTok (Spec.source pat2) fl2 ++ "|" ++
                histOut (Spec.run (es5Engine d r) (Str.unitsOfBytes sb) Str.unitsOfBytes { global := g, lastIndex := .int 0 } steps)
            | .error c => "throw:" ++ c
            | .opaque => "throw:SyntaxError"
      mo ++ " " ++ sp ++ " " ++ devOut (devX pat fb sb steps)
    | _, _, _, _ => "bad-op"
  | _ => "bad-op"

end OttoVerif.C10.Driver
