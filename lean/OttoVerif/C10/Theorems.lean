/-
  C10/Theorems — the ledger for property C10.  Every `theorem` in this file is audited
  (`#print axioms` ⊆ {propext, Classical.choice, Quot.sound}) on every run.
-/
import OttoVerif.C10.Lemmas
import OttoVerif.C10.Match
import OttoVerif.C10.Model
import OttoVerif.C10.Spec
namespace OttoVerif.C10.Thm
open OttoVerif.C10 OttoVerif.C10.Model OttoVerif.C10.Lem

/-! ## 1. the translation is sound on the whole grammar -/

private theorem top_run (idc : Nat → Bool) (r : Re) (hwf : r.wf = true) :
    loop idc true ((printES5 r).length + 1) (printES5 r) { out := [], err := false, inv := false }
      = ({ out := printGo r, err := r.unsupported, inv := false }, []) := by
  have h := loop_print idc r hwf true ((printES5 r).length + 1) [] { out := [], err := false, inv := false }
    (by simp) (by intro _; rfl)
  simp only [List.append_nil] at h
  rw [h]
  simp [loop, adv]

private theorem print_empty (idc : Nat → Bool) (r : Re) (hwf : r.wf = true) (h : printES5 r = []) :
    printGo r = [] ∧ r.unsupported = false := by
  have := top_run idc r hwf
  rw [h] at this
  simp [loop] at this
  exact ⟨this.1, this.2⟩

/-- **transform_syntax.**  For every tree of the portable subset, TransformRegExp applied to its ES5
    text returns, without error, exactly the Go text of the same tree: literals, every escape
    spelling (`\xHH`, `\uHHHH` → `\x{HHHH}`, `\cX` → `\xNN`, control and identity escapes, `\0`),
    classes (with `[\b]` → `\x08`), `\d \w \s \b \B`, groups, alternation, anchors, greedy and lazy
    quantifiers.  (Induction on the tree: Lemmas.loop_print.) -/
theorem transform_syntax (idc : Nat → Bool) (r : Re) (h : r.portable = true) :
    transform idc (printES5 r) = .ok (printGo r) := by
  simp [Re.portable] at h
  unfold transform
  by_cases he : (printES5 r).isEmpty = true
  · rw [if_pos he]
    have := print_empty idc r h.1 (by simpa using he)
    rw [this.1]
  · rw [if_neg he]
    simp only [top_run idc r h.1, h.2]
    simp

/-- **transform_rejects.**  A well-formed ES5 pattern that contains a look-ahead `(?=` `(?!` or a
    back-reference `\1`…`\9` (not followed by a digit) anywhere is reported as incompatible: the
    error result that newRegExpObject turns into a TypeError.  Never silently translated. -/
theorem transform_rejects (idc : Nat → Bool) (r : Re) (hwf : r.wf = true) (hu : r.unsupported = true) :
    transform idc (printES5 r) = .incompatible (printGo r) := by
  unfold transform
  by_cases he : (printES5 r).isEmpty = true
  · have := print_empty idc r hwf (by simpa using he)
    rw [hu] at this; simp at this
  · rw [if_neg he]
    simp only [top_run idc r hwf, hu]
    simp

/-- non-vacuity: a pattern using most of the grammar is portable, and one with a look-ahead is not -/
example : (Re.seq (.quant (.group (.alt (.ch (.uni 48 48 101 57)) (.set true [.range (.ch (.lit 97)) (.ch (.lit 122)), .one .bs])))
    (.repRange [49] [51]) true) (.seq .wordb (.ch (.ctrl 74)))).portable = true := by decide
example : transform (fun _ => false) (printES5 (.seq (.ch (.lit 97)) (.look false (.ch (.lit 98))))) =
    .incompatible (printGo (.seq (.ch (.lit 97)) (.look false (.ch (.lit 98))))) :=
  transform_rejects _ _ (by decide) (by decide)

/-- Dev `backref_octal`: `\1` followed by `0` is not rejected but becomes the octal escape `\x08` -/
example : transform (fun _ => false) [40, 97, 41, 92, 49, 48] = .ok [40, 97, 41, 92, 120, 48, 56] := by decide

/-! ## 2. denotation of the atoms in the two dialects -/

def dE (i mm : Bool) : Dialect := { es5 := true, icase := i, multiline := mm }
def dG (i mm : Bool) : Dialect := { es5 := false, icase := i, multiline := mm }

/-- `.`: the dialects agree exactly off `\r`, U+2028, U+2029 (Dev `dot_lineterm`) -/
theorem dot_denotation (i mm : Bool) (c : Nat) :
    dotTest (dE i mm) c = dotTest (dG i mm) c ↔ ¬ (c = 13 ∨ c = 0x2028 ∨ c = 0x2029) := by
  simp only [dotTest, isLineTerm, dE, dG, isLineTermES5]
  by_cases h1 : c = 10 <;> by_cases h2 : c = 13 <;> by_cases h3 : c = 0x2028 <;> by_cases h4 : c = 0x2029 <;> simp_all

/-- `\d \D \w \W`: identical in both dialects, for every character -/
theorem digit_word_denotation (i mm : Bool) (k : ClsK) (c : Nat) (hk : k ≠ .s ∧ k ≠ .S) :
    clsTest (dE i mm) k c = clsTest (dG i mm) k c := by
  cases k <;> simp_all [clsTest]

/-- `\s`: the dialects agree exactly off `\v`, U+00A0, U+1680, U+180E, U+2000–200A, U+2028/9, U+202F,
    U+205F, U+3000, U+FEFF (Dev `space_class`) -/
theorem space_denotation (i mm : Bool) (c : Nat) :
    clsTest (dE i mm) .s c = clsTest (dG i mm) .s c ↔
      ¬ (c = 11 ∨ c = 0xA0 ∨ c = 0x1680 ∨ c = 0x180E ∨ (0x2000 ≤ c ∧ c ≤ 0x200A) ∨ c = 0x2028 ∨ c = 0x2029 ∨
         c = 0x202F ∨ c = 0x205F ∨ c = 0x3000 ∨ c = 0xFEFF) := by
  simp only [clsTest, dE, dG, isSpaceES5, isSpaceGo, if_true, if_false, Bool.false_eq_true]
  rw [Bool.eq_iff_iff]
  simp only [decide_eq_true_eq]
  omega

end OttoVerif.C10.Thm
