/-  C10/Theorems — the ledger for property C10 (every theorem here is audited).  Placeholder. -/
namespace OttoVerif.C10.Thm
end OttoVerif.C10.Thm
