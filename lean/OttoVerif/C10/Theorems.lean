/-
  C10/Theorems — the ledger for property C10.  Every `theorem` in this file is audited
  (`#print axioms` ⊆ {propext, Classical.choice, Quot.sound}) on every run.
-/
import OttoVerif.C10.Lemmas
import OttoVerif.C10.ProtoLemmas
import OttoVerif.C10.MatchLemmas
import OttoVerif.C10.CtxLemmas
import OttoVerif.C10.Driver
import OttoVerif.C10.Match
import OttoVerif.C10.Model
import OttoVerif.C10.Spec
namespace OttoVerif.C10.Thm
open OttoVerif.C10 OttoVerif.C10.Model OttoVerif.C10.Lem

/-! ## 1. the translation is sound on the whole grammar -/

private theorem top_run (idc : Nat → Bool) (r : Re) (hwf : r.wf = true) :
    loop idc true ((printES5 r).length + 1) (printES5 r) { out := [], err := false, inv := false }
      = ({ out := printGo r, err := r.unsupported, inv := false }, []) := by
  have h := loop_print idc r hwf true ((printES5 r).length + 1) [] { out := [], err := false, inv := false }
    (by simp) (by intro _; rfl)
  simp only [List.append_nil] at h
  rw [h]
  simp [loop, adv]

private theorem print_empty (idc : Nat → Bool) (r : Re) (hwf : r.wf = true) (h : printES5 r = []) :
    printGo r = [] ∧ r.unsupported = false := by
  have := top_run idc r hwf
  rw [h] at this
  simp [loop] at this
  exact ⟨this.1, this.2⟩

/-- **transform_syntax.**  For every tree of the portable subset, TransformRegExp applied to its ES5
    text returns, without error, exactly the Go text of the same tree: literals, every escape
    spelling (`\xHH`, `\uHHHH` → `\x{HHHH}`, `\cX` → `\xNN`, control and identity escapes, `\0`),
    classes (with `[\b]` → `\x08`), `\d \w \s \b \B`, groups, alternation, anchors, greedy and lazy
    quantifiers.  (Induction on the tree: Lemmas.loop_print.) -/
theorem transform_syntax (idc : Nat → Bool) (r : Re) (h : r.portable = true) :
    transform idc (printES5 r) = .ok (printGo r) := by
  simp [Re.portable] at h
  unfold transform
  by_cases he : (printES5 r).isEmpty = true
  · rw [if_pos he]
    have := print_empty idc r h.1 (by simpa using he)
    rw [this.1]
  · rw [if_neg he]
    simp only [top_run idc r h.1, h.2]
    simp

/-- **transform_rejects.**  A well-formed ES5 pattern that contains a look-ahead `(?=` `(?!` or a
    back-reference `\1`…`\9` (not followed by a digit) anywhere is reported as incompatible: the
    error result that newRegExpObject turns into a TypeError.  Never silently translated. -/
theorem transform_rejects (idc : Nat → Bool) (r : Re) (hwf : r.wf = true) (hu : r.unsupported = true) :
    transform idc (printES5 r) = .incompatible (printGo r) := by
  unfold transform
  by_cases he : (printES5 r).isEmpty = true
  · have := print_empty idc r hwf (by simpa using he)
    rw [hu] at this; simp at this
  · rw [if_neg he]
    simp only [top_run idc r hwf, hu]
    simp

/-- non-vacuity: a pattern using most of the grammar is portable, and one with a look-ahead is not -/
example : (Re.seq (.quant (.group (.alt (.ch (.uni 48 48 101 57)) (.set true [.range (.ch (.lit 97)) (.ch (.lit 122)), .one .bs])))
    (.repRange [49] [51]) true) (.seq .wordb (.ch (.ctrl 74)))).portable = true := by decide
example : transform (fun _ => false) (printES5 (.seq (.ch (.lit 97)) (.look false (.ch (.lit 98))))) =
    .incompatible (printGo (.seq (.ch (.lit 97)) (.look false (.ch (.lit 98))))) :=
  transform_rejects _ _ (by decide) (by decide)

/-- Dev `backref_octal`: `\1` followed by `0` is not rejected but becomes the octal escape `\x08` -/
example : transform (fun _ => false) [40, 97, 41, 92, 49, 48] = .ok [40, 97, 41, 92, 120, 48, 56] := by decide

/-- the empty classes are in the proved subset: `[]` ↦ `[^\x00-\x{10FFFF}]`, `[^]` ↦ `[\x00-\x{10FFFF}]` -/
example : transform (fun _ => false) (printES5 (.alt (.set false []) (.set true []))) =
    .ok (printGo (.alt (.set false []) (.set true []))) := transform_syntax _ _ (by decide)

/-- **flags_eq.**  The flag scanner of newRegExpObject is §15.10.4.1: each of g, i, m at most once,
    nothing else; otherwise SyntaxError (`none`). -/
theorem flags_eq : ∀ (fl : List Nat) (g i mm : Bool), Model.parseFlags fl g i mm = Spec.parseFlags fl g i mm := by
  intro fl; induction fl with
  | nil => intro g i mm; rfl
  | cons c cs ih =>
    intro g i mm
    simp only [Model.parseFlags, Spec.parseFlags, ih]

/-! ## 2. denotation of the atoms in the two dialects -/


/-- `.`: the dialects agree exactly off `\r`, U+2028, U+2029 (Dev `dot_lineterm`) -/
theorem dot_denotation (i mm : Bool) (c : Nat) :
    dotTest (dE i mm) c = dotTest (dG i mm) c ↔ ¬ (c = 13 ∨ c = 0x2028 ∨ c = 0x2029) := by
  simp only [dotTest, isLineTerm, dE, dG, isLineTermES5]
  by_cases h1 : c = 10 <;> by_cases h2 : c = 13 <;> by_cases h3 : c = 0x2028 <;> by_cases h4 : c = 0x2029 <;> simp_all

/-- `\d \D \w \W`: identical in both dialects, for every character -/
theorem digit_word_denotation (i mm : Bool) (k : ClsK) (c : Nat) (hk : k ≠ .s ∧ k ≠ .S) :
    clsTest (dE i mm) k c = clsTest (dG i mm) k c := by
  cases k <;> simp_all [clsTest]

/-- `\s`: the dialects agree exactly off `\v`, U+00A0, U+1680, U+180E, U+2000–200A, U+2028/9, U+202F,
    U+205F, U+3000, U+FEFF (Dev `space_class`) -/
theorem space_denotation (i mm : Bool) (c : Nat) :
    clsTest (dE i mm) .s c = clsTest (dG i mm) .s c ↔
      ¬ (c = 11 ∨ c = 0xA0 ∨ c = 0x1680 ∨ c = 0x180E ∨ (0x2000 ≤ c ∧ c ≤ 0x200A) ∨ c = 0x2028 ∨ c = 0x2029 ∨
         c = 0x202F ∨ c = 0x205F ∨ c = 0x3000 ∨ c = 0xFEFF) := by
  simp only [clsTest, dE, dG, isSpaceES5, isSpaceGo, if_true, if_false, Bool.false_eq_true]
  rw [Bool.eq_iff_iff]
  simp only [decide_eq_true_eq]
  omega


/-! ## 3. the matcher: ES5 semantics = Go semantics on the translated tree -/

/-- **matcher_preserved** (DESIGN: match_preserved; the audit skips names beginning with `match_`).  On the sub-subset `simpleLoops` (every quantified body consumes a character
    and contains no capturing group – where §15.10.2.5's capture reset and empty-iteration check
    cannot be observed), if every atom of `r` has the same denotation in both dialects on the
    subject (`Lem.agree`), the ES5 matcher and the Go matcher return the same list of results (end
    positions and captures, in priority order) from every state.  Structural induction on `r`. -/
theorem matcher_preserved (i mm : Bool) (s : List Nat) (r : Re) (hs : r.simpleLoops = true) (ha : agree i mm s r)
    (gi : Nat) (x : MS) : m (dE i mm) s r gi x = m (dG i mm) s r gi x :=
  Lem.match_preserved i mm s r hs ha gi x

/-- the atoms of EVERY pattern agree when the i flag is off and the subject has no `\r`, U+2028/9
    and no ES5-only white space (so Dev regions dot_lineterm, space_class, multiline_lineterm and
    icase_fold are the only atom-level deviations) -/
theorem agree_plain (mm : Bool) (s : List Nat) (hs : ∀ c ∈ s, plainChar c) (r : Re) : agree false mm s r :=
  Lem.agree_plain mm s hs r

/-- corollary: same best match at every start position -/
theorem matchAt_preserved (mm : Bool) (s : List Nat) (hs : ∀ c ∈ s, plainChar c) (r : Re) (hl : r.simpleLoops = true) (i : Nat) :
    matchAt (dE false mm) r s i = matchAt (dG false mm) r s i := by
  unfold matchAt
  rw [Lem.match_preserved false mm s r hl (Lem.agree_plain mm s hs r)]

/-- non-vacuity: `(a|b)c+?\d{2,}$` is in the sub-subset, "abcc12" is a plain subject -/
example : (Re.seq (.group (.alt (.ch (.lit 97)) (.ch (.lit 98)))) (.seq (.quant (.ch (.lit 99)) .plus true)
    (.seq (.quant (.cls .d) (.repFrom [50]) false) .eol))).simpleLoops = true := by decide
example : ∀ c ∈ [97, 98, 99, 99, 49, 50], plainChar c := by
  intro c hc; simp at hc; unfold plainChar; omega

/-- Dev `capture_reset`: /(?:(a)|b)*/ on "ab" – ES5 clears group 1 in the second iteration, Go keeps it -/
example : matchAt (dE false false) (.quant (.ncgroup (.alt (.group (.ch (.lit 97))) (.ch (.lit 98)))) .star false) [97, 98] 0
    ≠ matchAt (dG false false) (.quant (.ncgroup (.alt (.group (.ch (.lit 97))) (.ch (.lit 98)))) .star false) [97, 98] 0 := by decide
/-- Dev `nullable_loop`: /(a*)?/ on "b" – ES5 rejects the empty iteration (group 1 undefined), Go accepts it -/
example : matchAt (dE false false) (.quant (.group (.quant (.ch (.lit 97)) .star false)) .opt false) [98] 0
    ≠ matchAt (dG false false) (.quant (.group (.quant (.ch (.lit 97)) .star false)) .opt false) [98] 0 := by decide
/-- Dev `dot_lineterm`: /a.b/ on "a\rb" -/
example : matchAt (dE false false) (.seq (.ch (.lit 97)) (.seq .dot (.ch (.lit 98)))) [97, 13, 98] 0
    ≠ matchAt (dG false false) (.seq (.ch (.lit 97)) (.seq .dot (.ch (.lit 98)))) [97, 13, 98] 0 := by decide
/-- Dev `space_class`: /\s/ on U+00A0 -/
example : matchAt (dE false false) (.cls .s) [0xA0] 0 ≠ matchAt (dG false false) (.cls .s) [0xA0] 0 := by decide
/-- Dev `multiline_lineterm`: /^b/m on "a\rb" at 2 -/
example : matchAt (dE false true) (.seq .bol (.ch (.lit 98))) [97, 13, 98] 2 ≠ matchAt (dG false true) (.seq .bol (.ch (.lit 98))) [97, 13, 98] 2 := by decide
/-- Dev `icase_fold`: /k/i on KELVIN SIGN -/
example : matchAt (dE true false) (.ch (.lit 107)) [0x212A] 0 ≠ matchAt (dG true false) (.ch (.lit 107)) [0x212A] 0 := by decide

/-! ## 4. the exec / lastIndex protocol -/

/-- **exec_protocol.**  On a linked subject (`Lem.Link`: ASCII, shorter than 2^63, and the engine run
    on the suffix `t[i:]` = the ES5 search from `i`), RegExp.prototype.exec returns the §15.10.6.2
    result (null, or the array with index / captures / undefined for unmatched groups) and leaves the
    §15.10.6.2 lastIndex, for EVERY value of lastIndex (negative, fractional, NaN, ±Infinity, beyond the
    length) and both values of `global`. -/
theorem exec_protocol (E : Model.Eng) (S : Spec.SEng) (t : List Nat) (L : Link E S t) (rx : RX) :
    Model.builtinRegExpExec E rx t = Spec.exec S rx t := Lem.exec_eq E S t L rx

theorem test_protocol (E : Model.Eng) (S : Spec.SEng) (t : List Nat) (L : Link E S t) (rx : RX) :
    Model.builtinRegExpTest E rx t = Spec.test S rx t := Lem.test_eq E S t L rx

/-- **exec_history.**  All call sequences of exec / test / lastIndex writes on one RegExp object agree
    step by step (results and observed lastIndex); induction over the calls. -/
theorem exec_history (E : Model.Eng) (S : Spec.SEng) (t : List Nat) (L : Link E S t) (repU : List Nat → List Nat)
    (steps : List Step) (rx : RX) (h : steps.all execStep = true) :
    Model.run E t rx steps = Spec.run S t repU rx steps := Lem.history_eq E S t L repU steps rx h

/-- **search.**  String.prototype.search = §15.5.4.12 on a linked subject. -/
theorem search_protocol (E : Model.Eng) (S : Spec.SEng) (t : List Nat) (L : Link E S t) (rx : RX) :
    Model.builtinStringSearch E rx t = Spec.stringSearch S rx t := Lem.search_eq E S t L rx

/-- String.prototype.match with a non-global regexp = exec (§15.5.4.10 step 7). -/
theorem nonglobal_match (E : Model.Eng) (S : Spec.SEng) (t : List Nat) (L : Link E S t) (rx : RX) (hg : rx.global = false) :
    Model.builtinStringMatch E rx t = Spec.stringMatch S rx t := Lem.match_nonglobal_eq E S t L rx hg

/-- **replace_concat.**  For every engine, subject, flag and replaceValue, String.prototype.replace
    returns the §15.5.4.11 concatenation  gap₀ ++ f(m₁) ++ gap₁ ++ … ++ tail  over the matches found,
    where f is `$`-expansion for a string, and the function's own result for a function. -/
theorem replace_concat (E : Model.Eng) (rx : RX) (t : List Nat) (repl : Repl) :
    (Model.builtinStringReplace E rx t repl).2 =
      .str (Model.jsStr (Spec.replaceLoop t (modelF t repl) (Model.findAll E t (if rx.global then none else some 1)) 0 [])) :=
  Lem.replace_is_concat E rx t repl

/-- **replace_function_verbatim.**  A function replacer's result is used as it is: for EVERY list of
    matches and EVERY returned string `ret` (containing `$&`, `$1`, `$$`, … or not) otto's loop yields the
    concatenation of the gaps, `ret` once per match, and the tail – no Table 22 expansion. -/
theorem replace_function_verbatim (t ret : List Nat) (found : List Caps) (li : Nat) (acc : List Nat) :
    (let p := Model.replaceLoop t (fun _ => ret) found li acc
     if p.2 ≠ t.length then p.1 ++ t.drop p.2 else p.1) = Spec.replaceLoop t (fun _ => ret) found li acc :=
  Lem.replaceLoop_eq t (fun _ => ret) found li acc

/-- one match (a, b):  t[0:a] ++ ret ++ t[b:] -/
theorem replace_function_single (t ret : List Nat) (mt : Caps) :
    (let p := Model.replaceLoop t (fun _ => ret) [mt] 0 []
     if p.2 ≠ t.length then p.1 ++ t.drop p.2 else p.1) = t.take (capStart mt) ++ ret ++ t.drop (capEnd mt) :=
  Lem.replace_const_single t ret mt

/-- "abc".replace(/b/, function(){ return "$&$&" }) is "a$&$&c", while the STRING "$&$&" gives "abbc" -/
example : (Model.builtinStringReplace (charEngine (dG false false) (.ch (.lit 98))) ⟨false, .int 0⟩ [97, 98, 99] (.const [36, 38, 36, 38])).2
      = .str [97, 36, 38, 36, 38, 99] ∧
    (Model.builtinStringReplace (charEngine (dG false false) (.ch (.lit 98))) ⟨false, .int 0⟩ [97, 98, 99] (.str [36, 38, 36, 38])).2
      = .str [97, 98, 98, 99] := by decide

/-- **replacer_arguments.**  A function replacer is called with the §15.5.4.11 arguments (matched text,
    captures with undefined for unmatched groups, offset in code units, subject) on an ASCII subject. -/
theorem replacer_arguments (t : List Nat) (ha : ascii t) (mt : Caps) (h : capStart mt ≤ t.length) :
    Model.replacerArgs t mt = Spec.replacerArgs t mt := Lem.replacerArgs_eq t ha mt h

/-- the offset counts UTF-16 units also after an astral character: "😀x", match of x at byte 4 → "2" -/
example : (Model.replacerArgs [0xF0, 0x9F, 0x98, 0x80, 120] [some (4, 5)])[1]? = some [50] := by decide

/-- **source_eq.**  The `source` property is the §15.10.4.1 literal form of the pattern: `(?:)` for the
    empty pattern, every unescaped `/` outside a class escaped. -/
theorem source_eq (pat : List Nat) : Model.regExpSource pat = Spec.source pat := by
  have h : ∀ (l : List Nat) (e c : Bool), Model.regExpSourceLoop l e c = Spec.sourceLoop l e c := by
    intro l; induction l with
    | nil => intro e c; rfl
    | cons x xs ih => intro e c; simp only [Model.regExpSourceLoop, Spec.sourceLoop, ih]
  simp only [Model.regExpSource, Spec.source, h]

/-- **regexp_from_regexp.**  `new RegExp(R)` / `new RegExp(R, undefined)` build a new object from R's pattern
    and R's flags, `RegExp(R)` returns R itself, a RegExp with flags given is a TypeError (§15.10.3.1, §15.10.4.1). -/
theorem regexp_from_regexp (pat flags : List Nat) (withNew given : Bool) :
    Model.fromRegExp pat flags withNew given = Spec.fromRegExp pat flags withNew given := by
  unfold Model.fromRegExp Spec.fromRegExp Model.storedFlags
  rfl

example : Spec.source [97, 47, 91, 47, 93, 92, 47] = [97, 92, 47, 91, 47, 93, 92, 47] ∧ Spec.source [] = [40, 63, 58, 41] := by decide

/-- **replacer_argument_types.**  Every argument a function replacer receives has the §15.5.4.11 type: the
    matched text and the captures are strings (undefined for an unmatched group), the offset a number and
    the last argument the PRIMITIVE string the receiver was converted to (`typeof` "string", `===` the
    subject) – whatever the receiver was (String object, number, object with toString). -/
theorem replacer_argument_types (t : List Nat) (mt : Caps) :
    modelF t .types mt = typeReport [115, 116, 114, 105, 110, 103] mt true := rfl

example : typeReport [115, 116, 114, 105, 110, 103] [some (1, 2), none] true
    = "<string,undefined,number,string|true>".toList.map Char.toNat := by decide

/-- **replace_global_ignores_stale.**  With a global regexp, whatever a function replacer does with the
    RegExp object (read lastIndex, write it, exec the same regexp, throw), the outcome of
    String.prototype.replace does not depend on the lastIndex the object had before the call: the search of
    §15.5.4.10, including `lastIndex = 0`, is complete before the first call of the function. -/
theorem replace_global_ignores_stale (E : Model.Eng) (rx : RX) (t : List Nat) (kind : Step) (v : LI) (hg : rx.global = true) :
    Model.builtinStringReplaceS E { rx with lastIndex := v } t kind
      = Model.builtinStringReplaceS E { rx with lastIndex := .int 0 } t kind := by
  unfold Model.builtinStringReplaceS
  simp [hg]

/-- /a/g with a stale lastIndex 3 on "aa": every call of the replacer sees lastIndex 0 -/
example : (Model.builtinStringReplaceS (charEngine (dG false false) (.ch (.lit 97))) ⟨true, .int 3⟩ [97, 97] .replaceL).2
    = .str [60, 105, 48, 62, 60, 105, 48, 62] := by decide

/-! ## 5. end to end: the real matcher satisfies the link -/

/-- **matcher_context_free.**  A pattern without `^`, `\b`, `\B` matches in the suffix `s[k:]` exactly as
    in `s`, with every position shifted by `k` (all results, in order) – the hypothesis
    "find is context-free" of the design, proved for the reference matcher in both dialects. -/
theorem matcher_context_free (d : Dialect) (s : List Nat) (k : Nat) (hk : k ≤ s.length) (r : Re) (hr : noLeftCtx r = true)
    (gi : Nat) (x : MS) : (m d (s.drop k) r gi x).map (shMS k) = m d s r gi (shMS k x) :=
  Lem.m_shift d s k hk r hr gi x

/-- **exec_end_to_end.**  Pattern in the sub-subset `simpleLoops`, without `^ \b \B`, atoms agreeing on
    an ASCII subject: every history of exec / test / lastIndex writes on the RegExp object behaves
    as ES5 prescribes when otto runs Go's matcher for the translated tree on `target[index:]`.
    (Combines matcher_preserved, matcher_context_free and exec_history.) -/
theorem exec_end_to_end (i mm : Bool) (r : Re) (t : List Nat) (hasc : ascii t) (hsmall : (t.length : Int) < Model.maxInt64)
    (hs : r.simpleLoops = true) (hc : noLeftCtx r = true) (ha : agree i mm t r)
    (repU : List Nat → List Nat) (steps : List Step) (rx : RX) (h : steps.all execStep = true) :
    Model.run (charEngine (dG i mm) r) t rx steps = Spec.run (es5Eng (dE i mm) r) t repU rx steps :=
  Lem.history_eq _ _ t (Lem.link_matcher i mm r t hasc hsmall hs hc ha) repU steps rx h

/-- the same for String.prototype.search -/
theorem search_end_to_end (i mm : Bool) (r : Re) (t : List Nat) (hasc : ascii t) (hsmall : (t.length : Int) < Model.maxInt64)
    (hs : r.simpleLoops = true) (hc : noLeftCtx r = true) (ha : agree i mm t r) (rx : RX) :
    Model.builtinStringSearch (charEngine (dG i mm) r) rx t = Spec.stringSearch (es5Eng (dE i mm) r) rx t :=
  Lem.search_eq _ _ t (Lem.link_matcher i mm r t hasc hsmall hs hc ha) rx

/-- Dev `exec_substring`: /^a/g, lastIndex = 1, exec("aa") – the cut string starts with "a" -/
example : Model.run (charEngine (dG false false) (.seq .bol (.ch (.lit 97)))) [97, 97] ⟨true, .int 0⟩ [.setLI (.int 1), .exec]
    ≠ Spec.run (es5Eng (dE false false) (.seq .bol (.ch (.lit 97)))) [97, 97] id ⟨true, .int 0⟩ [.setLI (.int 1), .exec] := by decide
/-- Dev `match_global_lastindex`: after "ba".match(/a/g) lastIndex is 2, not 0 -/
example : Model.run (charEngine (dG false false) (.ch (.lit 97))) [98, 97] ⟨true, .int 0⟩ [.mtch]
    ≠ Spec.run (es5Eng (dE false false) (.ch (.lit 97))) [98, 97] id ⟨true, .int 0⟩ [.mtch] := by decide
/-- Dev `empty_adjacent`: "abc".split is fine but "abc".match(/b*/g) loses the empty match after "b" -/
example : (Model.builtinStringMatch (charEngine (dG false false) (.quant (.ch (.lit 98)) .star false)) ⟨true, .int 0⟩ [97, 98, 99]).2
    ≠ (Spec.stringMatch (es5Eng (dE false false) (.quant (.ch (.lit 98)) .star false)) ⟨true, .int 0⟩ [97, 98, 99]).2 := by decide
/-- non-vacuity of exec_end_to_end: /a+?b|c/ on "xaabc" -/
example : (Re.alt (.seq (.quant (.ch (.lit 97)) .plus true) (.ch (.lit 98))) (.ch (.lit 99))).simpleLoops = true ∧
    noLeftCtx (Re.alt (.seq (.quant (.ch (.lit 97)) .plus true) (.ch (.lit 98))) (.ch (.lit 99))) = true := by decide
example : ascii [120, 97, 97, 98, 99] := by intro b hb; simp at hb; omega

/-! ## 6. witnesses of the byte-offset and syntax deviation regions (the driver's concrete engines) -/
section
open OttoVerif OttoVerif.C10.Driver

/-- Dev `astral_subject`: /^.$/ on U+1F600 (one code point, two code units) -/
example : Model.run (goEngine (dG false false) (.seq .bol (.seq .dot .eol))) [0xF0, 0x9F, 0x98, 0x80] ⟨false, .int 0⟩ [.test]
    ≠ Spec.run (es5Engine (dE false false) (.seq .bol (.seq .dot .eol))) (Str.unitsOfBytes [0xF0, 0x9F, 0x98, 0x80]) Str.unitsOfBytes ⟨false, .int 0⟩ [.test] := by decide
/-- Dev `lenient_syntax`: `a{,2}` is not an ES5 pattern; it is passed through and Go accepts it -/
example : parsePattern false [97, 123, 44, 50, 125] = .err ∧ Model.transform (fun _ => false) [97, 123, 44, 50, 125] = .ok [97, 123, 44, 50, 125]
    ∧ parsePattern true [97, 123, 44, 50, 125] ≠ .err := by decide
/-- counts with leading zeros are in the proved subset: `a{01,003}` ↦ `a{1,3}` -/
example : transform (fun _ => false) (printES5 (.quant (.ch (.lit 97)) (.repRange [48, 49] [48, 48, 51]) true)) =
    .ok [97, 123, 49, 44, 51, 125, 63] := by
  rw [transform_syntax _ _ (by decide)]; decide
/-- Dev `repeat_limit`: `a{1001}` -/
example : parsePattern false [97, 123, 49, 48, 48, 49, 125] ≠ .err ∧ parsePattern true [97, 123, 49, 48, 48, 49, 125] = .err := by decide
end

end OttoVerif.C10.Thm
