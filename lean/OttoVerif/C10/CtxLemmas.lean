/-
  C10/CtxLemmas — context-freeness of the matcher (a pattern without ^ \b \B matches in a suffix
  exactly as in the whole string, shifted) and, from it, the instance of `Link` for the real
  matcher: otto's "engine on target[index:]" protocol is the ES5 search.
-/
import OttoVerif.C10.MatchLemmas
import OttoVerif.C10.ProtoLemmas
namespace OttoVerif.C10.Lem
open OttoVerif.C10

/-- no `^`, `\b`, `\B`: nothing in the pattern looks to the left of the current position -/
def noLeftCtx : Re → Bool
  | .bol | .wordb | .nwordb => false
  | .group r | .ncgroup r | .quant r _ _ | .look _ r => noLeftCtx r
  | .seq a b | .alt a b => noLeftCtx a && noLeftCtx b
  | _ => true

def shMS (k : Nat) (x : MS) : MS := { pos := x.pos + k, caps := shiftCaps k x.caps }

theorem setCap_shift (k : Nat) : ∀ (cs : List (Option (Nat × Nat))) (gi : Nat) (v : Option (Nat × Nat)),
    shiftCaps k (setCap cs gi v) = setCap (shiftCaps k cs) gi (v.map fun (a, b) => (a + k, b + k)) := by
  intro cs; induction cs with
  | nil => intro gi v; rfl
  | cons c cs ih =>
    intro gi v
    cases gi with
    | zero => simp [setCap, shiftCaps]
    | succ g =>
      have := ih g v
      simp only [shiftCaps] at this
      simp [setCap, shiftCaps, this]

theorem resetCaps_shift (k : Nat) : ∀ (n : Nat) (cs : List (Option (Nat × Nat))) (gi : Nat),
    shiftCaps k (resetCaps cs gi n) = resetCaps (shiftCaps k cs) gi n := by
  intro n; induction n with
  | zero => intro cs gi; rfl
  | succ n ih =>
    intro cs gi
    simp only [resetCaps]
    rw [ih, setCap_shift]
    rfl

theorem stepChar_drop (s : List Nat) (k : Nat) (t : Nat → Bool) (x : MS) :
    (stepChar (s.drop k) t x).map (shMS k) = stepChar s t (shMS k x) := by
  unfold stepChar
  have : (s.drop k)[x.pos]? = s[(shMS k x).pos]? := by
    simp [shMS, List.getElem?_drop, Nat.add_comm]
  rw [this]
  cases s[(shMS k x).pos]? with
  | none => rfl
  | some c =>
    simp only
    split
    · simp [shMS]; omega
    · rfl

theorem atEol_drop (d : Dialect) (s : List Nat) (k : Nat) (hk : k ≤ s.length) (p : Nat) :
    atEol d (s.drop k) p = atEol d s (p + k) := by
  unfold atEol
  have h1 : (s.drop k)[p]? = s[p + k]? := by simp [List.getElem?_drop, Nat.add_comm]
  have h2 : (p == (s.drop k).length) = (p + k == s.length) := by
    simp only [List.length_drop]
    rw [Bool.eq_iff_iff]; simp only [beq_iff_eq]; omega
  rw [h1, h2]

theorem map_flatMap' {α β γ : Type} (l : List α) (f : α → List β) (g : β → γ) :
    (l.flatMap f).map g = l.flatMap (fun a => (f a).map g) := by
  induction l with
  | nil => rfl
  | cons a l ih => simp [List.flatMap_cons, ih]

theorem flatMap_map' {α β γ : Type} (l : List α) (f : α → β) (g : β → List γ) :
    (l.map f).flatMap g = l.flatMap (fun a => g (f a)) := by
  induction l with
  | nil => rfl
  | cons a l ih => simp [List.flatMap_cons, ih]

/-- repLoop commutes with a position shift when the body does -/
theorem repLoop_shift (g : Bool) (k : Nat) (f f' : MS → List MS) (hf : ∀ x, (f x).map (shMS k) = f' (shMS k x)) :
    ∀ fuel es5 min max x, (repLoop es5 g f fuel min max x).map (shMS k) = repLoop es5 g f' fuel min max (shMS k x) := by
  intro fuel; induction fuel with
  | zero => intro es5 min max x; rfl
  | succ fuel ih =>
    intro es5 min max x
    unfold repLoop
    split
    · rfl
    · have hiter : (((f x).flatMap fun y =>
            if es5 then (if min = 0 ∧ y.pos = x.pos then [] else repLoop es5 g f fuel (min - 1) (max.map (· - 1)) y)
            else (if max = none ∧ min ≤ 1 ∧ y.pos = x.pos then [y]
                  else repLoop (decide (max = none ∧ min ≤ 1)) g f fuel (min - 1) (max.map (· - 1)) y)).map (shMS k))
          = ((f' (shMS k x)).flatMap fun y =>
            if es5 then (if min = 0 ∧ y.pos = (shMS k x).pos then [] else repLoop es5 g f' fuel (min - 1) (max.map (· - 1)) y)
            else (if max = none ∧ min ≤ 1 ∧ y.pos = (shMS k x).pos then [y]
                  else repLoop (decide (max = none ∧ min ≤ 1)) g f' fuel (min - 1) (max.map (· - 1)) y)) := by
        rw [map_flatMap', ← hf x, flatMap_map']
        apply flatMap_congr'
        intro y _
        have hp : ((shMS k y).pos = (shMS k x).pos) ↔ (y.pos = x.pos) := by simp [shMS]
        cases es5 with
        | true =>
          simp only [if_true, hp]
          split
          · rfl
          · exact ih _ _ _ y
        | false =>
          simp only [Bool.false_eq_true, if_false, hp]
          split
          · rfl
          · exact ih _ _ _ y
      simp only at hiter ⊢
      split
      · exact hiter
      · split
        · rw [List.map_append, hiter]; rfl
        · rw [List.map_cons, hiter]

/-- **context-freeness of the matcher**: for a pattern that never looks left, matching in the suffix
    `s[k:]` is matching in `s` with all positions shifted by `k` -/
theorem m_shift (d : Dialect) (s : List Nat) (k : Nat) (hk : k ≤ s.length) : ∀ (r : Re), noLeftCtx r = true →
    ∀ (gi : Nat) (x : MS), (m d (s.drop k) r gi x).map (shMS k) = m d s r gi (shMS k x) := by
  intro r; induction r with
  | empty => intro _ gi x; rfl
  | ch sp => intro _ gi x; exact stepChar_drop s k _ x
  | dot => intro _ gi x; exact stepChar_drop s k _ x
  | cls kk => intro _ gi x; exact stepChar_drop s k _ x
  | set neg items => intro _ gi x; exact stepChar_drop s k _ x
  | eol =>
    intro _ gi x
    simp only [m, atEol_drop d s k hk x.pos]
    show (assertIf _ x).map (shMS k) = assertIf (atEol d s (x.pos + k)) (shMS k x)
    unfold assertIf; split <;> rfl
  | bol => intro h; simp [noLeftCtx] at h
  | wordb => intro h; simp [noLeftCtx] at h
  | nwordb => intro h; simp [noLeftCtx] at h
  | group r ih =>
    intro h gi x
    simp only [m, List.map_map]
    rw [← ih (by simpa [noLeftCtx] using h) (gi + 1) x, List.map_map]
    apply List.map_congr_left
    intro y _
    simp [shMS, setCap_shift]
  | ncgroup r ih => intro h gi x; exact ih (by simpa [noLeftCtx] using h) gi x
  | seq a b iha ihb =>
    intro h gi x
    simp [noLeftCtx] at h
    simp only [m]
    rw [map_flatMap', ← iha h.1 gi x, flatMap_map']
    apply flatMap_congr'
    intro y _
    exact ihb h.2 _ y
  | alt a b iha ihb =>
    intro h gi x
    simp [noLeftCtx] at h
    simp only [m, List.map_append, iha h.1, ihb h.2]
  | quant r q l ih =>
    intro h gi x
    simp only [m]
    have hfuel : (s.drop k).length - x.pos + q.min + 2 = s.length - (shMS k x).pos + q.min + 2 := by
      simp [shMS, List.length_drop]; omega
    rw [hfuel]
    apply repLoop_shift (hf := ?_)
    intro x'
    have := ih (by simpa [noLeftCtx] using h) gi (if d.es5 then { x' with caps := resetCaps x'.caps gi r.ngroups } else x')
    rw [this]
    congr 1
    cases d.es5 <;> simp [shMS, resetCaps_shift]
  | look n r _ => intro _ gi x; rfl
  | backref n => intro _ gi x; rfl

def toCaps (p : Nat × MS) : Caps := some (p.1, p.2.pos) :: p.2.caps

/-- Go's engine on the tree `r`, for ASCII subjects (byte offset = character index) -/
def charEngine (d : Dialect) (r : Re) : Model.Eng where
  findAt := fun s pos => (search d r s pos).map toCaps

/-- ES5 [[Match]] on the tree `r` -/
def es5Eng (d : Dialect) (r : Re) : Spec.SEng where
  matchAt := fun S q => (matchAt d r S q).map fun y => some (q, y.pos) :: y.caps

theorem shiftCaps_replicate (k n : Nat) : shiftCaps k (List.replicate n none) = List.replicate n none := by
  simp [shiftCaps]

theorem matchAt_shift (d : Dialect) (s : List Nat) (k : Nat) (hk : k ≤ s.length) (r : Re) (hr : noLeftCtx r = true) (p : Nat) :
    (matchAt d r (s.drop k) p).map (shMS k) = matchAt d r s (p + k) := by
  unfold matchAt
  rw [← List.head?_map, m_shift d s k hk r hr]
  simp [shMS, shiftCaps_replicate]

theorem searchFrom_shift (d : Dialect) (s : List Nat) (k : Nat) (hk : k ≤ s.length) (r : Re) (hr : noLeftCtx r = true) :
    ∀ n p, (searchFrom d r (s.drop k) n p).map (fun q => (q.1 + k, shMS k q.2)) = searchFrom d r s n (p + k) := by
  intro n; induction n with
  | zero => intro p; rfl
  | succ n ih =>
    intro p
    unfold searchFrom
    rw [← matchAt_shift d s k hk r hr p]
    cases matchAt d r (s.drop k) p with
    | some y => simp
    | none =>
      simp only [Option.map_none]
      have := ih (p + 1)
      rw [show p + 1 + k = p + k + 1 by omega] at this
      exact this

theorem searchFrom_bound (d : Dialect) (r : Re) (s : List Nat) : ∀ n p st y, searchFrom d r s n p = some (st, y) → st < p + n := by
  intro n; induction n with
  | zero => intro p st y h; simp [searchFrom] at h
  | succ n ih =>
    intro p st y h
    unfold searchFrom at h
    split at h
    · simp at h; omega
    · have := ih _ _ _ h; omega

theorem matchAt_end (d : Dialect) (r : Re) (s : List Nat) (p : Nat) (y : MS) (hp : p ≤ s.length)
    (h : matchAt d r s p = some y) : y.pos ≤ s.length := by
  unfold matchAt at h
  exact m_bound d s r 0 _ y (List.mem_of_mem_head? h) hp

theorem searchFrom_end (d : Dialect) (r : Re) (s : List Nat) : ∀ n p st y, searchFrom d r s n p = some (st, y) →
    p + n ≤ s.length + 1 → y.pos ≤ s.length := by
  intro n; induction n with
  | zero => intro p st y h; simp [searchFrom] at h
  | succ n ih =>
    intro p st y h hp
    unfold searchFrom at h
    split at h
    · rename_i y' hy'
      simp at h
      rw [← h.2]
      exact matchAt_end d r s p y' (by omega) hy'
    · exact ih _ _ _ h (by omega)

theorem searchFrom_dialect (i mm : Bool) (s : List Nat) (r : Re) (hs : r.simpleLoops = true) (ha : agree i mm s r) :
    ∀ n p, searchFrom (dE i mm) r s n p = searchFrom (dG i mm) r s n p := by
  intro n; induction n with
  | zero => intro p; rfl
  | succ n ih =>
    intro p
    unfold searchFrom
    have : matchAt (dE i mm) r s p = matchAt (dG i mm) r s p := by
      unfold matchAt; rw [match_preserved i mm s r hs ha]
    rw [this, ih]

theorem execLoop_es5Eng (d : Dialect) (r : Re) (t : List Nat) : ∀ n q,
    Spec.execLoop (es5Eng d r) t n q = (searchFrom d r t n q).map toCaps := by
  intro n; induction n with
  | zero => intro q; rfl
  | succ n ih =>
    intro q
    unfold Spec.execLoop searchFrom
    simp only [es5Eng]
    cases matchAt d r t q with
    | some y => simp [toCaps]
    | none => simp only [Option.map_none]; exact ih (q + 1)

/-- **the link holds for the real matcher**: pattern in the sub-subset, never looking left, atoms
    agreeing on the (ASCII) subject  ⟹  otto's "run Go's engine on the suffix" = the ES5 search -/
theorem link_matcher (i mm : Bool) (r : Re) (t : List Nat) (hasc : ascii t) (hsmall : (t.length : Int) < Model.maxInt64)
    (hs : r.simpleLoops = true) (hc : noLeftCtx r = true) (ha : agree i mm t r) :
    Link (charEngine (dG i mm) r) (es5Eng (dE i mm) r) t where
  asc := hasc
  small := hsmall
  find := by
    intro k hk
    simp only [charEngine, Spec.searchFrom, search]
    rw [execLoop_es5Eng, searchFrom_dialect i mm t r hs ha]
    have hfuel : (t.drop k).length + 1 - 0 = t.length + 1 - k := by simp [List.length_drop]; omega
    rw [hfuel]
    have hsh := searchFrom_shift (dG i mm) t k hk r hc (t.length + 1 - k) 0
    rw [Nat.zero_add] at hsh
    rw [← hsh]
    cases searchFrom (dG i mm) r (t.drop k) (t.length + 1 - k) 0 with
    | none => rfl
    | some q => simp [toCaps, shiftCaps, shMS]
  wf := by
    intro k c hk h
    simp only [charEngine, search] at h
    cases hq : searchFrom (dG i mm) r (t.drop k) ((t.drop k).length + 1 - 0) 0 with
    | none => rw [hq] at h; simp at h
    | some q =>
      rw [hq] at h; simp at h
      have hb := searchFrom_bound _ _ _ _ _ q.1 q.2 hq
      have he := searchFrom_end _ _ _ _ _ q.1 q.2 hq (by simp)
      refine ⟨q.1, q.2.pos, q.2.caps, ?_, ?_, ?_⟩
      · rw [← h]; rfl
      · simp [List.length_drop] at hb; omega
      · simp [List.length_drop] at hb he; omega
end OttoVerif.C10.Lem
