/-
  C10/Model — transcription of otto's matching protocol over an abstract engine.

    execRegExp            /repo/type_regexp.go:86
    execResultToArray     /repo/type_regexp.go:125
    builtinRegExpExec/Test /repo/builtin_regexp.go:43,53
    builtinStringMatch    /repo/builtin_string.go:146
    builtinStringFindAndReplaceString /repo/builtin_string.go:179
    builtinStringReplace  /repo/builtin_string.go:215
    builtinStringSearch   /repo/builtin_string.go:288
    builtinStringSplit    /repo/builtin_string.go:303
    newRegExpObject (flags) /repo/type_regexp.go:19

  Strings are Go strings = lists of UTF-8 bytes; all offsets are BYTE offsets, exactly as in the
  code.  The engine `Eng.findAt s pos` stands for regexp.(*Regexp).doExecute on the compiled
  translated pattern (leftmost-first match in `s` starting at or after byte `pos`, seeing all of
  `s` as context); `FindStringSubmatchIndex(t)` is `findAt t 0` and the `FindAll…` family is
  `allMatches` (regexp.go allMatches).  (The translation itself is C10/Transform.)  Core-only.
-/
import OttoVerif.Base.Str
import OttoVerif.C10.Proto
namespace OttoVerif.C10.Model
open OttoVerif OttoVerif.C10

structure Eng where
  findAt : List Nat → Nat → Option Caps

def maxInt64 : Int := 9223372036854775807
def minInt64 : Int := -9223372036854775808

/-- value_number.go:149 `number().int64` of a Number -/
def toInt64 : LI → Int
  | .int z => z                                  -- |z| < 2^63 assumed (the harness stays below 2^53)
  | .nan => 0
  | .pinf => maxInt64
  | .ninf => minInt64
  | .frac fl => if fl ≥ 0 then fl else fl + 1    -- int64(float) truncates

/-- builtin_string.go:89 utf16Length -/
def utf16Length (bs : List Nat) : Nat := (Str.unitsOfBytes bs).length

/-- the JS string value of a Go string, as the code units a script sees -/
def jsStr (bs : List Nat) : List Nat := Str.unitsOfBytes bs

/-- type_regexp.go utf16ByteOffset, the loop `for offset, chr := range s` -/
def byteOffLoop : Nat → List Nat → Nat → Nat → Nat → Nat × Bool
  | 0, _, off, count, units => (off, decide (count ≥ units))
  | f + 1, bs, off, count, units =>
    match Str.decodeRune bs with
    | none => (off, decide (count ≥ units))                     -- return len(s), count >= units
    | some (r, w) =>
      if count ≥ units then (off, true)
      else byteOffLoop f (bs.drop w) (off + w) (count + (if r > 0xFFFF then 2 else 1)) units

/-- type_regexp.go utf16ByteOffset: byte offset of a UTF-16 offset, false if it is not within s -/
def utf16ByteOffset (s : List Nat) (units : Int) : Nat × Bool :=
  if units < 0 then (0, false) else byteOffLoop (s.length + 1) s 0 0 units.toNat

/-- type_regexp.go:92-120: the body of execRegExp once `lastIndex` has been read as an int64 -/
def execAt (E : Eng) (rx : RX) (target : List Nat) (lastIndex : Int) : RX × Option Caps :=
  let index := if rx.global then lastIndex else 0
  let so := utf16ByteOffset target index
  let result : Option Caps := if so.2 then E.findAt (target.drop so.1) 0 else none
  match result with
  | none => ({ rx with lastIndex := .int 0 }, none)
  | some r =>
    let r' := shiftCaps so.1 r
    (if rx.global then { rx with lastIndex := .int (utf16Length (target.take (capEnd r'))) } else rx, some r')

/-- type_regexp.go:123 `this.get("lastIndex").number()` comes before `global` is looked at: lastIndex is
    read and converted (valueOf of an object is called) for EVERY expression, global or not -/
def execConvertsLastIndex (_global : Bool) : Bool := true

/-- type_regexp.go:86 execRegExp: new object state and the (absolute, byte) offsets -/
def execRegExp (E : Eng) (rx : RX) (target : List Nat) : RX × Option Caps :=
  execAt E rx target (toInt64 rx.lastIndex)

/-- type_regexp.go:125 execResultToArray -/
def execResultToArray (target : List Nat) (result : Caps) : Res :=
  let items := result.map fun o => o.map fun (a, b) => jsStr (slice target a b)
  let matchIndex := capStart result
  let matchIndex := if matchIndex ≠ 0 then utf16Length (target.take matchIndex) else 0
  .arr (some matchIndex) items

def builtinRegExpExec (E : Eng) (rx : RX) (target : List Nat) : RX × Res :=
  match execRegExp E rx target with
  | (rx', none) => (rx', .null)
  | (rx', some r) => (rx', execResultToArray target r)

def builtinRegExpTest (E : Eng) (rx : RX) (target : List Nat) : RX × Res :=
  match execRegExp E rx target with
  | (rx', none) => (rx', .bool false)
  | (rx', some _) => (rx', .bool true)

/-- width of the rune at byte `pos` (regexp.go inputString.step) -/
def widthAt (s : List Nat) (pos : Nat) : Nat :=
  match Str.decodeRune (s.drop pos) with
  | some (_, w) => w
  | none => 0

/-- regexp.go allMatches: successive matches, an empty match abutting the previous one is dropped -/
def allMatches (E : Eng) (s : List Nat) : Nat → Nat → Nat → Option Nat → List Caps
  | 0, _, _, _ => []
  | fuel + 1, n, pos, prev =>
    if n = 0 ∨ pos > s.length then [] else
    match E.findAt s pos with
    | none => []
    | some mt =>
      if capEnd mt = pos then
        let accept := !(some (capStart mt) == prev)
        let w := widthAt s pos
        let pos' := if w > 0 then pos + w else s.length + 1
        if accept then mt :: allMatches E s fuel (n - 1) pos' (some (capEnd mt))
        else allMatches E s fuel n pos' (some (capEnd mt))
      else mt :: allMatches E s fuel (n - 1) (capEnd mt) (some (capEnd mt))

/-- FindAll…(s, n): n < 0 means len(s)+1 -/
def findAll (E : Eng) (s : List Nat) (n : Option Nat) : List Caps :=
  allMatches E s (s.length + 2) (n.getD (s.length + 1)) 0 none

/-- builtin_string.go:146 builtinStringMatch -/
def builtinStringMatch (E : Eng) (rx : RX) (target : List Nat) : RX × Res :=
  if !rx.global then builtinRegExpExec E rx target
  else
    let result := findAll E target none
    match result.getLast? with
    | none => ({ rx with lastIndex := .int 0 }, .null)
    | some last =>
      let items := result.map fun mt => some (jsStr (slice target (capStart mt) (capEnd mt)))
      ({ rx with lastIndex := .int (utf16Length (target.take (capEnd last))) }, .arr none items)

/-- decimal digits of a natural number (strconv / ToString of a small integer) -/
def decDigitsAux : Nat → Nat → List Nat → List Nat
  | 0, _, acc => acc
  | f + 1, v, acc => if v < 10 then (48 + v) :: acc else decDigitsAux f (v / 10) ((48 + v % 10) :: acc)
def decDigits (v : Nat) : List Nat := decDigitsAux 32 v []

/-- builtin_string.go:185-216: expansion of one replacement string.  builtinStringReplaceRegexp is
    `\$(?:[\$\&\'\`]|0[1-9]|[1-9][0-9]|[1-9])` (leftmost-first: the two-digit forms are tried before
    `$1`…`$9`); a two-digit form that names no capture is `$n` followed by a digit. -/
def expandF (target : List Nat) (mt : Caps) : Nat → List Nat → List Nat
  | 0, _ => []
  | _ + 1, [] => []
  | _ + 1, [c] => [c]
  | f + 1, c0 :: c :: rest =>
    if c0 ≠ 36 then c0 :: expandF target mt f (c :: rest) else
    let matchCount := mt.length
    let grp (k : Nat) : List Nat :=
      if k ≥ matchCount then [] else
      match mt[k]? with
      | some (some (a, b)) => slice target a b
      | _ => []
    if c = 36 then 36 :: expandF target mt f rest
    else if c = 38 then slice target (capStart mt) (capEnd mt) ++ expandF target mt f rest
    else if c = 96 then target.take (capStart mt) ++ expandF target mt f rest
    else if c = 39 then target.drop (capEnd mt) ++ expandF target mt f rest
    else if c = 48 then
      match rest with
      | d :: rest' => if 49 ≤ d ∧ d ≤ 57 then grp (d - 48) ++ expandF target mt f rest' else 36 :: expandF target mt f (c :: rest)
      | [] => [36, 48]
    else if 49 ≤ c ∧ c ≤ 57 then
      match rest with
      | d :: rest' =>
        if 48 ≤ d ∧ d ≤ 57 then
          let nn := (c - 48) * 10 + (d - 48)
          if nn ≥ matchCount then grp (c - 48) ++ d :: expandF target mt f rest'     -- tail = the digit
          else grp nn ++ expandF target mt f rest'
        else grp (c - 48) ++ expandF target mt f rest
      | [] => grp (c - 48)
    else 36 :: expandF target mt f (c :: rest)

def expand (target : List Nat) (mt : Caps) (rv : List Nat) : List Nat := expandF target mt (rv.length + 1) rv

/-- the fixed reporting replacer used by the harness:
    function(){ "<" + [each argument: undefined → "U", else String(arg)].join(",") + ">" } -/
def reportArgs (args : List (List Nat)) : List Nat :=
  60 :: (List.intercalate [44] args) ++ [62]

/-- builtin_string.go:247-267: arguments of a function replacer for one match (as Go strings) -/
def replacerArgs (target : List Nat) (mt : Caps) : List (List Nat) :=
  (mt.map fun o => match o with | some (a, b) => slice target a b | none => [85]) ++
  [decDigits (utf16Length (target.take (capStart mt))), target]

/-- the loop of builtin_string.go:247 / :271 -/
def replaceLoop (target : List Nat) (f : Caps → List Nat) : List Caps → Nat → List Nat → List Nat × Nat
  | [], lastIndex, result => (result, lastIndex)
  | mt :: rest, lastIndex, result =>
    let result := if capStart mt ≠ lastIndex then result ++ slice target lastIndex (capStart mt) else result
    replaceLoop target f rest (capEnd mt) (result ++ f mt)

/-- builtin_string.go:215 builtinStringReplace with a RegExp search value;
    a function replacer's result (builtin_string.go:289-311) is appended as it is: no `$` expansion -/
def builtinStringReplace (E : Eng) (rx : RX) (target : List Nat) (repl : Repl) : RX × Res :=
  let found := findAll E target (if rx.global then none else some 1)
  let rx := if rx.global then { rx with lastIndex := .int 0 } else rx
  if found.isEmpty then (rx, .str (jsStr target)) else
  let f : Caps → List Nat := match repl with
    | .str rv => fun mt => expand target mt rv
    | .report => fun mt => reportArgs (replacerArgs target mt)
    | .const ret => fun _ => ret
    -- builtin_string.go:312-317: the arguments are string Values (undefined for an unmatched group), the
    -- offset an int Value, the last one stringValue(target): the receiver AFTER its conversion
    | .types => fun mt => typeReport [115, 116, 114, 105, 110, 103] mt true
  let (result, lastIndex) := replaceLoop target f found 0 []
  let result := if lastIndex ≠ target.length then result ++ target.drop lastIndex else result
  (rx, .str (jsStr result))

/-- the four regexp-observing replacers of the harness as state transformers on the RegExp object;
    none = the callback throws -/
def callbackS (E : Eng) (target : List Nat) (kind : Step) (rx : RX) : Option (RX × List Nat) :=
  match kind with
  | .replaceL => some (rx, 60 :: liText rx.lastIndex ++ [62])
  | .replaceW v => some ({ rx with lastIndex := v }, [])
  | .replaceE =>
    match builtinRegExpExec E rx target with
    | (rx', .arr (some i) _) => some (rx', 60 :: 109 :: natText i ++ 64 :: liText rx'.lastIndex ++ [62])
    | (rx', _) => some (rx', 60 :: 110 :: 64 :: liText rx'.lastIndex ++ [62])
  | _ => none

/-- builtin_string.go:300-321, the function-replacer loop with a replacer that changes the RegExp object -/
def replaceLoopS (target : List Nat) (cb : RX → Option (RX × List Nat)) : List Caps → RX → Nat → List Nat → Option (RX × List Nat × Nat)
  | [], rx, lastIndex, result => some (rx, result, lastIndex)
  | mt :: rest, rx, lastIndex, result =>
    let result := if capStart mt ≠ lastIndex then result ++ slice target lastIndex (capStart mt) else result
    match cb rx with
    | none => none
    | some (rx', text) => replaceLoopS target cb rest rx' (capEnd mt) (result ++ text)

/-- builtin_string.go:258 builtinStringReplace with a replacer that reads / writes / uses the RegExp itself.
    The global search and its `lastIndex = 0` (line 287-290) are complete BEFORE the first callback. -/
def builtinStringReplaceS (E : Eng) (rx : RX) (target : List Nat) (kind : Step) : RX × Res :=
  let found := findAll E target (if rx.global then none else some 1)
  let rx := if rx.global then { rx with lastIndex := .int 0 } else rx
  if found.isEmpty then (rx, .str (jsStr target)) else
  match replaceLoopS target (callbackS E target kind) found rx 0 [] with
  | none => (rx, .thrown)                    -- first callback threw: the object is as the search left it
  | some (rx', result, lastIndex) =>
    let result := if lastIndex ≠ target.length then result ++ target.drop lastIndex else result
    (rx', .str (jsStr result))

/-- builtin_string.go:288 builtinStringSearch -/
def builtinStringSearch (E : Eng) (rx : RX) (target : List Nat) : RX × Res :=
  match E.findAt target 0 with
  | none => (rx, .num (-1))
  | some r => (rx, .num (utf16Length (target.take (capStart r))))

/-- builtin_string.go:330-366: the loop over matches.  Returns (values, lastIndex, found, hitLimit) -/
def splitCaps (target : List Nat) (limit : Option Nat) : List (Option (Nat × Nat)) → Nat → List (Option (List Nat)) →
    List (Option (List Nat)) × Nat × Bool
  | [], found, vals => (vals, found, false)
  | c :: cs, found, vals =>
    let v := c.map fun (a, b) => jsStr (slice target a b)
    let vals := vals ++ [v]
    let found := found + 1
    if some found = limit then (vals, found, true) else splitCaps target limit cs found vals

def splitLoop (target : List Nat) (limit : Option Nat) : List Caps → Nat → Nat → List (Option (List Nat)) →
    List (Option (List Nat)) × Nat × Nat × Bool
  | [], lastIndex, found, vals => (vals, lastIndex, found, false)
  | mt :: rest, lastIndex, found, vals =>
    let a := capStart mt
    let b := capEnd mt
    if a = b ∧ (a = 0 ∨ a = target.length) then splitLoop target limit rest lastIndex found vals
    else
      let vals := if lastIndex ≠ a then vals ++ [some (jsStr (slice target lastIndex a))] else vals ++ [some []]
      let found := found + 1
      let lastIndex := b
      if some found = limit then (vals, lastIndex, found, true) else
      match splitCaps target limit (mt.drop 1) found vals with
      | (vals, found, true) => (vals, lastIndex, found, true)
      | (vals, found, false) => splitLoop target limit rest lastIndex found vals

/-- builtin_string.go:303 builtinStringSplit with a RegExp separator; `limit` = ToUint32(limit) or
    none for undefined (the code's -1) -/
def builtinStringSplit (E : Eng) (rx : RX) (target : List Nat) (limit : Option Nat) : RX × Res :=
  if limit = some 0 then (rx, .arr none []) else
  let result := findAll E target none
  if target.isEmpty ∧ !result.isEmpty then (rx, .arr none []) else      -- 15.5.4.14 step 11
  let (vals, lastIndex, found, hit) := splitLoop target limit result 0 0 []
  if hit then (rx, .arr none vals)
  else if some found ≠ limit then
    (rx, .arr none (vals ++ [some (jsStr (target.drop lastIndex))]))
  else (rx, .arr none vals)

/-- one step of a history -/
def step (E : Eng) (target : List Nat) (rx : RX) : Step → RX × Res
  | .exec => builtinRegExpExec E rx target
  | .test => builtinRegExpTest E rx target
  | .mtch => builtinStringMatch E rx target
  | .search => builtinStringSearch E rx target
  | .replaceS r => builtinStringReplace E rx target (.str r)
  | .replaceF => builtinStringReplace E rx target .report
  | .replaceK r => builtinStringReplace E rx target (.const r)
  | .replaceT => builtinStringReplace E rx target .types
  | .replaceL => builtinStringReplaceS E rx target .replaceL
  | .replaceW v => builtinStringReplaceS E rx target (.replaceW v)
  | .replaceE => builtinStringReplaceS E rx target .replaceE
  | .replaceX => builtinStringReplaceS E rx target .replaceX
  | .split l => builtinStringSplit E rx target l
  | .setLI v => ({ rx with lastIndex := v }, .undef)

/-- a whole history: results of every step and the lastIndex observed after it -/
def run (E : Eng) (target : List Nat) : RX → List Step → List (Res × LI)
  | _, [] => []
  | rx, s :: ss =>
    let (rx', r) := step E target rx s
    (r, rx'.lastIndex) :: run E target rx' ss

/-- type_regexp.go:30-52 flag scanning: none = SyntaxError (a repeated g, i or m, or any other
    character).  Result (global, ignoreCase, multiline). -/
def parseFlags : List Nat → Bool → Bool → Bool → Option (Bool × Bool × Bool)
  | [], g, i, mm => some (g, i, mm)
  | c :: cs, g, i, mm =>
    if c = 103 then (if g then none else parseFlags cs true i mm)
    else if c = 109 then (if mm then none else parseFlags cs g i true)
    else if c = 105 then (if i then none else parseFlags cs g true mm)
    else none

/-- type_regexp.go regExpSource: the `source` property – the empty pattern is `(?:)`, a `/` outside a
    class gets a backslash -/
def regExpSourceLoop : List Nat → Bool → Bool → List Nat
  | [], _, _ => []
  | c :: cs, escaped, inClass =>
    if escaped then c :: regExpSourceLoop cs false inClass
    else if c = 92 then c :: regExpSourceLoop cs true inClass
    else if c = 91 then c :: regExpSourceLoop cs false true
    else if c = 93 then c :: regExpSourceLoop cs false false
    else if c = 47 ∧ !inClass then 92 :: c :: regExpSourceLoop cs false inClass
    else c :: regExpSourceLoop cs false inClass

def regExpSource (pattern : List Nat) : List Nat :=
  if pattern.isEmpty then [40, 63, 58, 41] else regExpSourceLoop pattern false false

/-- type_regexp.go:73 `flags: flags` – what regExpObject keeps for global.go:131 newRegExp(R):
    the flags string the object was built with -/
def storedFlags (flags : List Nat) : List Nat := flags

/-- global.go:131 newRegExp / builtin_regexp.go:9 builtinRegExp with a RegExp object R as pattern.
    `withNew = false` is the call RegExp(R).  Result: none = TypeError (flags supplied);
    some (same, pattern, flags) = the object itself, or a new object built from (pattern, flags). -/
def fromRegExp (pat flags : List Nat) (withNew : Bool) (flagsGiven : Bool) : Option (Bool × List Nat × List Nat) :=
  if !withNew ∧ !flagsGiven then some (true, pat, flags)
  else if flagsGiven then none
  else some (false, pat, storedFlags flags)

end OttoVerif.C10.Model
