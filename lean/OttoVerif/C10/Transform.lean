/-
  C10/Transform — transcription of parser.TransformRegExp (/repo/parser/regexp.go:33-349,
  read() at /repo/parser/lexer.go:447) over code points.

  Conventions.  The parser state (str, offset, chrOffset, chr) is the list of code points from
  the current character on (`[]` ⇔ p.chr = -1); `p.read()` drops the head; `p.pass()` emits the
  head and drops it.  goRegexp / errors / invalid are the record `St`.  The three loops take
  fuel (one unit per loop iteration; `length + 1` is always enough – theorem
  `Lemmas.loop_fuel_irrel`).  The pattern is assumed to be valid UTF-8 (invalid bytes would
  additionally set the error flag, lexer.go:453) and octal escape values are assumed < 2^63.
  `idc` stands for `unicodeIDContinue` on non-ASCII code points (lexer.go:102).
-/
import OttoVerif.C10.Re
namespace OttoVerif.C10.Model

structure St where
  out : List Nat          -- p.goRegexp
  err : Bool              -- len(p.errors) > 0
  inv : Bool              -- p.invalid
  deriving Repr, DecidableEq, Inhabited

def St.emit (s : St) (cs : List Nat) : St := { s with out := s.out ++ cs }
def St.fail (s : St) : St := { s with err := true }
def St.bad (s : St) : St := { s with err := true, inv := true }

/-- lexer.go:29 digitValue -/
def digitValue (c : Nat) : Nat := hexVal c

/-- lexer.go:98 isIdentifierPart -/
def isIdentifierPart (idc : Nat → Bool) (c : Nat) : Bool :=
  c = 36 ∨ c = 95 ∨ c = 92 ∨ (97 ≤ c ∧ c ≤ 122) ∨ (65 ≤ c ∧ c ≤ 90) ∨ (48 ≤ c ∧ c ≤ 57) ∨ (c ≥ 128 ∧ idc c)

/-- regexp.go:144-153: consume octal digits; (value, size, rest) -/
def octLoop : List Nat → Nat → Nat → Nat × Nat × List Nat
  | [], v, n => (v, n, [])
  | c :: cs, v, n =>
    if n = 3 ∨ (n = 2 ∧ v ≥ 32) then (v, n, c :: cs)              -- at most \377
    else if digitValue c < 8 then octLoop cs (v * 8 + digitValue c) (n + 1) else (v, n, c :: cs)

/-- regexp.go:180-188: consume decimal digits; (consumed, rest) -/
def decLoop : List Nat → List Nat × List Nat
  | [] => ([], [])
  | c :: cs => if digitValue c < 10 then let (a, r) := decLoop cs; (c :: a, r) else ([], c :: cs)

/-- strconv.AppendInt(·, v, 16) for v ≥ 0 -/
def hexDigitsAux : Nat → Nat → List Nat → List Nat
  | 0, _, acc => acc
  | f + 1, v, acc => if v < 16 then hexChar v :: acc else hexDigitsAux f (v / 16) (hexChar (v % 16) :: acc)
def hexDigits (v : Nat) : List Nat := hexDigitsAux 64 v []

/-- regexp.go:165-171 / 253-259:  `\x0` + hex  or  `\x` + hex -/
def hexEsc (v : Nat) : List Nat :=
  if v ≥ 16 then [92, 120] ++ hexDigits v else [92, 120, 48] ++ hexDigits v

/-- regexp.go:287-295: read up to `len` hex digits; (consumed, rest, ok) -/
def hexLoop : Nat → List Nat → List Nat × List Nat × Bool
  | 0, cs => ([], cs, true)
  | _ + 1, [] => ([], [], false)
  | n + 1, c :: cs =>
    if digitValue c < 16 then let (a, r, ok) := hexLoop n cs; (c :: a, r, ok) else ([], c :: cs, false)

/-- regexp.go:136 scanEscape; the argument is the text after the backslash -/
def scanEscape (idc : Nat → Bool) (inClass : Bool) (inp : List Nat) (st : St) : St × List Nat :=
  match inp with
  | [] =>
    -- p.chr = -1: default branch, !isIdentifierPart(-1); pass() writes nothing
    (st.emit [92], [])
  | c :: cs =>
    if 48 ≤ c ∧ c ≤ 55 then
      let (value, size, rest) := octLoop (c :: cs) 0 0
      if size = 1 then
        let st := st.emit [92, value % 256 + 48]
        (if value ≠ 0 then st.fail else st, rest)
      else (st.emit (hexEsc value), rest)
    else if c = 56 ∨ c = 57 then
      let (ds, rest) := decLoop (c :: cs)
      ((st.emit (92 :: ds)).fail, rest)
    else if c = 120 ∨ c = 117 then
      let len := if c = 120 then 2 else 4
      let (ds, rest, ok) := hexLoop len cs
      if ok then
        if c = 117 then (st.emit ([92, 120, 123] ++ ds ++ [125]), rest)
        else (st.emit ([92, 120] ++ ds), rest)
      else (st.emit (c :: ds), rest)                      -- skip: p.str[offset:p.chrOffset]
    else if c = 98 ∧ inClass then (st.emit [92, 120, 48, 56], cs)
    else if c = 98 ∨ c = 66 ∨ c = 100 ∨ c = 68 ∨ c = 115 ∨ c = 83 ∨ c = 119 ∨ c = 87 ∨ c = 92 ∨
            c = 102 ∨ c = 110 ∨ c = 114 ∨ c = 116 ∨ c = 118 then
      (st.emit [92, c], cs)
    else if c = 99 then
      match cs with
      | l :: ls =>
        if 97 ≤ l ∧ l ≤ 122 then (st.emit (hexEsc (l - 97 + 1)), ls)
        else if 65 ≤ l ∧ l ≤ 90 then (st.emit (hexEsc (l - 65 + 1)), ls)
        else (st.emit [99], cs)
      | [] => (st.emit [99], [])
    else if c = 36 ∨ (c < 128 ∧ !isIdentifierPart idc c) then (st.emit [92, c], cs)
    else (st.emit [c], cs)

/-- regexp.go:134 the loop of scanBracket (after the `[` has been passed) -/
def scanBracket (idc : Nat → Bool) : Nat → List Nat → St → St × List Nat
  | 0, _, st => (st.bad, [])
  | _ + 1, [], st => (st.bad, [])                                  -- Unterminated character class
  | n + 1, c :: cs, st =>
    if c = 93 then (st.emit [93], cs)
    else if c = 92 then
      let (st', rest) := scanEscape idc true cs st
      scanBracket idc n rest st'
    else scanBracket idc n cs (st.emit [c])

/-- regexp.go scanRepeatCount, first inner loop: drop every `0` that is followed by a digit -/
def nextIsDigit : List Nat → Bool
  | d :: _ => isDigitC d
  | [] => false

def stripZeros : List Nat → List Nat
  | [] => []
  | c :: cs => if c = 48 ∧ nextIsDigit cs = true then stripZeros cs else c :: cs

/-- second inner loop: pass the digits; (passed, rest) -/
def passDigits : List Nat → List Nat × List Nat
  | [] => ([], [])
  | c :: cs => if isDigitC c then let (a, r) := passDigits cs; (c :: a, r) else ([], c :: cs)

/-- regexp.go scanRepeatCount (after the `{` has been passed): counts without their leading zeros,
    separated by the commas -/
def scanRepeat : Nat → List Nat → St → St × List Nat
  | 0, inp, st => (st, inp)
  | f + 1, inp, st =>
    let (ds, r) := passDigits (stripZeros inp)
    match r with
    | 44 :: r' => scanRepeat f r' (st.emit (ds ++ [44]))
    | _ => (st.emit ds, r)

/-- regexp.go scanRepeatCount, the test at its start: the text after `{` is digits, optionally `,` and
    digits, then `}` -/
def validCount (inp : List Nat) : Bool :=
  let (d1, r1) := passDigits inp
  if d1.isEmpty then false else
  match r1 with
  | 125 :: _ => true
  | 44 :: r2 => (passDigits r2).2.head? == some 125
  | _ => false

/-- regexp.go scanRepeatCount: only a well-formed count is touched -/
def scanRepeat0 (inp : List Nat) (st : St) : St × List Nat :=
  if validCount inp then scanRepeat (inp.length + 1) inp st else (st, inp)

/-- `^\x00-\x{10FFFF}]` and `\x00-\x{10FFFF}]` -/
def fullRange : List Nat := [92, 120, 48, 48, 45, 92, 120, 123, 49, 48, 70, 70, 70, 70, 125, 93]

/-- regexp.go:116-133: scanBracket's entry: `[]` and `[^]` are written as the empty / the full class,
    anything else goes to the loop -/
def scanBracket0 (idc : Nat → Bool) (n : Nat) (inp : List Nat) (st : St) : St × List Nat :=
  match inp with
  | 93 :: cs => (st.emit (94 :: fullRange), cs)
  | 94 :: 93 :: cs => (st.emit fullRange, cs)
  | _ => scanBracket idc n inp st

/-- regexp.go:83-94: the test at the start of scanGroup: look-ahead (unsupported) or a `(?` that is
    neither `(?:` nor a look-ahead (invalid) -/
def lookCheck (inp : List Nat) (st : St) : St :=
  match inp with
  | 63 :: d :: _ => if d = 61 ∨ d = 33 then st.fail else if d ≠ 58 then st.bad else st      -- (?i) (?P<…: Invalid group
  | _ => st

/-- regexp.go:59 scan (`top = true`) and regexp.go:82 scanGroup's loop (`top = false`) -/
def loop (idc : Nat → Bool) (top : Bool) : Nat → List Nat → St → St × List Nat
  | 0, _, st => (st.bad, [])
  | _ + 1, [], st => if top then (st, []) else (st.bad, [])        -- Unterminated group
  | n + 1, c :: cs, st =>
    if c = 92 then
      let (st', rest) := scanEscape idc false cs st
      loop idc top n rest st'
    else if c = 40 then
      let (st', rest) := loop idc false n cs (lookCheck cs (st.emit [40]))
      loop idc top n rest st'
    else if c = 91 then
      let (st', rest) := scanBracket0 idc n cs (st.emit [91])
      loop idc top n rest st'
    else if c = 41 then
      if top then loop idc true n cs (st.bad.emit [41])            -- Unmatched ')'
      else (st.emit [41], cs)
    else if c = 123 then
      let (st', rest) := scanRepeat0 cs (st.emit [123])
      loop idc top n rest st'
    else loop idc top n cs (st.emit [c])

inductive TRes
  | ok (pat : List Nat)               -- (pattern, nil)
  | incompatible (pat : List Nat)     -- (pattern, err): valid JavaScript, not translatable
  | invalid                           -- ("", err)
  deriving Repr, DecidableEq, Inhabited

/-- regexp.go:33 TransformRegExp -/
def transform (idc : Nat → Bool) (pattern : List Nat) : TRes :=
  if pattern.isEmpty then .ok [] else
  let (st, _) := loop idc true (pattern.length + 1) pattern { out := [], err := false, inv := false }
  if st.inv then .invalid
  else if st.err then .incompatible st.out
  else .ok st.out

end OttoVerif.C10.Model
