/-
  C02/Model — the panic protocol at the public API boundary.
  error.go:224 catchPanic: which recovered panic payloads become a returned `error`, and which are
  re-panicked into the embedding program; runtime.go:118 tryCatchEvaluate: which payloads a script-level
  `try` converts into a JavaScript exception value.
-/
namespace OttoVerif.C02

/-- dynamic type of a recovered panic value, as the two `switch caught.(type)` see it -/
inductive Payload where
  | exceptionOf (inner : Payload)   -- *exception wrapping a value (newException): eject() unwraps it
  | errorPtr                         -- *Error
  | ottoError                        -- ottoError (panicTypeError, panicRangeError, … produce it inside *exception)
  | jsValue (isErrorObject : Bool)   -- Value (a thrown JavaScript value; Error objects carry an ottoError)
  | goError                          -- any Go `error` (fmt.Errorf, runtime.Error: nil deref, index out of range, failed assertion)
  | goString                         -- a string (hereBeDragons, fmt.Sprintf)
  | other                            -- anything else (an interrupt's halt value, a host function's panic value)
deriving DecidableEq, Repr

inductive ApiOutcome where
  | returnsError      -- the public entry point returns (value, error)
  | repanics          -- the Go panic continues into the embedding program
deriving DecidableEq, Repr

/-- `excep.eject()`: one level of unwrapping, as both switches do -/
def eject : Payload → Payload
  | .exceptionOf p => p
  | p => p

/-- catchPanic (error.go:224) -/
def catchPanic (p : Payload) : ApiOutcome :=
  match eject p with
  | .errorPtr => .returnsError
  | .ottoError => .returnsError
  | .jsValue _ => .returnsError
  | _ => .repanics

/-- the payload kinds the interpreter itself raises for JavaScript-level errors -/
def jsRaised : Payload → Bool
  | .exceptionOf (.jsValue _) => true     -- throw statement: panic(newException(value))
  | .exceptionOf .ottoError => true       -- rt.panicTypeError / panicRangeError / panicReferenceError / panicSyntaxError
  | .ottoError => true
  | .errorPtr => true
  | .jsValue _ => true
  | _ => false

inductive TryOutcome where
  | caughtAsJsValue   -- the catch block runs with a JavaScript value
  | propagates
deriving DecidableEq, Repr

/-- tryCatchEvaluate (runtime.go:118): recovers EVERY panic value; the default arm converts with
    toValue (which itself raises a TypeError for types it does not know) -/
def tryCatch (_p : Payload) : TryOutcome := .caughtAsJsValue

end OttoVerif.C02
