/-
  C02/Theorems — ledger for property C02.
-/
import OttoVerif.C02.Model
import OttoVerif.C02.GenFacts
import OttoVerif.C18.Theorems
namespace OttoVerif.C02.Thm
open OttoVerif.C02

/-- C02.api_total: every payload kind the interpreter raises for JavaScript-level errors (throw
    statements, TypeError/RangeError/ReferenceError/SyntaxError raised by built-ins and the evaluator)
    is converted into a returned error by every public entry point that runs under catchPanic. -/
theorem api_total (p : Payload) (h : jsRaised p = true) : catchPanic p = .returnsError := by
  cases p with
  | exceptionOf q => cases q <;> simp_all [jsRaised, catchPanic, eject]
  | errorPtr => rfl
  | ottoError => rfl
  | jsValue b => rfl
  | goError => simp [jsRaised] at h
  | goString => simp [jsRaised] at h
  | other => simp [jsRaised] at h

/-- exact characterisation: a panic escapes the public API iff, after one unwrapping, it is a Go
    error (which includes every Go run-time error), a string, or a foreign value -/
theorem catchPanic_repanics_iff (p : Payload) :
    catchPanic p = .repanics ↔
      (eject p = .goError ∨ eject p = .goString ∨ eject p = .other ∨ ∃ q, eject p = .exceptionOf q) := by
  cases p with
  | exceptionOf q => cases q <;> simp [catchPanic, eject]
  | errorPtr => simp [catchPanic, eject]
  | ottoError => simp [catchPanic, eject]
  | jsValue b => simp [catchPanic, eject]
  | goError => simp [catchPanic, eject]
  | goString => simp [catchPanic, eject]
  | other => simp [catchPanic, eject]

example : catchPanic (.exceptionOf .ottoError) = .returnsError := by decide
example : catchPanic .goError = .repanics := by decide       -- e.g. a nil dereference inside a built-in

/-- C02.depth_guard = C18.depth_exact: with a stack limit unbounded recursion ends in the
    (catchable, see api_total) RangeError and never exceeds the limit -/
theorem depth_guard (limit : Nat) (hl : limit ≠ 0) (d b : Nat) (t : OttoVerif.C18.Stack) :
    (OttoVerif.C18.runAct limit (OttoVerif.C18.nest d) (b :: t)).2 =
      (if b + d + 1 < limit then OttoVerif.C18.Outcome.done else OttoVerif.C18.Outcome.rangeError) :=
  OttoVerif.C18.Thm.depth_exact limit hl d b t

/-- premise of `depth_guard` about the code (regenerated fact, see C18.Thm.scope_writers_expected):
    the scope chain head is assigned only by enterScope / leaveScope, so no route into a scope
    (function, global, eval, native) bypasses the limit check or restarts the depth count -/
theorem depth_guard_premise : OttoVerif.C18.Gen.scopeWriters = ["runtime.go:enterScope", "runtime.go:leaveScope"] :=
  OttoVerif.C18.Thm.scope_writers_expected

/-! Regenerated facts (go/types over the current sources of package otto) -/

/-- P1: no built-in dereferences the receiver's object without converting or checking it
    (`call.This.object()` is nil for a primitive receiver).  The two remaining uses are the `caller`
    getters of function objects (since fix ad5fc82 they read the receiver of the call they serve):
    the pointer is only COMPARED with the functions of the active frames, never dereferenced
    (`Object.getOwnPropertyDescriptor(f, "caller").get.call(5)` is null). -/
theorem no_raw_receiver_object : Gen.rawReceiverObject =
    [("runtime.newNativeFunctionObject", "This.object()"), ("runtime.newNodeFunctionObject", "This.object()")] := by decide

/-- P2: the constant-index reads of the argument list are exactly the ones known to sit behind a
    length test (Math.max/min after `case 0/1`, Object.assign after the length check,
    lastIndexOf after `2 > len`) -/
theorem const_argument_reads_expected : Gen.constArgumentIndex =
    [("builtinMathMax", "ArgumentList[0]"), ("builtinMathMax", "ArgumentList[0]"),
     ("builtinMathMin", "ArgumentList[0]"), ("builtinMathMin", "ArgumentList[0]"),
     ("builtinObjectAssign", "ArgumentList[0]"),
     ("builtinStringLastIndexOf", "ArgumentList[1]"), ("builtinStringLastIndexOf", "ArgumentList[1]")] := by decide

/-- P4: the single-value type assertions `x.(T)` of package otto (each a possible "interface
    conversion" run-time panic) are exactly the audited ones: payload assertions behind a class
    dispatch (`obj.value.(*goSliceObject)` in the goSlice class functions, `obj.value.(argumentsObject)`
    in the arguments class functions, …), `v.value.(*object)` behind a kind test, the array `length`
    payload (kept uint32 by arrayDefineOwnProperty), compiler node kinds.  A NEW unchecked assertion —
    e.g. one applied to a call's receiver — shows up here before any input reaches it. -/
theorem unchecked_assertions_expected : Gen.uncheckedAssertions =
    [("Value.Class", "v.value.(*object)"),
     ("Value.IsFunction", "v.value.(*object)"),
     ("Value.bool", "v.value.(bool)"),
     ("Value.carried", "v.value.(result)"),
     ("Value.carrying", "v.value.(result)"),
     ("Value.evaluateBreak", "v.value.(result)"),
     ("Value.evaluateBreakContinue", "v.value.(result)"),
     ("Value.exportPath", "lengthValue.value.(uint32)"),
     ("Value.isArray", "v.value.(*object)"),
     ("Value.isBooleanObject", "v.value.(*object)"),
     ("Value.isDate", "v.value.(*object)"),
     ("Value.isError", "v.value.(*object)"),
     ("Value.isNumberObject", "v.value.(*object)"),
     ("Value.isRegExp", "v.value.(*object)"),
     ("Value.isStringObject", "v.value.(*object)"),
     ("argumentsDefineOwnProperty", "obj.value.(argumentsObject)"),
     ("argumentsDefineOwnProperty", "obj.value.(argumentsObject)"),
     ("argumentsDelete", "obj.value.(argumentsObject)"),
     ("argumentsDelete", "obj.value.(argumentsObject)"),
     ("argumentsGet", "obj.value.(argumentsObject)"),
     ("argumentsGetOwnProperty", "obj.value.(argumentsObject)"),
     ("arrayDefineOwnProperty", "lengthValue.value.(uint32)"),
     ("builtinJSONStringify", "spaceValue.value.(*object)"),
     ("builtinJSONStringify", "value.value.(*object)"),
     ("builtinJSONStringifyWalk", "value.object(…).value.(Value)"),
     ("builtinJSONStringifyWalk", "value.value.(*object)"),
     ("builtinNewFunctionNative", "cmplFunction.(*nodeFunctionLiteral)"),
     ("compiler.parse", "cmpl.parseExpression(…).(*nodeFunctionLiteral)"),
     ("compiler.parseExpression", "cmpl.parseExpression(…).(*nodeFunctionLiteral)"),
     ("fnStash.clone", "s.dclStash.clone(…).(*dclStash)"),
     ("goArrayDefineOwnProperty", "obj.value.(*goArrayObject)"),
     ("goArrayDefineOwnProperty", "obj.value.(*goArrayObject)"),
     ("goArrayDelete", "obj.value.(*goArrayObject)"),
     ("goArrayEnumerate", "obj.value.(*goArrayObject)"),
     ("goArrayGetOwnProperty", "obj.value.(*goArrayObject)"),
     ("goArrayGetOwnProperty", "obj.value.(*goArrayObject)"),
     ("goArrayGetOwnProperty", "obj.value.(*goArrayObject)"),
     ("goMapDefineOwnProperty", "obj.value.(*goMapObject)"),
     ("goMapDelete", "obj.value.(*goMapObject)"),
     ("goMapEnumerate", "obj.value.(*goMapObject)"),
     ("goMapGetOwnProperty", "obj.value.(*goMapObject)"),
     ("goMapGetOwnProperty", "obj.value.(*goMapObject)"),
     ("goSliceDefineOwnProperty", "obj.value.(*goSliceObject)"),
     ("goSliceDefineOwnProperty", "obj.value.(*goSliceObject)"),
     ("goSliceDelete", "obj.value.(*goSliceObject)"),
     ("goSliceEnumerate", "obj.value.(*goSliceObject)"),
     ("goSliceGetOwnProperty", "obj.value.(*goSliceObject)"),
     ("goSliceGetOwnProperty", "obj.value.(*goSliceObject)"),
     ("goSliceGetOwnProperty", "obj.value.(*goSliceObject)"),
     ("goStructCanPut", "obj.value.(*goStructObject)"),
     ("goStructEnumerate", "obj.value.(*goStructObject)"),
     ("goStructGetOwnProperty", "obj.value.(*goStructObject)"),
     ("goStructMarshalJSON", "obj.value.(*goStructObject)"),
     ("goStructPut", "obj.value.(*goStructObject)"),
     ("jsonValue.UnmarshalJSON", "name.(string)"),
     ("newContext", "rt.globalObject.property[…].value.(Value)"),
     ("newContext", "rt.globalObject.property[…].value.(…).value.(*object)"),
     ("newError", "in[…].(string)"),
     ("newError", "in[…].(string)"),
     ("objectDefineOwnProperty", "descriptor.value.(Value)"),
     ("objectLength", "obj.get(…).value.(int)"),
     ("objectLength", "obj.get(…).value.(int)"),
     ("objectLength", "obj.get(…).value.(uint32)"),
     ("runtime.cmplEvaluateNodeObjectLiteral", "prop.value.(*nodeFunctionLiteral)"),
     ("runtime.cmplEvaluateNodeObjectLiteral", "prop.value.(*nodeFunctionLiteral)"),
     ("runtime.cmplEvaluateNodeStatement", "variable.(*nodeVariableExpression)"),
     ("runtime.convertCallParameterPath", "r.Interface(…).(TextUnmarshaler)"),
     ("runtime.newErrorObject", "obj.value.(ottoError)"),
     ("runtime.newErrorObjectError", "obj.value.(ottoError)"),
     ("stringDefineOwnProperty", "prop.value.(Value)")] := by decide

/-- P3: the explicit `panic(x)` sites of package otto whose payload is none of the kinds Run converts
    (*exception, ottoError, *Error, Value), as (function, static payload type).  Every entry was gone
    through by hand (NOTES.md `## C02`, "audit of the unconverted panic sites"): for each one the argument
    why no source text and no API value reaches it is written down there, together with the probe scripts
    that aim at it (they run as `src` requests of the stream).  An earlier version of this comment called the
    list "internal-invariant sites" without that audit, and two entries were reachable after all by any
    script holding a bridged Go map / slice (`Value.toReflectValue`, `stringToReflectValue`: fixed by
    2574b6b / 0a892bc - they now raise a TypeError and left the list).  What remains:
    * unknown AST / node / token / property-kind branches of closed switches (compiler.parse*,
      runtime.cmplEvaluateNode*, runtime.calculate*): the parser produces no other node, the only AST
      placeholders it produces without a case (BadExpression / BadStatement) are a SyntaxError since 9f0855f;
      a hand-built *ast.Program with nil or foreign nodes is outside the property (sources are text);
    * value kinds empty / result / reference reaching a conversion or comparison (Value.bool / float64 /
      string, toPrimitive, sameValue, strictEqualityComparison, testObjectCoercible, calculateComparison):
      every expression result is resolved before use, `empty` is produced by statements and array elisions
      only and is filtered by eval, newArrayOf and every API return (`safe()`);
    * binding bookkeeping (dclStash.*, objectStash.createBinding, getStashProperties): guarded by hasBinding
      with no script code between test and use; a reference is resolved before any other code can delete
      the binding (assignment targets go through setValue, which re-creates);
    * arrayDefineOwnProperty: `length` of an Array is an own, non-configurable data property;
      cloner.property: writeProperty stores a Value or a getter/setter pair, nothing else;
    * New: a registered start-up script fails (embedder's registry, not a script's doing);
    * catchPanic (2): re-raises a foreign panic unchanged, by design (C18 trycatch_foreign; the second
      since 73a8a0f inside the guarded string conversion, widened by 95e8d32).
    * runtime.interrupt / runtime.tryCatchEvaluate (fd4edef, a1dbda4): both re-raise, unchanged, the value a
      host interrupt function panicked with – the one kind of panic the property lets through.
    A new `panic(<non-exception>)` anywhere in the package shows up here and has to be audited. -/
theorem unconverted_panics_expected : Gen.unconvertedPanics =
    [("New", "error"), ("Value.bool", "string"), ("Value.float64", "error"), ("Value.string", "error"),
     ("arrayDefineOwnProperty", "string"), ("catchPanic", "interface{}"),
     ("catchPanic", "interface{}"), ("cloner.property", "error"), ("compiler.parse", "string"), ("compiler.parseExpression", "error"),
     ("compiler.parseExpression", "string"), ("compiler.parseStatement", "string"), ("dclStash.createBinding", "error"),
     ("dclStash.getBinding", "error"), ("dclStash.setBinding", "error"), ("getStashProperties", "string"),
     ("objectStash.createBinding", "string"),
     ("runtime.calculateBinaryExpression", "string"), ("runtime.calculateComparison", "string"),
     ("runtime.calculateComparison", "string"), ("runtime.calculateComparison", "string"),
     ("runtime.cmplEvaluateNodeExpression", "string"), ("runtime.cmplEvaluateNodeExpression", "string"),
     ("runtime.cmplEvaluateNodeObjectLiteral", "string"), ("runtime.cmplEvaluateNodeStatement", "error"),
     ("runtime.cmplEvaluateNodeStatement", "error"), ("runtime.cmplEvaluateNodeUnaryExpression", "string"),
     ("runtime.interrupt", "interface{}"), ("runtime.tryCatchEvaluate", "interface{}"),
     ("sameValue", "string"), ("strictEqualityComparison", "string"),
     ("testObjectCoercible", "string"), ("toPrimitive", "string")] := by decide

end OttoVerif.C02.Thm
