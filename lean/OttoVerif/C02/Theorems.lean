/-  C02/Theorems — the ledger for property C02 (every theorem here is audited).  Placeholder. -/
namespace OttoVerif.C02.Thm
end OttoVerif.C02.Thm
