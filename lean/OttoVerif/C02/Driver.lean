/-  C02/Driver — every request must return to the caller; `recur` requests additionally run the
    depth model (C18.runAct on `cap` nested calls under limit L) and say how the recursion must end. -/
import OttoVerif.Base.Proto
import OttoVerif.C18.Model
namespace OttoVerif.C02.Driver

/-- `recur <L> <cap> <kind>`: a recursion of at least `cap` nested scopes under limit L (`kind`
    selects the route the cycle takes through the interpreter; the model has one way of entering a
    scope, which is the point): RangeError iff the guard fires, caught by the script, the counter
    bounded by L, the runtime usable afterwards. -/
def recur (L cap : Nat) : String :=
  match (OttoVerif.C18.runAct L (OttoVerif.C18.nest cap) [0]).2 with
  | .rangeError => "RangeError;bounded;usable"
  | .done => "returned;usable"
  | .panicked => "panic"
  | .halted => "halted"            -- `nest` holds no interrupt: never the case

def handle (ws : List String) : String :=
  match ws with
  | [] => "bad-op"
  | ["recur", l, cap, _kind] =>
    (match l.toNat?, cap.toNat? with
     | some L, some c => let r := recur L c; r ++ " " ++ r ++ " -"
     | _, _ => "bad-op")
  | _ => "returns returns -"

end OttoVerif.C02.Driver
