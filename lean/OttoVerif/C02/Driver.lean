/-  C02/Driver — placeholder: every request must return to the caller. -/
import OttoVerif.Base.Proto
namespace OttoVerif.C02.Driver

def handle (ws : List String) : String :=
  match ws with
  | [] => "bad-op"
  | _ => "returns returns -"

end OttoVerif.C02.Driver
