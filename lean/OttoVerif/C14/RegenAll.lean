/-
  C14/RegenAll — ledger module: every configuration has the identical shape (modulo user globals).
-/
import OttoVerif.C14.RegenFresh
import OttoVerif.C14.RegenFresh2
import OttoVerif.C14.RegenUnder
import OttoVerif.C14.RegenCopy
import OttoVerif.C14.RegenCopy2
import OttoVerif.C14.RegenUsedcopy
import OttoVerif.C14.RegenUndercopy
namespace OttoVerif.C14.Thm
open OttoVerif.C14

/-- fresh runtimes, a runtime with underscore loaded, copies, copies of copies and the copy of a used runtime all
    expose the same slots in the same order with the same shapes -/
theorem configs_equal :
    Spec.stripUser Fresh.user Fresh.dump.ents = Spec.stripUser Fresh2.user Fresh2.dump.ents ∧
    Spec.stripUser Fresh.user Fresh.dump.ents = Spec.stripUser Under.user Under.dump.ents ∧
    Spec.stripUser Fresh.user Fresh.dump.ents = Spec.stripUser Copy.user Copy.dump.ents ∧
    Spec.stripUser Fresh.user Fresh.dump.ents = Spec.stripUser Copy2.user Copy2.dump.ents ∧
    Spec.stripUser Fresh.user Fresh.dump.ents = Spec.stripUser Usedcopy.user Usedcopy.dump.ents ∧
    Spec.stripUser Fresh.user Fresh.dump.ents = Spec.stripUser Undercopy.user Undercopy.dump.ents := by
  refine ⟨?_, ?_, ?_, ?_, ?_, ?_⟩ <;> rw [Fresh.ents_eq_model]
  · exact Fresh2.ents_eq_model.symm
  · exact Under.ents_eq_model.symm
  · exact Copy.ents_eq_model.symm
  · exact Copy2.ents_eq_model.symm
  · exact Usedcopy.ents_eq_model.symm
  · exact Undercopy.ents_eq_model.symm

/-- a copy of a copy is wired to the same Go functions as a fresh runtime -/
theorem copy_binds_equal : Spec.stripUser Fresh.user Fresh.dump.binds = Spec.stripUser Copy2.user Copy2.dump.binds := by
  rw [Fresh.binds_eq_model]; exact Copy2.binds_eq_model.symm

end OttoVerif.C14.Thm
