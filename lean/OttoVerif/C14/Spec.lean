/-
  C14/Spec — the shape of the ES5.1 standard library (ECMA-262 5.1 §15.1 – §15.12, Annex B.2),
  written from the standard, not from otto's code.  Core-only imports.

  A *shape token* is a space-free string describing one property slot as JavaScript reflection sees it:

    <value>|<attrs>         attrs = three characters, `w` or `-`, `e` or `-`, `c` or `-`   ([[Writable]] [[Enumerable]] [[Configurable]])
    value:
      ref:<owner>           the value is (identical to) the §15 object named <owner>  (e.g. `ref:Array.prototype`)
      fn:<len>:<attrs of length>:<[[Class]]>:<[[Prototype]] owner>:<x or - : extensible>:<P or - : has own `prototype`>:<n or N : `new` refused or accepted>:<# enumerable own properties>
      num:<16 hex digits>   str:<hex UTF-16 units>   bool:true|false   undef

  §15 (introduction): every built-in function has `length` {W:false,E:false,C:false}; [[Class]] "Function";
  [[Prototype]] = Function.prototype; is extensible; non-constructors have no `prototype` property and do not
  implement [[Construct]]; every other property is {W:true,E:false,C:true} unless otherwise specified.
-/
namespace OttoVerif.C14.Spec

/-- the §15 objects ("owners"), `null`, and "some other object" -/
inductive Owner
  | Object | ObjectPrototype | Function | FunctionPrototype | Array | ArrayPrototype | String | StringPrototype
  | Boolean | BooleanPrototype | Number | NumberPrototype | Math | Date | DatePrototype | RegExp | RegExpPrototype
  | Error | ErrorPrototype | EvalError | EvalErrorPrototype | TypeError | TypeErrorPrototype | RangeError | RangeErrorPrototype
  | ReferenceError | ReferenceErrorPrototype | SyntaxError | SyntaxErrorPrototype | URIError | URIErrorPrototype | JSON | global
  | null | unknown
  deriving DecidableEq, Repr

/-- in the order of otto's generator input (which is the order of the model table and of the dumps) -/
def Owner.all : List Owner := [
  .Object, .ObjectPrototype, .Function, .FunctionPrototype, .Array, .ArrayPrototype, .String, .StringPrototype,
  .Boolean, .BooleanPrototype, .Number, .NumberPrototype, .Math, .Date, .DatePrototype, .RegExp, .RegExpPrototype,
  .Error, .ErrorPrototype, .EvalError, .EvalErrorPrototype, .TypeError, .TypeErrorPrototype, .RangeError, .RangeErrorPrototype,
  .ReferenceError, .ReferenceErrorPrototype, .SyntaxError, .SyntaxErrorPrototype, .URIError, .URIErrorPrototype, .JSON, .global]

def Owner.path : Owner → _root_.String
  | .Object => "Object" | .ObjectPrototype => "Object.prototype" | .Function => "Function" | .FunctionPrototype => "Function.prototype"
  | .Array => "Array" | .ArrayPrototype => "Array.prototype" | .String => "String" | .StringPrototype => "String.prototype"
  | .Boolean => "Boolean" | .BooleanPrototype => "Boolean.prototype" | .Number => "Number" | .NumberPrototype => "Number.prototype"
  | .Math => "Math" | .Date => "Date" | .DatePrototype => "Date.prototype" | .RegExp => "RegExp" | .RegExpPrototype => "RegExp.prototype"
  | .Error => "Error" | .ErrorPrototype => "Error.prototype" | .EvalError => "EvalError" | .EvalErrorPrototype => "EvalError.prototype"
  | .TypeError => "TypeError" | .TypeErrorPrototype => "TypeError.prototype" | .RangeError => "RangeError" | .RangeErrorPrototype => "RangeError.prototype"
  | .ReferenceError => "ReferenceError" | .ReferenceErrorPrototype => "ReferenceError.prototype"
  | .SyntaxError => "SyntaxError" | .SyntaxErrorPrototype => "SyntaxError.prototype" | .URIError => "URIError" | .URIErrorPrototype => "URIError.prototype"
  | .JSON => "JSON" | .global => "global" | .null => "null" | .unknown => "?"

def Owner.ofPath? (s : _root_.String) : Option Owner := (Owner.null :: Owner.all).find? (fun o => o.path = s)

/-- [[Class]] values -/
inductive Cls
  | Object | Function | Array | String | Boolean | Number | Math | Date | RegExp | Error | JSON | Arguments
  | other (s : _root_.String)
  deriving DecidableEq, Repr

def Cls.name : Cls → _root_.String
  | .Object => "Object" | .Function => "Function" | .Array => "Array" | .String => "String" | .Boolean => "Boolean" | .Number => "Number"
  | .Math => "Math" | .Date => "Date" | .RegExp => "RegExp" | .Error => "Error" | .JSON => "JSON" | .Arguments => "Arguments" | .other s => s

/-- [[Writable]] [[Enumerable]] [[Configurable]] -/
structure Attrs where
  w : Bool
  e : Bool
  c : Bool
  deriving DecidableEq, Repr

def Attrs.tok (a : Attrs) : String := (if a.w then "w" else "-") ++ (if a.e then "e" else "-") ++ (if a.c then "c" else "-")

def wc    : Attrs := ⟨true, false, true⟩    -- {W:true,  E:false, C:true }  the default of §15
def ro    : Attrs := ⟨false, false, false⟩  -- {W:false, E:false, C:false}  constants, `length`, `prototype`
def wOnly : Attrs := ⟨true, false, false⟩   -- {W:true,  E:false, C:false}  Array `length`, RegExp `lastIndex`

/-- what reflection sees of a function object that is the value of a property -/
structure FnShape where
  len : Nat             -- value of the own property `length`
  lenAttrs : Attrs      -- its attributes
  cls : Cls             -- [[Class]]
  proto : Owner         -- [[Prototype]]
  ext : Bool            -- [[Extensible]]
  hasPrototype : Bool   -- has an own property `prototype`
  newOK : Bool          -- `new f()` is not refused with "TypeError: … is not a constructor"
  enumOwn : Nat         -- number of enumerable own properties
  deriving DecidableEq, Repr

inductive Val
  | fn (s : FnShape)
  | ref (o : Owner)          -- the value is (identical to) that §15 object
  | num (bits : Nat)         -- a Number, by IEEE-754 bit pattern (all NaNs are 0x7ff8000000000001)
  | str (s : String)
  | bool (b : Bool)
  | undef
  | null
  | obj (c : Cls)            -- some other object
  | other (s : String)       -- anything else the reflector reports (accessors, malformed lengths, …)
  deriving DecidableEq, Repr

/-- one property slot: value and attributes -/
structure Slot where
  val : Val
  attrs : Attrs
  deriving DecidableEq, Repr

/-! #### rendering as protocol tokens (used by the driver; mirrors harness/cmd/c14/reflect.go) -/

def hexDigit (n : Nat) : Char := if n < 10 then Char.ofNat (48 + n) else Char.ofNat (87 + n)
def hexPad (width n : Nat) : String :=
  String.ofList ((List.range width).reverse.map (fun i => hexDigit ((n / 16 ^ i) % 16)))
def hexUnits (s : String) : String :=
  String.join (s.toList.map (fun c =>
    let n := c.toNat
    if n < 0x10000 then hexPad 4 n
    else let m := n - 0x10000; hexPad 4 (0xD800 + m / 1024) ++ hexPad 4 (0xDC00 + m % 1024)))
def flag (b : Bool) (t f : String) : String := if b then t else f

def FnShape.tok (s : FnShape) : String :=
  "fn:" ++ toString s.len ++ ":" ++ s.lenAttrs.tok ++ ":" ++ s.cls.name ++ ":" ++ s.proto.path ++ ":" ++ flag s.ext "x" "-" ++ ":" ++
  flag s.hasPrototype "P" "-" ++ ":" ++ flag s.newOK "N" "n" ++ ":" ++ toString s.enumOwn

def Val.tok : Val → String
  | .fn s => s.tok
  | .ref o => "ref:" ++ o.path
  | .num b => "num:" ++ hexPad 16 b
  | .str s => "str:" ++ hexUnits s
  | .bool b => "bool:" ++ flag b "true" "false"
  | .undef => "undef"
  | .null => "null"
  | .obj c => "obj:" ++ c.name
  | .other s => s

def Slot.tok (s : Slot) : String := s.val.tok ++ "|" ++ s.attrs.tok

/-! #### the vocabulary of the table -/

/-- a built-in function that is not a constructor (§15 intro), with the given `length` -/
def fnShape (len : Nat) : FnShape :=
  { len := len, lenAttrs := ro, cls := .Function, proto := .FunctionPrototype, ext := true, hasPrototype := false, newOK := false, enumOwn := 0 }
def fn (len : Nat) : Slot := ⟨.fn (fnShape len), wc⟩
/-- a data property whose value is another §15 object -/
def ref (o : Owner) (a : Attrs) : Slot := ⟨.ref o, a⟩
def num (bits : Nat) (a : Attrs) : Slot := ⟨.num bits, a⟩
def str (s : String) (a : Attrs) : Slot := ⟨.str s, a⟩
def bool (b : Bool) (a : Attrs) : Slot := ⟨.bool b, a⟩

/-- doubles by bit pattern -/
def posZero : Nat := 0x0000000000000000
def one     : Nat := 0x3ff0000000000000
def two     : Nat := 0x4000000000000000
def seven   : Nat := 0x401c000000000000
def nan     : Nat := 0x7ff8000000000001   -- the harness identifies all NaNs with this pattern
def posInf  : Nat := 0x7ff0000000000000
def negInf  : Nat := 0xfff0000000000000

abbrev Props := List (String × Slot)
abbrev Facts := List (String × String)

/-- `length` and `prototype` of a constructor (§15.x.3): both {W:false,E:false,C:false} -/
def ctorProps (len : Nat) (protoOwner : Owner) : Props :=
  [("length", num len ro), ("prototype", ref protoOwner ro)]

/-- §15.1 the global object -/
def global : Props := [
  ("NaN", num nan ro), ("Infinity", num posInf ro), ("undefined", ⟨.undef, ro⟩),
  ("eval", fn 1), ("parseInt", fn 2), ("parseFloat", fn 1), ("isNaN", fn 1), ("isFinite", fn 1),
  ("decodeURI", fn 1), ("decodeURIComponent", fn 1), ("encodeURI", fn 1), ("encodeURIComponent", fn 1),
  ("Object", ref .Object wc), ("Function", ref .Function wc), ("Array", ref .Array wc), ("String", ref .String wc),
  ("Boolean", ref .Boolean wc), ("Number", ref .Number wc), ("Date", ref .Date wc), ("RegExp", ref .RegExp wc),
  ("Error", ref .Error wc), ("EvalError", ref .EvalError wc), ("RangeError", ref .RangeError wc),
  ("ReferenceError", ref .ReferenceError wc), ("SyntaxError", ref .SyntaxError wc), ("TypeError", ref .TypeError wc),
  ("URIError", ref .URIError wc), ("Math", ref .Math wc), ("JSON", ref .JSON wc),
  -- Annex B.2.1, B.2.2
  ("escape", fn 1), ("unescape", fn 1)]

/-- §15.2.3 -/
def object : Props := ctorProps one .ObjectPrototype ++ [
  ("getPrototypeOf", fn 1), ("getOwnPropertyDescriptor", fn 2), ("getOwnPropertyNames", fn 1), ("create", fn 2),
  ("defineProperty", fn 3), ("defineProperties", fn 2), ("seal", fn 1), ("freeze", fn 1), ("preventExtensions", fn 1),
  ("isSealed", fn 1), ("isFrozen", fn 1), ("isExtensible", fn 1), ("keys", fn 1)]
/-- §15.2.4 -/
def objectProto : Props := [
  ("constructor", ref .Object wc), ("toString", fn 0), ("toLocaleString", fn 0), ("valueOf", fn 0),
  ("hasOwnProperty", fn 1), ("isPrototypeOf", fn 1), ("propertyIsEnumerable", fn 1)]

/-- §15.3.3 -/
def function : Props := ctorProps one .FunctionPrototype
/-- §15.3.4 (the Function prototype object is itself a function with length 0) -/
def functionProto : Props := [
  ("length", num posZero ro), ("constructor", ref .Function wc), ("toString", fn 0), ("apply", fn 2), ("call", fn 1), ("bind", fn 1)]

/-- §15.4.3 -/
def array : Props := ctorProps one .ArrayPrototype ++ [("isArray", fn 1)]
/-- §15.4.4 (the Array prototype object is itself an array: `length` is +0, {W:true,E:false,C:false}) -/
def arrayProto : Props := [
  ("length", num posZero wOnly), ("constructor", ref .Array wc), ("toString", fn 0), ("toLocaleString", fn 0), ("concat", fn 1),
  ("join", fn 1), ("pop", fn 0), ("push", fn 1), ("reverse", fn 0), ("shift", fn 0), ("slice", fn 2), ("sort", fn 1),
  ("splice", fn 2), ("unshift", fn 1), ("indexOf", fn 1), ("lastIndexOf", fn 1), ("every", fn 1), ("some", fn 1),
  ("forEach", fn 1), ("map", fn 1), ("filter", fn 1), ("reduce", fn 1), ("reduceRight", fn 1)]

/-- §15.5.3 -/
def string : Props := ctorProps one .StringPrototype ++ [("fromCharCode", fn 1)]
/-- §15.5.4 (the String prototype object is itself a String object whose value is ""; `length` +0) -/
def stringProto : Props := [
  ("length", num posZero ro), ("constructor", ref .String wc), ("toString", fn 0), ("valueOf", fn 0), ("charAt", fn 1),
  ("charCodeAt", fn 1), ("concat", fn 1), ("indexOf", fn 1), ("lastIndexOf", fn 1), ("localeCompare", fn 1), ("match", fn 1),
  ("replace", fn 2), ("search", fn 1), ("slice", fn 2), ("split", fn 2), ("substring", fn 2), ("toLowerCase", fn 0),
  ("toLocaleLowerCase", fn 0), ("toUpperCase", fn 0), ("toLocaleUpperCase", fn 0), ("trim", fn 0),
  -- Annex B.2.3
  ("substr", fn 2)]

/-- §15.6.3, §15.6.4 -/
def boolean : Props := ctorProps one .BooleanPrototype
def booleanProto : Props := [("constructor", ref .Boolean wc), ("toString", fn 0), ("valueOf", fn 0)]

/-- §15.7.3 -/
def number : Props := ctorProps one .NumberPrototype ++ [
  ("MAX_VALUE", num 0x7fefffffffffffff ro), ("MIN_VALUE", num 0x0000000000000001 ro), ("NaN", num nan ro),
  ("NEGATIVE_INFINITY", num negInf ro), ("POSITIVE_INFINITY", num posInf ro)]
/-- §15.7.4 (`toString(radix)` has length 1; `toLocaleString()` has length 0) -/
def numberProto : Props := [
  ("constructor", ref .Number wc), ("toString", fn 1), ("toLocaleString", fn 0), ("valueOf", fn 0),
  ("toFixed", fn 1), ("toExponential", fn 1), ("toPrecision", fn 1)]

/-- §15.8.1 value properties (the correctly rounded doubles), §15.8.2 functions -/
def math : Props := [
  ("E", num 0x4005bf0a8b145769 ro), ("LN10", num 0x40026bb1bbb55516 ro), ("LN2", num 0x3fe62e42fefa39ef ro),
  ("LOG2E", num 0x3ff71547652b82fe ro), ("LOG10E", num 0x3fdbcb7b1526e50e ro), ("PI", num 0x400921fb54442d18 ro),
  ("SQRT1_2", num 0x3fe6a09e667f3bcd ro), ("SQRT2", num 0x3ff6a09e667f3bcd ro),
  ("abs", fn 1), ("acos", fn 1), ("asin", fn 1), ("atan", fn 1), ("atan2", fn 2), ("ceil", fn 1), ("cos", fn 1),
  ("exp", fn 1), ("floor", fn 1), ("log", fn 1), ("max", fn 2), ("min", fn 2), ("pow", fn 2), ("random", fn 0),
  ("round", fn 1), ("sin", fn 1), ("sqrt", fn 1), ("tan", fn 1)]

/-- §15.9.4 -/
def date : Props := ctorProps seven .DatePrototype ++ [("parse", fn 1), ("UTC", fn 7), ("now", fn 0)]
/-- §15.9.5 -/
def dateProto : Props := [
  ("constructor", ref .Date wc), ("toString", fn 0), ("toDateString", fn 0), ("toTimeString", fn 0),
  ("toLocaleString", fn 0), ("toLocaleDateString", fn 0), ("toLocaleTimeString", fn 0), ("valueOf", fn 0), ("getTime", fn 0),
  ("getFullYear", fn 0), ("getUTCFullYear", fn 0), ("getMonth", fn 0), ("getUTCMonth", fn 0), ("getDate", fn 0),
  ("getUTCDate", fn 0), ("getDay", fn 0), ("getUTCDay", fn 0), ("getHours", fn 0), ("getUTCHours", fn 0),
  ("getMinutes", fn 0), ("getUTCMinutes", fn 0), ("getSeconds", fn 0), ("getUTCSeconds", fn 0),
  ("getMilliseconds", fn 0), ("getUTCMilliseconds", fn 0), ("getTimezoneOffset", fn 0),
  ("setTime", fn 1), ("setMilliseconds", fn 1), ("setUTCMilliseconds", fn 1), ("setSeconds", fn 2), ("setUTCSeconds", fn 2),
  ("setMinutes", fn 3), ("setUTCMinutes", fn 3), ("setHours", fn 4), ("setUTCHours", fn 4), ("setDate", fn 1),
  ("setUTCDate", fn 1), ("setMonth", fn 2), ("setUTCMonth", fn 2), ("setFullYear", fn 3), ("setUTCFullYear", fn 3),
  ("toUTCString", fn 0), ("toISOString", fn 0), ("toJSON", fn 1),
  -- Annex B.2.4 – B.2.6
  ("getYear", fn 0), ("setYear", fn 1), ("toGMTString", fn 0)]

/-- §15.10.5 -/
def regExp : Props := ctorProps two .RegExpPrototype
/-- §15.10.6: "The RegExp prototype object is itself a regular expression object" – so it carries the instance
    properties of §15.10.7 (source of the empty pattern "(?:)", flags false, lastIndex 0). -/
def regExpProto : Props := [
  ("constructor", ref .RegExp wc), ("exec", fn 1), ("test", fn 1), ("toString", fn 0),
  ("source", str "(?:)" ro), ("global", bool false ro), ("ignoreCase", bool false ro),
  ("multiline", bool false ro), ("lastIndex", num posZero wOnly)]

/-- §15.11.3, §15.11.4 and §15.11.7 (NativeError);  -/
def errorCtor (proto : Owner) : Props := ctorProps one proto
def errorProto (ctor : Owner) (name : String) (hasToString : Bool) : Props :=
  [("constructor", ref ctor wc), ("name", str name wc), ("message", str "" wc)] ++ (if hasToString then [("toString", fn 0)] else [])

/-- §15.12 -/
def json : Props := [("parse", fn 2), ("stringify", fn 3)]


/-- The whole table: owner ↦ properties. -/
def table : List (Owner × Props) := [
  (.global, global),
  (.Object, object), (.ObjectPrototype, objectProto),
  (.Function, function), (.FunctionPrototype, functionProto),
  (.Array, array), (.ArrayPrototype, arrayProto),
  (.String, string), (.StringPrototype, stringProto),
  (.Boolean, boolean), (.BooleanPrototype, booleanProto),
  (.Number, number), (.NumberPrototype, numberProto),
  (.Math, math),
  (.Date, date), (.DatePrototype, dateProto),
  (.RegExp, regExp), (.RegExpPrototype, regExpProto),
  (.Error, errorCtor .ErrorPrototype), (.ErrorPrototype, errorProto .Error "Error" true),
  (.EvalError, errorCtor .EvalErrorPrototype), (.EvalErrorPrototype, errorProto .EvalError "EvalError" false),
  (.RangeError, errorCtor .RangeErrorPrototype), (.RangeErrorPrototype, errorProto .RangeError "RangeError" false),
  (.ReferenceError, errorCtor .ReferenceErrorPrototype), (.ReferenceErrorPrototype, errorProto .ReferenceError "ReferenceError" false),
  (.SyntaxError, errorCtor .SyntaxErrorPrototype), (.SyntaxErrorPrototype, errorProto .SyntaxError "SyntaxError" false),
  (.TypeError, errorCtor .TypeErrorPrototype), (.TypeErrorPrototype, errorProto .TypeError "TypeError" false),
  (.URIError, errorCtor .URIErrorPrototype), (.URIErrorPrototype, errorProto .URIError "URIError" false),
  (.JSON, json)]

/-- association-list lookup (structural, so that `decide` can evaluate it) -/
def assoc {κ α : Type} [DecidableEq κ] (k : κ) : List (κ × α) → Option α
  | [] => none
  | (a, b) :: r => if a = k then some b else assoc k r

def lookup {α : Type} (t : List (Owner × List (String × α))) (owner : Owner) (prop : String) : Option α :=
  match assoc owner t with
  | some ps => assoc prop ps
  | none => none

/-- the flat list of (owner, property, slot) -/
def flatten {α : Type} (t : List (Owner × List (String × α))) : List (Owner × String × α) :=
  t.flatMap (fun op => op.2.map (fun pt => (op.1, pt.1, pt.2)))

def entries : List (Owner × String × Slot) := flatten table

/-! ### Object-level facts (§15.x.4 "The … prototype object is itself …", §15.x.3 "[[Prototype]] … is the Function prototype object") -/

/-- owner ↦ [(field, token)] with fields `typeof`, `class`, `proto`, `ext`, `prim` ([[PrimitiveValue]] where ES5 gives one),
    `forin` (what `for (k in owner)` enumerates: nothing).  The global object's [[Class]] and [[Prototype]] are
    implementation-dependent (§15.1) and therefore not listed. -/
def ctorFacts : Facts := [("typeof", "function"), ("class", "Function"), ("proto", "Function.prototype"), ("ext", "x"), ("forin", "-")]
def objFacts (cls proto : String) : Facts := [("typeof", "object"), ("class", cls), ("proto", proto), ("ext", "x"), ("forin", "-")]

def owners : List (Owner × Facts) := [
  (.global, [("typeof", "object"), ("ext", "x"), ("forin", "-")]),
  (.Object, ctorFacts), (.ObjectPrototype, objFacts "Object" "null"),
  (.Function, ctorFacts),
  (.FunctionPrototype, [("typeof", "function"), ("class", "Function"), ("proto", "Object.prototype"), ("ext", "x"), ("forin", "-")]),
  (.Array, ctorFacts), (.ArrayPrototype, objFacts "Array" "Object.prototype"),
  (.String, ctorFacts), (.StringPrototype, objFacts "String" "Object.prototype" ++ [("prim", "str:")]),
  (.Boolean, ctorFacts), (.BooleanPrototype, objFacts "Boolean" "Object.prototype" ++ [("prim", "bool:false")]),
  (.Number, ctorFacts), (.NumberPrototype, objFacts "Number" "Object.prototype" ++ [("prim", "num:0000000000000000")]),
  (.Math, objFacts "Math" "Object.prototype"),
  (.Date, ctorFacts), (.DatePrototype, objFacts "Date" "Object.prototype" ++ [("prim", "num:7ff8000000000001")]),
  (.RegExp, ctorFacts), (.RegExpPrototype, objFacts "RegExp" "Object.prototype"),
  (.Error, ctorFacts), (.ErrorPrototype, objFacts "Error" "Object.prototype"),
  (.EvalError, ctorFacts), (.EvalErrorPrototype, objFacts "Error" "Error.prototype"),
  (.RangeError, ctorFacts), (.RangeErrorPrototype, objFacts "Error" "Error.prototype"),
  (.ReferenceError, ctorFacts), (.ReferenceErrorPrototype, objFacts "Error" "Error.prototype"),
  (.SyntaxError, ctorFacts), (.SyntaxErrorPrototype, objFacts "Error" "Error.prototype"),
  (.TypeError, ctorFacts), (.TypeErrorPrototype, objFacts "Error" "Error.prototype"),
  (.URIError, ctorFacts), (.URIErrorPrototype, objFacts "Error" "Error.prototype"),
  (.JSON, objFacts "JSON" "Object.prototype")]

/-! ### for-in over ordinary values shows own/inherited *user* properties only (§12.6.4 with the attributes above) -/
def forIn : Facts := [
  ("emptyobj", "-"), ("obj", "a,b"), ("emptyarr", "-"), ("arr", "0,1"), ("sparsearr", "1"), ("str", "0,1"), ("strobj", "0,1"),
  ("num", "-"), ("numobj", "-"), ("boolobj", "-"), ("fun", "-"), ("bound", "-"), ("date", "-"), ("regexp", "-"),
  ("error", "-"), ("typeerror", "-"), ("args", "0,1"), ("created", "q"), ("creatednull", "-"), ("newfun", "z"),
  ("jsonobj", "k"), ("caught", "-")]

/-! ### prototype links and [[Class]] of values the language itself creates: "<[[Prototype]] owner>:<[[Class]]>" -/
def links : Facts := [
  ("objlit", "Object.prototype:Object"), ("arrlit", "Array.prototype:Array"), ("funlit", "Function.prototype:Function"),
  ("relit", "RegExp.prototype:RegExp"), ("newobj", "Object.prototype:Object"), ("newarr", "Array.prototype:Array"),
  ("newfun", "Function.prototype:Function"), ("newre", "RegExp.prototype:RegExp"), ("newdate", "Date.prototype:Date"),
  ("newstr", "String.prototype:String"), ("newnum", "Number.prototype:Number"), ("newbool", "Boolean.prototype:Boolean"),
  ("objstr", "String.prototype:String"), ("objnum", "Number.prototype:Number"), ("objbool", "Boolean.prototype:Boolean"),
  ("newerr", "Error.prototype:Error"), ("callerr", "Error.prototype:Error"), ("newevalerr", "EvalError.prototype:Error"),
  ("newrangeerr", "RangeError.prototype:Error"), ("newreferr", "ReferenceError.prototype:Error"),
  ("newsyntaxerr", "SyntaxError.prototype:Error"), ("newtypeerr", "TypeError.prototype:Error"), ("newurierr", "URIError.prototype:Error"),
  ("throwntype", "TypeError.prototype:Error"), ("thrownref", "ReferenceError.prototype:Error"), ("thrownrange", "RangeError.prototype:Error"),
  ("thrownsyntax", "SyntaxError.prototype:Error"), ("thrownuri", "URIError.prototype:Error"),
  ("args", "Object.prototype:Arguments"), ("bound", "Function.prototype:Function"), ("jsonparsed", "Array.prototype:Array"),
  ("splitres", "Array.prototype:Array"), ("execres", "Array.prototype:Array"), ("keysres", "Array.prototype:Array"),
  ("mapres", "Array.prototype:Array"), ("funproto", "Object.prototype:Object"), ("descres", "Object.prototype:Object"),
  ("strmethod", "Function.prototype:Function")]

/-! ### "each of the specified KIND": the start-up objects that ES5 says are special objects must behave as such -/

/-- §15.x.4 "The … prototype object is itself a(n) … object", §15.3.4, §15.8, §15.12 -/
inductive Kind
  | ordinary | function | array | string | boolean | number | date | regexp | error | math | json
  deriving DecidableEq, Repr

def kindOf : Owner → Kind
  | .ArrayPrototype => .array                 -- §15.4.4  "is itself an array"
  | .StringPrototype => .string               -- §15.5.4  "is itself a String object … whose value is an empty String"
  | .BooleanPrototype => .boolean             -- §15.6.4  "… whose value is false"
  | .NumberPrototype => .number               -- §15.7.4  "… whose value is +0"
  | .DatePrototype => .date                   -- §15.9.5  "is itself a Date object … whose [[PrimitiveValue]] is NaN"
  | .RegExpPrototype => .regexp               -- §15.10.6 "is itself a regular expression object"
  | .FunctionPrototype => .function           -- §15.3.4  "is itself a Function object … accepts any arguments and returns undefined"
  | .ErrorPrototype | .EvalErrorPrototype | .TypeErrorPrototype | .RangeErrorPrototype | .ReferenceErrorPrototype
  | .SyntaxErrorPrototype | .URIErrorPrototype => .error      -- §15.11.4, §15.11.7.7
  | .Object | .Function | .Array | .String | .Boolean | .Number | .Date | .RegExp | .Error | .EvalError | .TypeError
  | .RangeError | .ReferenceError | .SyntaxError | .URIError => .function
  | .Math => .math | .JSON => .json
  | _ => .ordinary

/-- how otto's object model represents an object of each kind – "<class>:<table of internal methods>:<Go type of value>" – as its
    own constructors for instances do (type_array.go newArrayObject, type_string.go newStringObject, type_boolean.go, type_number.go,
    type_date.go, type_regexp.go, type_function.go, type_error.go); a start-up object of that kind must be represented the same way -/
def repOf (o : Owner) : String :=
  match kindOf o with
  | .array => "Array:Array:<nil>"
  | .string => "String:String:stringASCII"
  | .boolean => "Boolean:Object:Value"
  | .number => "Number:Object:Value"
  | .date => "Date:Object:dateObject"
  | .regexp => "RegExp:Object:regExpObject"
  | .function => "Function:Object:nativeFunctionObject"
  | .error => "Error:Object:<nil>"
  | .math => "Math:Object:<nil>"
  | .json => "JSON:Object:<nil>"
  | .ordinary => if o = .global then "environment:Object:<nil>" else "Object:Object:<nil>"   -- global [[Class]] is implementation-defined

/-- behavioural aspects asked of EVERY owner (they separate the array [[DefineOwnProperty]] of §15.4.5.1 from §8.12.9):
    idxlen  `b = O.length; O[5] = 1; O.length`        "6" for an array, "same" otherwise
    lenneg / lenfrac / lenbig  `O.length = -1 | 1.5 | 4294967296`   "RangeError" for an array, "noerror" otherwise (sloppy mode)
    shrink  `O[3] = 1; O.length = 1; 3 in O`           "deleted" for an array, "kept" otherwise -/
def universalAspects : List String := ["idxlen", "lenneg", "lenfrac", "lenbig", "shrink", "call"]

/-- `call`: "notcallable", or "returns:<typeof O()>" (§15.x.1 "called as a function", §15.3.4) -/
def callResult : Owner → String
  | .Object | .Array | .RegExp | .Error | .EvalError | .TypeError | .RangeError | .ReferenceError | .SyntaxError | .URIError => "returns:object"
  | .Function => "returns:function"
  | .String | .Date => "returns:string"       -- §15.5.1.1 String() is "", §15.9.2 Date() is a String
  | .Boolean => "returns:boolean" | .Number => "returns:number"
  | .FunctionPrototype => "returns:undefined"
  | _ => "notcallable"

def arrayAspect : String → String
  | "idxlen" => "6" | "lenneg" | "lenfrac" | "lenbig" => "RangeError" | "shrink" => "deleted" | _ => "?"
def ordinaryAspect : String → String
  | "idxlen" => "same" | "lenneg" | "lenfrac" | "lenbig" => "noerror" | "shrink" => "kept" | _ => "?"

/-- aspects asked only of the object of that kind -/
def kindAspects : Owner → Facts
  | .StringPrototype => [("wrap", "str:,0,false")]            -- toString() is "", length 0, no own "0"
  | .BooleanPrototype => [("wrap", "false")]                  -- toString() is "false"
  | .NumberPrototype => [("wrap", "0,Infinity")]              -- toString() is "0", 1/valueOf() is +Infinity
  | .DatePrototype => [("datenan", "NaN,Invalid_Date"), ("dateset", "5")]   -- NaN time value; a Date that setTime can set
  | .RegExpPrototype => [("retest", "true"), ("restr", "/(?:)/")]           -- the empty pattern matches everything
  | .FunctionPrototype => [("newthrows", "TypeError")]
  | .Math => [("newthrows", "TypeError")] | .JSON => [("newthrows", "TypeError")]    -- §15.8, §15.12: no [[Construct]], no [[Call]]
  | .ErrorPrototype => [("errstr", "Error")] | .EvalErrorPrototype => [("errstr", "EvalError")]
  | .TypeErrorPrototype => [("errstr", "TypeError")] | .RangeErrorPrototype => [("errstr", "RangeError")]
  | .ReferenceErrorPrototype => [("errstr", "ReferenceError")] | .SyntaxErrorPrototype => [("errstr", "SyntaxError")]
  | .URIErrorPrototype => [("errstr", "URIError")]
  | _ => []

def aspect (o : Owner) (a : String) : Option String :=
  if a = "call" then some (callResult o)
  else if universalAspects.contains a then some (if kindOf o = .array then arrayAspect a else ordinaryAspect a)
  else assoc a (kindAspects o)

def aspectsOf (o : Owner) : List String := universalAspects ++ (kindAspects o).map (·.1)

/-- the same behaviours for values the language creates (arrays §15.4.5, String objects §15.5.5, arguments objects §10.6) -/
def behaviours : Facts :=
  (["arrlit", "newarr", "arrcall", "splitres", "jsonarr", "concatres"].flatMap (fun s =>
     [(s ++ "_idxlen", "6"), (s ++ "_lenneg", "RangeError"), (s ++ "_lenfrac", "RangeError"), (s ++ "_lenbig", "RangeError"), (s ++ "_shrink", "deleted")])) ++
  [("objlit_idxlen", "same"), ("objlit_lenneg", "noerror"), ("objlit_shrink", "kept"),
   ("args_idxlen", "same"), ("args_shrink", "kept"),
   ("strobj_idx0", "a|-e-"), ("strobj_len", "2|---"), ("strobj_write", "a"), ("strobj_names", "0,1,length"), ("strobj_idxlen", "same"),
   ("args_mapped", "5"), ("args_lenattrs", "w-c"), ("args_callee", "self|w-c"), ("args_class", "Arguments"),
   -- Annex B.2.6: "the same Function object"
   ("gmt_is_utc", "true")]

/-! ### "bound to the operation of that name", for constructors: BOTH routes.  §15.2.1/15.2.2, 15.3.1, 15.4.1, 15.5.1, 15.6.1, 15.7.1,
    15.9.2, 15.10.3, 15.11.1 ("the function call Error(…) is equivalent to the object creation expression new Error(…)"), 15.11.7.1:
    every constructor of the library is driven through [[Call]] (plain, as a method, .call, .apply, bound, bound with arguments) and
    through [[Construct]] (new, new on a bound function without/with bound arguments); the result is observed as
    "<[[Prototype]] owner>:<[[Class]]>:<owner of result.constructor>:<name>:<message>" (errors, created with message "m"),
    "…:-" (other objects) or "prim:<typeof>" (String/Number/Boolean/Date called as functions return primitives). -/
def routeNames : List String := ["call", "plaincall", "method", "dotcall", "bound", "boundargs", "new", "boundnew", "boundargsnew"]
def isNewRoute (r : String) : Bool := r = "new" || r = "boundnew" || r = "boundargsnew"
def errorCtors : List String := ["Error", "EvalError", "TypeError", "RangeError", "ReferenceError", "SyntaxError", "URIError"]
def otherCtors : List String := ["Object", "Function", "Array", "String", "Boolean", "Number", "Date", "RegExp"]

def callPrimitive : String → Option String
  | "String" | "Date" => some "prim:string" | "Boolean" => some "prim:boolean" | "Number" => some "prim:number" | _ => none

def routeResult (ctor route : String) : String :=
  if errorCtors.contains ctor then ctor ++ ".prototype:Error:" ++ ctor ++ ":" ++ ctor ++ ":m"
  else match callPrimitive ctor, isNewRoute route with
    | some p, false => p
    | _, _ => ctor ++ ".prototype:" ++ ctor ++ ":" ++ ctor ++ ":-"

def routes : Facts :=
  (otherCtors ++ errorCtors).flatMap (fun c => routeNames.map (fun r => (c ++ "_" ++ r, routeResult c r)))

/-! ### the reflected shape of one running runtime (the regenerated `Gen*.lean` files define one `Dump` each) -/
structure Dump where
  ents : List (Owner × Props)      -- owner ↦ own properties in Object.getOwnPropertyNames order, each with its shape token
  owns : List (Owner × Facts)      -- owner ↦ object-level facts
  binds : List (Owner × Facts)     -- owner ↦ Go-level wiring of each own property (hook VerifC14Static)
  forIn : Facts
  links : Facts
  kinds : List (Owner × Facts)     -- owner ↦ "@self" and every object-valued slot ↦ "<class>:<objectClass>:<Go type of value>" (hook)
  routes : Facts                   -- every constructor through every [[Call]] / [[Construct]] route
  behaviours : Facts               -- behaviour of arrays / String objects / arguments objects the language creates
  order : String                   -- "consistent" iff propertyOrder = keys(property) on every reachable object
  evalLink : String                -- "ok" iff rt.eval is the object bound to the global property `eval`

/-- "modulo the underscore global": drop the globals that the configuration's own scripts created -/
def stripUser {α : Type} (user : List String) (t : List (Owner × List (String × α))) : List (Owner × List (String × α)) :=
  t.map (fun (o, ps) => if o = .global then (o, ps.filter (fun (p, _) => !user.contains p)) else (o, ps))

/-! ### function objects created at run time (§13.2 function expressions/declarations and `new Function`, §15.3.4.5 bind) -/
inductive DynKind
  | node      -- `function(p1..pL){}`
  | newfn     -- `new Function("p1", …, "pL", "")`
  | bound     -- `(function(p1..pL){}).bind(null, a1..an)`
  deriving DecidableEq, Repr

inductive DynField
  | length      -- "<value of length>|<attrs>"
  | hasproto    -- "P" when there is an own `prototype`, "-" otherwise
  | protoattr   -- attributes of `prototype` ("absent" without one)
  | ctor        -- "self|<attrs>" when prototype.constructor is the function itself
  | enumown     -- number of enumerable own properties
  | callerdesc  -- "ok" when Object.getOwnPropertyDescriptor(f, "caller") is undefined or a well-formed, non-enumerable §8.10.4 descriptor
  | stackdesc   -- the same for Object.getOwnPropertyDescriptor(new Error("m"), "stack")   (independent of the function)
  deriving DecidableEq, Repr

/-- §15.3.4.5 step 15: length = max(0, L − n) for a bound function; §13.2 step 15: the number of formal parameters -/
def dynLength (k : DynKind) (L n : Nat) : Nat :=
  match k with
  | .bound => L - n          -- truncated subtraction on Nat = max(0, L − n)
  | _ => L

/-- §13.2 steps 15-18: length {W:false,E:false,C:false}; prototype = new object {W:true,E:false,C:false} whose
    constructor is F {W:true,E:false,C:true}.  §15.3.4.5: bound functions have no `prototype` property. -/
def dyn (k : DynKind) (L n : Nat) : DynField → String
  | .length => toString (dynLength k L n) ++ "|" ++ ro.tok
  | .hasproto => if k = .bound then "-" else "P"
  | .protoattr => if k = .bound then "absent" else "w--"
  | .ctor => if k = .bound then "absent" else "self|w-c"
  | .enumown => "0"
  -- ES5 gives non-strict functions no `caller` and errors no `stack`; as extensions (§16) they must be reported by
  -- [[GetOwnProperty]]/FromPropertyDescriptor (§8.10.4) as a complete descriptor, and be non-enumerable
  | .callerdesc => "ok"
  | .stackdesc => "ok"

/-- A property that ES5 does not list (an implementation extension, §16 allows them) must at least be
    non-enumerable, or for-in over built-ins would show it. -/
def extraTok : String := "nonenum"

end OttoVerif.C14.Spec
