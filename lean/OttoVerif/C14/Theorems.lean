/-  C14/Theorems — the ledger for property C14 (every theorem here is audited).  Placeholder. -/
namespace OttoVerif.C14.Thm
end OttoVerif.C14.Thm
