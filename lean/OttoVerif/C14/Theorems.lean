/-
  C14/Theorems — the ledger for property C14, static part: the hand-written model of otto's generator input
  (Model.lean) against the hand-written ES5 §15 table (Spec.lean).  The theorems over the REGENERATED dumps of
  the running runtimes are in Regen<Cfg>.lean / RegenAll.lean (also ledger modules, also audited); they reduce
  to the statements here by rewriting with `dump = model` (closed by `decide`).
  Every `theorem` is audited (`#print axioms` ⊆ {propext, Classical.choice, Quot.sound}) on every run.
-/
import OttoVerif.C14.Model
namespace OttoVerif.C14.Thm
open OttoVerif.C14
open OttoVerif.C14.Spec (Owner Slot Props Facts Dump)

/-! ### model = spec outside the deviation regions (finite table, decided completely) -/

set_option maxRecDepth 1000000 in
/-- every (owner, property) of ES5 §15.1–15.12 + Annex B outside the four entry regions has, in otto's
    generator input, exactly the specified kind, function length, [[Class]], links and attributes -/
theorem model_matches_spec :
    ∀ e ∈ Spec.entries, Model.devEntry e.1 e.2.1 = "-" → Spec.lookup Model.table e.1 e.2.1 = some e.2.2 := by
  decide +kernel

set_option maxRecDepth 1000000 in
/-- object-level facts: typeof, [[Class]], [[Prototype]], extensibility, [[PrimitiveValue]] of wrapper prototypes -/
theorem owners_match_spec :
    ∀ of ∈ Spec.owners, ∀ ft ∈ of.2, Spec.lookup Model.ownerFacts of.1 ft.1 = some ft.2 := by
  decide +kernel

theorem forin_matches_spec : Model.forIn = Spec.forIn := rfl

theorem links_match_spec : Model.links = Spec.links := rfl

set_option maxRecDepth 1000000 in
/-- the deviation regions are tight: at every listed (owner, property) inside a region the model differs from ES5 -/
theorem entry_regions_tight :
    ∀ e ∈ Spec.entries, Model.devEntry e.1 e.2.1 ≠ "-" → Spec.lookup Model.table e.1 e.2.1 ≠ some e.2.2 := by
  decide +kernel

/-! ### "each of the specified kind": internal representation and behaviour of the start-up objects -/

set_option maxRecDepth 1000000 in
/-- every §15 object is represented (class field, table of internal methods, Go type of value) the way otto represents an
    object of the kind ES5 says it is – Array.prototype dispatches through classArray, String.prototype through classString, … -/
theorem kinds_match_spec : ∀ o ∈ Owner.all, Model.selfKind o = Spec.repOf o := by decide +kernel

set_option maxRecDepth 1000000 in
/-- … and therefore behaves as that kind in every probed aspect (index write → length, invalid length → RangeError, shrink
    deletes, callable/not callable, wrapped value, NaN time value, …), outside the RegExp.prototype region -/
theorem aspects_match_spec :
    ∀ o ∈ Owner.all, ∀ a ∈ Spec.aspectsOf o, Model.devKind o a = "-" → Model.aspect o a = Spec.aspect o a := by decide +kernel

set_option maxRecDepth 1000000 in
theorem aspect_regions_tight :
    ∀ o ∈ Owner.all, ∀ a ∈ Spec.aspectsOf o, Model.devKind o a ≠ "-" → Model.aspect o a ≠ Spec.aspect o a := by decide +kernel

set_option maxRecDepth 1000000 in
/-- every object-valued slot holds either a native function object (ordinary internal methods) or one of the owners -/
theorem slot_kinds_wellformed :
    ∀ e ∈ Spec.flatten Model.kindTable, e.2.2 = Model.fnKind ∨ Owner.all.any (fun o => Model.selfKind o = e.2.2) = true := by
  decide +kernel

theorem behaviours_match_spec : Model.behaviours = Spec.behaviours := rfl

/-- [[Call]] and [[Construct]] of every constructor create the object ES5 prescribes, by every route -/
theorem routes_match_spec : Model.routes = Spec.routes := rfl

set_option maxRecDepth 1000000 in
/-- non-vacuity and shape of the route table: 15 constructors × 9 routes; a NativeError creates the same object by every route -/
theorem routes_table :
    Spec.routes.length = 135 ∧
    (∀ r ∈ Spec.routeNames, Spec.assoc ("ReferenceError_" ++ r) Spec.routes = some "ReferenceError.prototype:Error:ReferenceError:ReferenceError:m") ∧
    Spec.assoc "String_call" Spec.routes = some "prim:string" ∧ Spec.assoc "String_new" Spec.routes = some "String.prototype:String:String:-" := by
  decide +kernel

example : Model.aspect .RegExpPrototype "retest" = some "throws:TypeError" ∧ Spec.aspect .RegExpPrototype "retest" = some "true" := by decide
example : Spec.aspect .ArrayPrototype "idxlen" = some "6" ∧ Spec.aspect .ObjectPrototype "idxlen" = some "same" := by decide

/-! ### for-in never shows a built-in: every slot otto creates (ES5 ones *and* otto's extras, `console` included)
    is non-enumerable -/
set_option maxRecDepth 1000000 in
theorem model_no_enumerable_builtin :
    ∀ e ∈ Spec.flatten Model.table, e.2.2.attrs.e = false := by
  decide +kernel

/-- the members of the `console` object (inline.go newConsole) are all {W:true,E:false,C:true} functions -/
theorem console_members_nonenumerable : ∀ d ∈ Model.consoleProps, d.slot.attrs = Spec.wc ∧ d.slot.val = (Spec.fn 0).val := by
  decide +kernel

/-- transfer to any table equal to the model (used with the regenerated dumps) -/
theorem no_enumerable_of_eq (t : List (Owner × Props)) (h : t = Model.table) :
    ∀ e ∈ Spec.flatten t, e.2.2.attrs.e = false := by
  subst h; exact model_no_enumerable_builtin

theorem matches_spec_of_eq (t : List (Owner × Props)) (h : t = Model.table) :
    ∀ e ∈ Spec.entries, Model.devEntry e.1 e.2.1 = "-" → Spec.lookup t e.1 e.2.1 = some e.2.2 := by
  subst h; exact model_matches_spec

/-! ### every function slot the templates emit is a well-formed ES5 built-in function object (all declarations, by cases) -/

/-- function.tmpl, for ANY yaml item: `length` is {W:false,E:false,C:false}, [[Class]] Function, [[Prototype]]
    Function.prototype, extensible, no own `prototype`, not a constructor, no enumerable own property; the slot
    itself is {W:true,E:false,C:true}; and `function: -1` means length 0. -/
theorem fn_slot_wellformed (d : Model.Decl) (s : Spec.FnShape) (h : d.slot.val = .fn s) :
    s.lenAttrs = Spec.ro ∧ s.cls = .Function ∧ s.proto = .FunctionPrototype ∧ s.ext = true ∧
    s.hasPrototype = false ∧ s.newOK = false ∧ s.enumOwn = 0 ∧ d.slot.attrs = Spec.wc := by
  cases d <;> simp [Model.Decl.slot, Model.fnValue] at h <;> subst h <;>
    simp [Model.attrs, Spec.ro, Spec.wc, Model.Decl.slot]

theorem fn_len (n : String) (len : Int) :
    (Model.Decl.fn n len).slot = Spec.fn (if len = -1 then 0 else len.toNat) := by
  simp [Model.Decl.slot, Model.fnValue, Model.fnLen, Spec.fn, Spec.fnShape, Model.attrs, Spec.ro, Spec.wc]

/-- a value/link item gets exactly the attributes of its octal mode (property.go:10-17), for every mode -/
theorem mode_attrs (w e c : Bool) :
    Model.attrs ((if w then 64 else 0) + (if e then 8 else 0) + (if c then 1 else 0)) = ⟨w, e, c⟩ := by
  cases w <;> cases e <;> cases c <;> decide

/-! ### function objects created at run time (all parameter counts, all numbers of bound arguments) -/

/-- newBoundFunctionObject computes max(0, L − n) (ES5 §15.3.4.5 step 15), for every target length and argument count -/
theorem bound_length (L n : Nat) : Model.boundLength L n = ((L - n : Nat) : Int) := by
  unfold Model.boundLength; simp only; split <;> omega

theorem dyn_length_eq (k : Spec.DynKind) (L n : Nat) : Model.dynLength k L n = (Spec.dynLength k L n : Int) := by
  cases k <;> simp [Model.dynLength, Spec.dynLength, bound_length]

/-- §13.2 / §15.3.4.5: outside the region `bound_has_prototype` every reflected field of every run-time function object is as specified -/
theorem dyn_model_eq_spec (k : Spec.DynKind) (L n : Nat) (f : Spec.DynField) (h : Model.devDyn k f = "-") :
    Model.dyn k L n f = Spec.dyn k L n f := by
  cases f
  · have := dyn_length_eq k L n
    simp only [Model.dyn, Spec.dyn]
    rw [this]; simp [Model.attrs, Spec.Attrs.tok, Spec.ro]
  all_goals (cases k <;> simp_all [Model.dyn, Spec.dyn, Model.devDyn, Model.attrs, Spec.Attrs.tok])

/-- inside the regions otto deviates for every L and n -/
theorem dyn_regions_tight (k : Spec.DynKind) (L n : Nat) (f : Spec.DynField) (h : Model.devDyn k f ≠ "-") :
    Model.dyn k L n f ≠ Spec.dyn k L n f := by
  cases f <;> cases k <;> simp_all [Model.dyn, Spec.dyn, Model.devDyn, Model.attrs, Spec.Attrs.tok]

example : Model.dyn .bound 2 1 .hasproto = "P" ∧ Spec.dyn .bound 2 1 .hasproto = "-" := by decide
-- (former region accessor_descriptor_panic: fixed in /repo f48e83f, the model now agrees with the spec there)
example : Model.dyn .node 2 0 .callerdesc = Spec.dyn .node 2 0 .callerdesc ∧ Model.devDyn .node .callerdesc = "-" := by decide
example : Model.devDyn .node .length = "-" ∧ Model.devDyn .bound .length = "-" := by decide

/-! ### wiring: which Go function a slot is bound to follows the naming convention builtin<Type><Name>, except for
    the listed `call:` overrides -/
set_option maxRecDepth 100000 in
theorem call_overrides :
    (Model.types.flatMap (fun t => (t.props ++ t.protoProps).filterMap (fun d =>
        match d with | .fnCall n _ c => some (t.name, n, c) | _ => none))) =
    [("EvalError", "toString", "ErrorToString"), ("TypeError", "toString", "ErrorToString"), ("RangeError", "toString", "ErrorToString"),
     ("ReferenceError", "toString", "ErrorToString"), ("SyntaxError", "toString", "ErrorToString"), ("URIError", "toString", "ErrorToString")] := by
  decide +kernel

/-- no two slots of one owner share a name (so `lookup` is the whole story), for the model and the spec -/
def noDupKeys {α : Type} (ps : List (String × α)) : Bool :=
  match ps with
  | [] => true
  | (k, _) :: r => !(r.any (fun q => q.1 = k)) && noDupKeys r

set_option maxRecDepth 1000000 in
theorem model_keys_unique : ∀ op ∈ Model.table, noDupKeys op.2 = true := by decide +kernel
set_option maxRecDepth 1000000 in
theorem spec_keys_unique : ∀ op ∈ Spec.table, noDupKeys op.2 = true := by decide +kernel

/-! ### witnesses: the unchanged tree really deviates inside each region (kernel-checked; replayed on the real code
    by the request `entry fresh RegExp.prototype lastIndex` – see known_findings.jsonl) -/
example : Spec.lookup Model.table .RegExpPrototype "lastIndex" = none ∧ (Spec.lookup Spec.table .RegExpPrototype "lastIndex").isSome := by decide
-- non-vacuity: the entry region covers 5 of the 258 ES5 slots; the model has 281 slots (23 are otto's extras)
set_option maxRecDepth 1000000 in
example : (Spec.entries.filter (fun e => Model.devEntry e.1 e.2.1 != "-")).length = 5 ∧ Spec.entries.length = 258 ∧
    (Spec.flatten Model.table).length = 281 := by decide +kernel

end OttoVerif.C14.Thm
