/-
  C14/Model — what otto's code builds: a transcription of the generator input
  /repo/tools/gen-jscore/.gen-jscore.yaml (one `TypeDecl` per yaml `types:` item, in file order)
  together with the semantics of the generator templates /repo/tools/gen-jscore/templates/*.tmpl
  that expand it into /repo/inline.go (`newContext`, inline.go:9-8348; `newConsole`, inline.go:8350-8812),
  plus the two steps done outside the generated literal: global.go:44-56 (`newContext()`: the global object's
  prototype := Object.prototype) and otto.go:241-249 (`New()`: `o.Set("console", …)`, an ordinary [[Put]]).
  Core-only imports.
-/
import OttoVerif.C14.Spec
namespace OttoVerif.C14.Model
open OttoVerif.C14.Spec (Props Facts Owner Cls Attrs FnShape Val Slot assoc)

/-- one yaml `properties:` item (modes are otto's octal property modes, property.go:10-17) -/
inductive Decl
  | fn (name : String) (len : Int)                  -- `function: N`                       (function.tmpl)
  | fnCall (name : String) (len : Int) (call : String)  -- `function: N` with `call: X`    (Go function builtinX)
  | obj (name : String) (mode : Nat) (target : Owner)   -- `value: rt.global.X[Prototype]`
  | num (name : String) (mode : Nat) (bits : Nat)       -- `kind: valueNumber` (or `length`): bits of the float64
  | str (name : String) (mode : Nat) (s : String)       -- `kind: valueString`
  | undef (name : String) (mode : Nat)                  -- `kind: valueUndefined`

structure TypeDecl where
  name : String
  owner : Owner               -- the object the yaml `properties:` go to (rt.global.<Name>, or the global object)
  protoOwner : Owner          -- rt.global.<Name>Prototype
  cls : String                -- yaml `class` ("" ⇒ a constructor function, definition.tmpl)
  objProto : Owner            -- yaml `objectPrototype` (default Function)
  props : List Decl
  hasProto : Bool
  protoProto : Owner          -- yaml `prototype.prototype` (absent ⇒ nil)
  protoClass : String := ""   -- yaml `prototype.class` ("" ⇒ the type's name; prototype.tmpl `class{{or .Class $.Name}}Name`)
  protoObjectClass : String   -- yaml `prototype.objectClass`
  protoValue : String         -- yaml `prototype.value` (a Go variable of global.go:8-42)
  protoPrim : String          -- what that Go value is as a [[PrimitiveValue]] token (global.go:15-33)
  protoProps : List Decl

def types : List TypeDecl := [
  { name := "Object", owner := .Object, protoOwner := .ObjectPrototype, cls := "", objProto := .FunctionPrototype,
    props := [
      .num "length" 0o0 0x3ff0000000000000,
      .obj "prototype" 0o0 .ObjectPrototype,
      .fn "getPrototypeOf" (1),
      .fn "assign" (1),
      .fn "getOwnPropertyDescriptor" (2),
      .fn "defineProperty" (3),
      .fn "defineProperties" (2),
      .fn "create" (2),
      .fn "isExtensible" (1),
      .fn "preventExtensions" (1),
      .fn "isSealed" (1),
      .fn "seal" (1),
      .fn "isFrozen" (1),
      .fn "freeze" (1),
      .fn "keys" (1),
      .fn "values" (1),
      .fn "getOwnPropertyNames" (1)],
    hasProto := true, protoProto := .null, protoObjectClass := "Object", protoValue := "prototypeValueObject", protoPrim := "-",
    protoProps := [
      .obj "constructor" 0o101 .Object,
      .fn "hasOwnProperty" (1),
      .fn "isPrototypeOf" (1),
      .fn "propertyIsEnumerable" (1),
      .fn "toString" (-1),
      .fn "valueOf" (-1),
      .fn "toLocaleString" (-1)] },
  { name := "Function", owner := .Function, protoOwner := .FunctionPrototype, cls := "", objProto := .FunctionPrototype,
    props := [
      .num "length" 0o0 0x3ff0000000000000,
      .obj "prototype" 0o0 .FunctionPrototype],
    hasProto := true, protoProto := .ObjectPrototype, protoObjectClass := "Object", protoValue := "prototypeValueFunction", protoPrim := "-",
    protoProps := [
      .fn "toString" (-1),
      .fn "apply" (2),
      .fn "call" (1),
      .fn "bind" (1),
      .obj "constructor" 0o101 .Function,
      .num "length" 0o0 0x0000000000000000] },
  { name := "Array", owner := .Array, protoOwner := .ArrayPrototype, cls := "", objProto := .FunctionPrototype,
    props := [
      .num "length" 0o0 0x3ff0000000000000,
      .obj "prototype" 0o0 .ArrayPrototype,
      .fn "isArray" (1)],
    hasProto := true, protoProto := .ObjectPrototype, protoObjectClass := "Array", protoValue := "nil", protoPrim := "-",
    protoProps := [
      .num "length" 0o100 0x0000000000000000,
      .obj "constructor" 0o101 .Array,
      .fn "concat" (1),
      .fn "lastIndexOf" (1),
      .fn "pop" (-1),
      .fn "push" (1),
      .fn "reverse" (-1),
      .fn "shift" (-1),
      .fn "unshift" (1),
      .fn "slice" (2),
      .fn "sort" (1),
      .fn "splice" (2),
      .fn "indexOf" (1),
      .fn "join" (1),
      .fn "forEach" (1),
      .fn "filter" (1),
      .fn "map" (1),
      .fn "every" (1),
      .fn "some" (1),
      .fn "reduce" (1),
      .fn "reduceRight" (1),
      .fn "toLocaleString" (-1),
      .fn "toString" (-1)] },
  { name := "String", owner := .String, protoOwner := .StringPrototype, cls := "", objProto := .FunctionPrototype,
    props := [
      .num "length" 0o0 0x3ff0000000000000,
      .obj "prototype" 0o0 .StringPrototype,
      .fn "fromCharCode" (1)],
    hasProto := true, protoProto := .ObjectPrototype, protoObjectClass := "String", protoValue := "prototypeValueString", protoPrim := "str:",
    protoProps := [
      .num "length" 0o0 0x0000000000000000,
      .obj "constructor" 0o101 .String,
      .fn "charAt" (1),
      .fn "charCodeAt" (1),
      .fn "concat" (1),
      .fn "indexOf" (1),
      .fn "lastIndexOf" (1),
      .fn "localeCompare" (1),
      .fn "match" (1),
      .fn "replace" (2),
      .fn "search" (1),
      .fn "slice" (2),
      .fn "split" (2),
      .fn "substr" (2),
      .fn "substring" (2),
      .fn "startsWith" (1),
      .fn "toString" (-1),
      .fn "trim" (-1),
      .fn "trimLeft" (-1),
      .fn "trimRight" (-1),
      .fn "trimStart" (-1),
      .fn "trimEnd" (-1),
      .fn "toLocaleLowerCase" (-1),
      .fn "toLocaleUpperCase" (-1),
      .fn "toLowerCase" (-1),
      .fn "toUpperCase" (-1),
      .fn "valueOf" (-1)] },
  { name := "Boolean", owner := .Boolean, protoOwner := .BooleanPrototype, cls := "", objProto := .FunctionPrototype,
    props := [
      .num "length" 0o0 0x3ff0000000000000,
      .obj "prototype" 0o0 .BooleanPrototype],
    hasProto := true, protoProto := .ObjectPrototype, protoObjectClass := "Object", protoValue := "prototypeValueBoolean", protoPrim := "bool:false",
    protoProps := [
      .obj "constructor" 0o101 .Boolean,
      .fn "toString" (-1),
      .fn "valueOf" (-1)] },
  { name := "Number", owner := .Number, protoOwner := .NumberPrototype, cls := "", objProto := .FunctionPrototype,
    props := [
      .num "length" 0o0 0x3ff0000000000000,
      .obj "prototype" 0o0 .NumberPrototype,
      .fn "isNaN" (1),
      .num "MAX_VALUE" 0o0 0x7fefffffffffffff,
      .num "MIN_VALUE" 0o0 0x0000000000000001,
      .num "NaN" 0o0 0x7ff8000000000001,
      .num "NEGATIVE_INFINITY" 0o0 0xfff0000000000000,
      .num "POSITIVE_INFINITY" 0o0 0x7ff0000000000000],
    hasProto := true, protoProto := .ObjectPrototype, protoObjectClass := "Object", protoValue := "prototypeValueNumber", protoPrim := "num:0000000000000000",
    protoProps := [
      .obj "constructor" 0o101 .Number,
      .fn "toExponential" (1),
      .fn "toFixed" (1),
      .fn "toPrecision" (1),
      .fn "toString" (1),
      .fn "valueOf" (-1),
      .fn "toLocaleString" (-1)] },
  { name := "Math", owner := .Math, protoOwner := .unknown, cls := "Math", objProto := .ObjectPrototype,
    props := [
      .fn "abs" (1),
      .fn "acos" (1),
      .fn "acosh" (1),
      .fn "asin" (1),
      .fn "asinh" (1),
      .fn "atan" (1),
      .fn "atanh" (1),
      .fn "atan2" (2),
      .fn "cbrt" (1),
      .fn "ceil" (1),
      .fn "cos" (1),
      .fn "cosh" (1),
      .fn "exp" (1),
      .fn "expm1" (1),
      .fn "floor" (1),
      .fn "log" (1),
      .fn "log10" (1),
      .fn "log1p" (1),
      .fn "log2" (1),
      .fn "max" (2),
      .fn "min" (2),
      .fn "pow" (2),
      .fn "random" (-1),
      .fn "round" (1),
      .fn "sin" (1),
      .fn "sinh" (1),
      .fn "sqrt" (1),
      .fn "tan" (1),
      .fn "tanh" (1),
      .fn "trunc" (1),
      .num "E" 0o0 0x4005bf0a8b145769,
      .num "LN10" 0o0 0x40026bb1bbb55516,
      .num "LN2" 0o0 0x3fe62e42fefa39ef,
      .num "LOG10E" 0o0 0x3fdbcb7b1526e50e,
      .num "LOG2E" 0o0 0x3ff71547652b82fe,
      .num "PI" 0o0 0x400921fb54442d18,
      .num "SQRT1_2" 0o0 0x3fe6a09e667f3bcd,
      .num "SQRT2" 0o0 0x3ff6a09e667f3bcd],
    hasProto := false, protoProto := .null, protoObjectClass := "", protoValue := "", protoPrim := "-", protoProps := [] },
  { name := "Date", owner := .Date, protoOwner := .DatePrototype, cls := "", objProto := .FunctionPrototype,
    props := [
      .num "length" 0o0 0x401c000000000000,
      .obj "prototype" 0o0 .DatePrototype,
      .fn "parse" (1),
      .fn "UTC" (7),
      .fn "now" (-1)],
    hasProto := true, protoProto := .ObjectPrototype, protoObjectClass := "Object", protoValue := "prototypeValueDate", protoPrim := "num:7ff8000000000001",
    protoProps := [
      .obj "constructor" 0o101 .Date,
      .fn "toString" (-1),
      .fn "toDateString" (-1),
      .fn "toTimeString" (-1),
      .fn "toISOString" (-1),
      .fn "toUTCString" (-1),
      .fn "toGMTString" (-1),
      .fn "getDate" (-1),
      .fn "setDate" (1),
      .fn "getDay" (-1),
      .fn "getFullYear" (-1),
      .fn "setFullYear" (3),
      .fn "getHours" (-1),
      .fn "setHours" (4),
      .fn "getMilliseconds" (-1),
      .fn "setMilliseconds" (1),
      .fn "getMinutes" (-1),
      .fn "setMinutes" (3),
      .fn "getMonth" (-1),
      .fn "setMonth" (2),
      .fn "getSeconds" (-1),
      .fn "setSeconds" (2),
      .fn "getTime" (-1),
      .fn "setTime" (1),
      .fn "getTimezoneOffset" (-1),
      .fn "getUTCDate" (-1),
      .fn "setUTCDate" (1),
      .fn "getUTCDay" (-1),
      .fn "getUTCFullYear" (-1),
      .fn "setUTCFullYear" (3),
      .fn "getUTCHours" (-1),
      .fn "setUTCHours" (4),
      .fn "getUTCMilliseconds" (-1),
      .fn "setUTCMilliseconds" (1),
      .fn "getUTCMinutes" (-1),
      .fn "setUTCMinutes" (3),
      .fn "getUTCMonth" (-1),
      .fn "setUTCMonth" (2),
      .fn "getUTCSeconds" (-1),
      .fn "setUTCSeconds" (2),
      .fn "valueOf" (-1),
      .fn "getYear" (-1),
      .fn "setYear" (1),
      .fn "toJSON" (1),
      .fn "toLocaleString" (-1),
      .fn "toLocaleDateString" (-1),
      .fn "toLocaleTimeString" (-1)] },
  { name := "RegExp", owner := .RegExp, protoOwner := .RegExpPrototype, cls := "", objProto := .FunctionPrototype,
    props := [
      .num "length" 0o0 0x4000000000000000,
      .obj "prototype" 0o0 .RegExpPrototype],
    hasProto := true, protoProto := .ObjectPrototype, protoObjectClass := "Object", protoValue := "prototypeValueRegExp", protoPrim := "-",
    protoProps := [
      .obj "constructor" 0o101 .RegExp,
      .fn "exec" (1),
      .fn "compile" (1),
      .fn "toString" (-1),
      .fn "test" (1)] },
  { name := "Error", owner := .Error, protoOwner := .ErrorPrototype, cls := "", objProto := .FunctionPrototype,
    props := [
      .num "length" 0o0 0x3ff0000000000000,
      .obj "prototype" 0o0 .ErrorPrototype],
    hasProto := true, protoProto := .ObjectPrototype, protoObjectClass := "Object", protoValue := "nil", protoPrim := "-",
    protoProps := [
      .obj "constructor" 0o101 .Error,
      .str "name" 0o101 "Error",
      .str "message" 0o101 "",
      .fn "toString" (-1)] },
  { name := "EvalError", owner := .EvalError, protoOwner := .EvalErrorPrototype, cls := "", objProto := .FunctionPrototype,
    props := [
      .num "length" 0o0 0x3ff0000000000000,
      .obj "prototype" 0o0 .EvalErrorPrototype],
    hasProto := true, protoProto := .ErrorPrototype, protoClass := "Error", protoObjectClass := "Object", protoValue := "nil", protoPrim := "-",
    protoProps := [
      .obj "constructor" 0o101 .EvalError,
      .str "name" 0o101 "EvalError",
      .str "message" 0o101 "",
      .fnCall "toString" (-1) "ErrorToString"] },
  { name := "TypeError", owner := .TypeError, protoOwner := .TypeErrorPrototype, cls := "", objProto := .FunctionPrototype,
    props := [
      .num "length" 0o0 0x3ff0000000000000,
      .obj "prototype" 0o0 .TypeErrorPrototype],
    hasProto := true, protoProto := .ErrorPrototype, protoClass := "Error", protoObjectClass := "Object", protoValue := "nil", protoPrim := "-",
    protoProps := [
      .obj "constructor" 0o101 .TypeError,
      .str "name" 0o101 "TypeError",
      .str "message" 0o101 "",
      .fnCall "toString" (-1) "ErrorToString"] },
  { name := "RangeError", owner := .RangeError, protoOwner := .RangeErrorPrototype, cls := "", objProto := .FunctionPrototype,
    props := [
      .num "length" 0o0 0x3ff0000000000000,
      .obj "prototype" 0o0 .RangeErrorPrototype],
    hasProto := true, protoProto := .ErrorPrototype, protoClass := "Error", protoObjectClass := "Object", protoValue := "nil", protoPrim := "-",
    protoProps := [
      .obj "constructor" 0o101 .RangeError,
      .str "name" 0o101 "RangeError",
      .str "message" 0o101 "",
      .fnCall "toString" (-1) "ErrorToString"] },
  { name := "ReferenceError", owner := .ReferenceError, protoOwner := .ReferenceErrorPrototype, cls := "", objProto := .FunctionPrototype,
    props := [
      .num "length" 0o0 0x3ff0000000000000,
      .obj "prototype" 0o0 .ReferenceErrorPrototype],
    hasProto := true, protoProto := .ErrorPrototype, protoClass := "Error", protoObjectClass := "Object", protoValue := "nil", protoPrim := "-",
    protoProps := [
      .obj "constructor" 0o101 .ReferenceError,
      .str "name" 0o101 "ReferenceError",
      .str "message" 0o101 "",
      .fnCall "toString" (-1) "ErrorToString"] },
  { name := "SyntaxError", owner := .SyntaxError, protoOwner := .SyntaxErrorPrototype, cls := "", objProto := .FunctionPrototype,
    props := [
      .num "length" 0o0 0x3ff0000000000000,
      .obj "prototype" 0o0 .SyntaxErrorPrototype],
    hasProto := true, protoProto := .ErrorPrototype, protoClass := "Error", protoObjectClass := "Object", protoValue := "nil", protoPrim := "-",
    protoProps := [
      .obj "constructor" 0o101 .SyntaxError,
      .str "name" 0o101 "SyntaxError",
      .str "message" 0o101 "",
      .fnCall "toString" (-1) "ErrorToString"] },
  { name := "URIError", owner := .URIError, protoOwner := .URIErrorPrototype, cls := "", objProto := .FunctionPrototype,
    props := [
      .num "length" 0o0 0x3ff0000000000000,
      .obj "prototype" 0o0 .URIErrorPrototype],
    hasProto := true, protoProto := .ErrorPrototype, protoClass := "Error", protoObjectClass := "Object", protoValue := "nil", protoPrim := "-",
    protoProps := [
      .obj "constructor" 0o101 .URIError,
      .str "name" 0o101 "URIError",
      .str "message" 0o101 "",
      .fnCall "toString" (-1) "ErrorToString"] },
  { name := "JSON", owner := .JSON, protoOwner := .unknown, cls := "JSON", objProto := .ObjectPrototype,
    props := [
      .fn "parse" (2),
      .fn "stringify" (3)],
    hasProto := false, protoProto := .null, protoObjectClass := "", protoValue := "", protoPrim := "-", protoProps := [] },
  { name := "Global", owner := .global, protoOwner := .unknown, cls := "", objProto := .FunctionPrototype,
    props := [
      .fn "eval" (1),
      .fn "parseInt" (2),
      .fn "parseFloat" (1),
      .fn "isNaN" (1),
      .fn "isFinite" (1),
      .fn "decodeURI" (1),
      .fn "decodeURIComponent" (1),
      .fn "encodeURI" (1),
      .fn "encodeURIComponent" (1),
      .fn "escape" (1),
      .fn "unescape" (1),
      .obj "Object" 0o101 .Object,
      .obj "Function" 0o101 .Function,
      .obj "Array" 0o101 .Array,
      .obj "String" 0o101 .String,
      .obj "Boolean" 0o101 .Boolean,
      .obj "Number" 0o101 .Number,
      .obj "Math" 0o101 .Math,
      .obj "Date" 0o101 .Date,
      .obj "RegExp" 0o101 .RegExp,
      .obj "Error" 0o101 .Error,
      .obj "EvalError" 0o101 .EvalError,
      .obj "TypeError" 0o101 .TypeError,
      .obj "RangeError" 0o101 .RangeError,
      .obj "ReferenceError" 0o101 .ReferenceError,
      .obj "SyntaxError" 0o101 .SyntaxError,
      .obj "URIError" 0o101 .URIError,
      .obj "JSON" 0o101 .JSON,
      .undef "undefined" 0o0,
      .num "NaN" 0o0 0x7ff8000000000001,
      .num "Infinity" 0o0 0x7ff0000000000000],
    hasProto := false, protoProto := .null, protoObjectClass := "", protoValue := "", protoPrim := "-", protoProps := [] }]

/-- yaml `log:` (newConsole) -/
def consoleProps : List Decl := [
      .fn "log" (-1),
      .fnCall "debug" (-1) "ConsoleLog",
      .fnCall "info" (-1) "ConsoleLog",
      .fn "error" (-1),
      .fnCall "warn" (-1) "ConsoleError",
      .fn "dir" (-1),
      .fn "time" (-1),
      .fn "timeEnd" (-1),
      .fn "trace" (-1),
      .fn "assert" (-1)]

/-! ### template semantics -/

/-- otto's octal mode (property.go:10-17: digits write/enumerate/configure, 1 = on) -/
def attrs (m : Nat) : Attrs := ⟨m / 64 % 8 == 1, m / 8 % 8 == 1, m % 8 == 1⟩

/-- function.tmpl: `value: {{if eq .Property.Function -1}}0{{else}}{{.Property.Function}}{{end}}` -/
def fnLen (len : Int) : Nat := if len = -1 then 0 else len.toNat

/-- function.tmpl: class Function, prototype rt.global.FunctionPrototype, extensible, own properties
    `length` (mode 0) and `name` (mode 0) only, nativeFunctionObject without `construct`
    (type_function.go:167-198: construct == nil ⇒ "… is not a constructor"). -/
def fnValue (len : Int) : Val :=
  .fn { len := fnLen len, lenAttrs := attrs 0, cls := .Function, proto := .FunctionPrototype, ext := true,
        hasPrototype := false, newOK := false, enumOwn := 0 }

def Decl.name : Decl → String
  | .fn n _ | .fnCall n _ _ | .obj n _ _ | .num n _ _ | .str n _ _ | .undef n _ => n

/-- property-value.tmpl: `mode: {{if .Mode}}{{.Mode}}{{else if or .Function (eq .Name "constructor")}}0o101{{else}}0{{end}}`
    (the transcription already carries the explicit/default mode of non-function items) -/
def Decl.slot : Decl → Slot
  | .fn _ len | .fnCall _ len _ => ⟨fnValue len, attrs 0o101⟩
  | .obj _ m t => ⟨.ref t, attrs m⟩
  | .num _ m b => ⟨.num b, attrs m⟩
  | .str _ m s => ⟨.str s, attrs m⟩
  | .undef _ m => ⟨.undef, attrs m⟩

/-- otto.go `New()`: `globalObject.defineProperty("console", …, 0o101, false)` -/
def consoleEntry : String × Slot := ("console", ⟨.obj .Object, attrs 0o101⟩)

def propsOf (ds : List Decl) : Props := ds.map (fun d => (d.name, d.slot))

/-- owner ↦ properties in `propertyOrder` (= yaml order = Object.getOwnPropertyNames order) -/
def table : List (Owner × Props) :=
  types.flatMap (fun t =>
    [(t.owner, propsOf t.props ++ (if t.owner = .global then [consoleEntry] else []))] ++
    (if t.hasProto then [(t.protoOwner, propsOf t.protoProps)] else []))

/-! ### Go-level wiring: "<mode, octal>:<nativeFunctionObject.name>:<Go name of call>:<Go name of construct>" -/

/-- prototype.tmpl: `class: class{{or .Class $.Name}}Name` -/
def TypeDecl.protoCls (t : TypeDecl) : String := if t.protoClass = "" then t.name else t.protoClass

/-- helpers.go `ucfirst` (ASCII) -/
def ucfirst (s : String) : String :=
  match s.toList with
  | [] => ""
  | c :: r => String.ofList (c.toUpper :: r)

/-- is the object a constructor function (definition.tmpl: `{{if not .Class}} value: nativeFunctionObject{name, call: builtinX, construct: builtinNewX}`)? -/
def isCtor (o : Owner) : Bool := types.any (fun t => t.owner = o && t.cls = "" && t.owner != .global)

def octal (m : Nat) : String := if m = 0 then "0" else String.ofList ((Nat.toDigits 8 m))

def Decl.bind (tyName : String) : Decl → String
  | .fn n _ => "101:" ++ n ++ ":builtin" ++ tyName ++ ucfirst n ++ ":-"
  | .fnCall n _ c => "101:" ++ n ++ ":builtin" ++ c ++ ":-"
  | .obj _ m t =>
      if isCtor t then octal m ++ ":" ++ t.path ++ ":builtin" ++ t.path ++ ":builtinNew" ++ t.path
      else if t = .FunctionPrototype then octal m ++ "::closure:-"      -- global.go:10-14 prototypeValueFunction
      else octal m ++ ":-:-:-"
  | .num _ m _ | .str _ m _ | .undef _ m => octal m ++ ":-:-:-"

def bindsOf (ty : String) (ds : List Decl) : Facts := ds.map (fun d => (d.name, d.bind ty))

/-- global.go newContext(): `datePrototype.property["toGMTString"] = datePrototype.property["toUTCString"]` (B.2.6: one function object) -/
def aliasGMT (t : List (Owner × Facts)) : List (Owner × Facts) :=
  t.map (fun (o, ps) =>
    if o = .DatePrototype then
      (o, ps.map (fun (k, v) => if k = "toGMTString" then (k, (Spec.assoc "toUTCString" ps).getD v) else (k, v)))
    else (o, ps))

def bindTable : List (Owner × Facts) :=
  aliasGMT <| types.flatMap (fun t =>
    [(t.owner, bindsOf t.name t.props ++ (if t.owner = .global then [("console", "101:-:-:-")] else []))] ++
    (if t.hasProto then [(t.protoOwner, bindsOf t.name t.protoProps)] else []))

/-- the objects held in rt.global themselves: "<class field>:<nativeFunctionObject.name>:<call>:<construct>"
    (definition.tmpl: `name: class{{Name}}Name, call: builtin{{Name}}, construct: builtinNew{{Name}}`; prototype.tmpl) -/
def selfTable : List (Owner × String) :=
  types.flatMap (fun t =>
    (if t.owner = .global then []
     else if t.cls = "" then [(t.owner, "Function:" ++ t.name ++ ":builtin" ++ t.name ++ ":builtinNew" ++ t.name)]
     else [(t.owner, t.cls ++ ":-:-:-")]) ++
    (if t.hasProto then [(t.protoOwner, if t.name = "Function" then "Function::closure:-" else t.protoCls ++ ":-:-:-")] else []))

/-! ### internal representation: `class` field, `objectClass` (the table of internal methods, object_class.go:40-170) and the Go
    type of `value`, as definition.tmpl / prototype.tmpl / function.tmpl emit them -/

/-- the Go variables of global.go:8-42 named by yaml `prototype.value` -/
def goTypeOf : String → String
  | "prototypeValueFunction" => "nativeFunctionObject"
  | "prototypeValueString" => "stringASCII"
  | "prototypeValueBoolean" | "prototypeValueNumber" => "Value"
  | "prototypeValueDate" => "dateObject"
  | "prototypeValueRegExp" => "regExpObject"
  | _ => "<nil>"                               -- prototypeValueObject = interface{}(nil), `value: nil`

def fnKind : String := "Function:Object:nativeFunctionObject"

def selfKind (o : Owner) : String :=
  match types.find? (fun t => t.owner = o), types.find? (fun t => t.hasProto && t.protoOwner = o) with
  | some t, _ => if o = .global then "environment:Object:<nil>"          -- stash.go:37
                 else if t.cls = "" then fnKind else t.cls ++ ":Object:<nil>"
  | none, some t => t.protoCls ++ ":" ++ t.protoObjectClass ++ ":" ++ goTypeOf t.protoValue
  | none, none => "?"

def Decl.kind? : Decl → Option (String × String)
  | .fn n _ | .fnCall n _ _ => some (n, fnKind)
  | .obj n _ t => some (n, selfKind t)
  | _ => none

def kindsOf (o : Owner) (ds : List Decl) : Facts := ("@self", selfKind o) :: ds.filterMap Decl.kind?

def kindTable : List (Owner × Facts) :=
  types.flatMap (fun t =>
    [(t.owner, kindsOf t.owner t.props ++ (if t.owner = .global then [("console", "Object:Object:<nil>")] else []))] ++
    (if t.hasProto then [(t.protoOwner, kindsOf t.protoOwner t.protoProps)] else []))

/-- which table of internal methods an owner dispatches through -/
def objectClassOf (o : Owner) : String :=
  match types.find? (fun t => t.hasProto && t.protoOwner = o) with
  | some t => t.protoObjectClass
  | none => "Object"

/-- object_class.go:65-79: classArray differs from classObject in defineOwnProperty = arrayDefineOwnProperty (type_array.go),
    which keeps `length` in step with index writes, rejects invalid lengths with RangeError and deletes on shrink -/
def aspect (o : Owner) (a : String) : Option String :=
  if a = "call" then
    some (match types.find? (fun t => t.owner = o && t.cls = "" && o != .global) with
          | some _ => Spec.callResult o        -- builtin<Name> called as a function (builtin_*.go), one distinguishing probe each
          | none => if o = .FunctionPrototype then "returns:undefined"      -- global.go:10-14
                    else "notcallable")
  else if Spec.universalAspects.contains a then
    some (if objectClassOf o = "Array" then Spec.arrayAspect a else Spec.ordinaryAspect a)
  else if o = .RegExpPrototype ∧ a = "retest" then some "throws:TypeError"  -- type_regexp.go:87 regularExpression == nil
  else if o = .RegExpPrototype ∧ a = "restr" then some "/undefined/"        -- builtin_regexp.go toString reads the missing `source`
  else Spec.assoc a (Spec.kindAspects o)

def devKind (o : Owner) (a : String) : String :=
  if o = .RegExpPrototype ∧ (a = "retest" ∨ a = "restr") then "regexp_proto_props" else "-"

def behaviours : Facts := Spec.behaviours

/-- builtin_*.go: `builtin<Name>` ([[Call]]) and `builtinNew<Name>` ([[Construct]]) of every constructor end in the same
    `rt.new<Name>` (builtin_error.go:7-13, 48-125: each NativeError pair calls `rt.new<Name>Error`); type_function.go:102-113 a bound
    function constructs through its target; String/Number/Boolean/Date called as functions return the primitive -/
def routes : Facts := Spec.routes

/-! ### definition.tmpl / prototype.tmpl: the object-level facts -/
def ownerFacts : List (Owner × Facts) :=
  types.flatMap (fun t =>
    [(t.owner,
      if t.owner = .global then
        [("typeof", "object"), ("ext", "x"), ("forin", "-")]
      else if t.cls = "" then
        [("typeof", "function"), ("class", "Function"), ("proto", t.objProto.path), ("ext", "x"), ("forin", "-")]
      else
        [("typeof", "object"), ("class", t.cls), ("proto", t.objProto.path), ("ext", "x"), ("forin", "-")])] ++
    (if t.hasProto then
      [(t.protoOwner,
        [("typeof", if t.name = "Function" then "function" else "object"),
         ("class", t.protoCls),
         ("proto", t.protoProto.path),
         ("ext", "x"), ("forin", "-")] ++ (if t.protoPrim = "-" then [] else [("prim", t.protoPrim)]))]
     else []))

def entries : List (Owner × String × Slot) := Spec.flatten table

/-! ### for-in and links as otto's constructors build them -/

/-- type_error.go:3-30 / global.go: `message` (and `name` of a plain Error) are defined with mode 0o101 on every error
    object, so for-in shows nothing the user did not put there -/
def forIn : Facts := Spec.forIn

def links : Facts := Spec.links

/-! ### function objects created at run time: type_function.go:82-100, 120-150 and global.go:190-217 -/
open Spec (DynKind DynField)

/-- type_function.go:91-95 newBoundFunctionObject: `length := int(toInt32(target.get("length"))); length -= len(argumentList);
    if length < 0 { length = 0 }` (toInt32 is the identity on the lengths that occur) -/
def boundLength (L : Int) (n : Nat) : Int :=
  let l := L - n
  if l < 0 then 0 else l

/-- type_function.go:127 newNodeFunctionObject: `intValue(len(node.parameterList))` -/
def dynLength (k : DynKind) (L n : Nat) : Int :=
  match k with
  | .bound => boundLength L n
  | _ => L

/-- name/length are defined with mode 0o000; global.go:199-217: every kind (bound ones too) gets an own `prototype` with
    mode 0o100 whose `constructor` has mode 0o101 (newNodeFunction) resp. 0o100 (newBoundFunction); `caller` of node functions
    (type_function.go:128-146) and `stack` of errors (type_error.go:13-21) are accessors stored with a mode that
    property.go:98-104 isDataDescriptor takes for a data property; since /repo f48e83f property.go:197-221
    fromPropertyDescriptor decides by the stored value and returns {get, set, enumerable:false, configurable} -/
def dyn (k : DynKind) (L n : Nat) : DynField → String
  | .length => toString (dynLength k L n).toNat ++ "|" ++ (attrs 0o000).tok    -- (never negative after the clamp)
  | .hasproto => "P"
  | .protoattr => (attrs 0o100).tok
  | .ctor => "self|" ++ (attrs (if k = .bound then 0o100 else 0o101)).tok
  | .enumown => "0"
  | .callerdesc => "ok"
  | .stackdesc => "ok"

/-- `dynfn <kind> <L> <n> <field>` -/
def devDyn (k : DynKind) (f : DynField) : String :=
  if k = .bound ∧ (f = .hasproto ∨ f = .protoattr ∨ f = .ctor) then "bound_has_prototype"
  else "-"

/-! ### deviation regions: decidable predicates on the request, each naming one defect -/

/-- `entry <owner> <prop>` -/
def devEntry (owner : Owner) (prop : String) : String :=
  if owner = .RegExpPrototype ∧ (prop = "source" ∨ prop = "global" ∨ prop = "ignoreCase" ∨ prop = "multiline" ∨ prop = "lastIndex")
    then "regexp_proto_props"
  else "-"

end OttoVerif.C14.Model
