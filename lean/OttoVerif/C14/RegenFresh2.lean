/-
  C14/RegenFresh2 — ledger module: theorems over the REGENERATED dump of configuration `fresh2`
  (GenFresh2.lean, written by `ottoh-C14 --dump` from the running runtime on every ./check, never committed).
  Each `decide` re-runs in the kernel whenever the dump changes; the corollaries below are then the property
  for this configuration.  (Same text for every configuration; only the module name and `user` differ.)
-/
import OttoVerif.C14.Theorems
import OttoVerif.C14.GenFresh2
namespace OttoVerif.C14.Thm.Fresh2
open OttoVerif.C14
open OttoVerif.C14.Spec (Owner Slot Props Facts Dump)

/-- globals created by this configuration's own scripts ("modulo the underscore global") -/
def user : List String := []
def dump : Dump := GenFresh2.dump

set_option maxRecDepth 1000000 in
/-- the reflected runtime has exactly the model's slots: same owners, same names in the same order
    (Object.getOwnPropertyNames = propertyOrder), same value kinds, lengths, links and attributes -/
theorem ents_eq_model : Spec.stripUser user dump.ents = Model.table := by decide +kernel

set_option maxRecDepth 1000000 in
theorem owns_eq_model :
    ∀ of ∈ Model.ownerFacts, ∀ ft ∈ of.2, (of.1 = Owner.global ∧ ft.1 = "forin") ∨ Spec.lookup dump.owns of.1 ft.1 = some ft.2 := by
  decide +kernel

/-- for-in over the global object shows the user globals, nothing else -/
theorem global_forin : Spec.lookup dump.owns .global "forin" = some (if user.isEmpty then "-" else ",".intercalate user) := by decide +kernel

set_option maxRecDepth 100000 in
theorem forin_eq_model : ∀ kv ∈ Model.forIn, Spec.assoc kv.1 dump.forIn = some kv.2 := by decide +kernel

set_option maxRecDepth 100000 in
theorem links_eq_spec : ∀ kv ∈ Spec.links, Spec.assoc kv.1 dump.links = some kv.2 := by decide +kernel

/-- hook facts: propertyOrder lists exactly the keys of property on every reachable object; rt.eval is global.eval -/
theorem order_consistent : dump.order = "consistent" := by decide
theorem eval_link : dump.evalLink = "ok" := by decide

set_option maxRecDepth 1000000 in
/-- hook facts: every §15 object has the class field, internal-method table and value type of the model -/
theorem self_kinds_eq_model : ∀ o ∈ Owner.all, Spec.lookup dump.kinds o "@self" = some (Model.selfKind o) := by decide +kernel

set_option maxRecDepth 1000000 in
/-- arrays, String objects and arguments objects the language creates behave as ES5 15.4.5 / 15.5.5 / 10.6 say -/
theorem behaviours_eq_model : ∀ kv ∈ Model.behaviours, Spec.assoc kv.1 dump.behaviours = some kv.2 := by decide +kernel

set_option maxRecDepth 1000000 in
/-- every constructor, driven through [[Call]] and [[Construct]] by every route, creates what ES5 prescribes -/
theorem routes_eq_spec : ∀ kv ∈ Spec.routes, Spec.assoc kv.1 dump.routes = some kv.2 := by decide +kernel

/-! corollaries: the property for this configuration -/

/-- every (owner, property) of ES5 §15 outside the deviation regions has exactly the specified shape -/
theorem matches_spec :
    ∀ e ∈ Spec.entries, Model.devEntry e.1 e.2.1 = "-" → Spec.lookup (Spec.stripUser user dump.ents) e.1 e.2.1 = some e.2.2 :=
  matches_spec_of_eq _ ents_eq_model

/-- no own property of any §15 object is enumerable (except the user's own globals) -/
theorem no_enumerable_builtin :
    ∀ e ∈ Spec.flatten (Spec.stripUser user dump.ents), e.2.2.attrs.e = false :=
  no_enumerable_of_eq _ ents_eq_model

end OttoVerif.C14.Thm.Fresh2
