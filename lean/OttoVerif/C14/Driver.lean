/-
  C14/Driver — line protocol front end (core-only).
  request                                   reply  <model> <spec> <dev>
    list                                    every table-driven request name, comma separated, in the model field
    entry  <cfg> <owner> <prop>             shape token of one ES5 §15 property slot (`absent` when missing)
    own    <cfg> <owner> <field>            object-level fact (typeof class proto ext prim forin)
    extra  <cfg> <owner> <prop>             a property ES5 does not list: `nonenum` / `enum`
    forin  <cfg> <subject>                  keys shown by for-in over an ordinary value
    link   <cfg> <subject>                  "<[[Prototype]] owner>:<[[Class]]>" of a value the language creates
    bind   <cfg> <owner> <prop>             Go-level wiring "<mode>:<name>:<call>:<construct>"  (prop `@self`: the owner itself,
                                            "<class>:<name>:<call>:<construct>")
    static <cfg> order|eval                 propertyOrder = keys(property) on every reachable object; rt.eval is global.eval
    same   <cfgA> <cfgB>                    the two dumps are identical (modulo user globals)
    probe  <cfg> <owner> <prop> <jshex>     a distinguishing call of the built-in function evaluates to true
    noprobe <owner> <prop>                  a built-in function without a probe (always a disagreement)
    objkind <cfg> <owner> <prop|@self>      internal representation "<class>:<objectClass>:<Go type of value>" (hook)
    kind   <cfg> <owner> <aspect>           behaviour of a start-up object as the special object ES5 says it is (on a throw-away Copy)
    beh    <cfg> <name>                     the same behaviours for arrays / String objects / arguments objects the language creates
    route  <cfg> <Ctor>_<route>             a constructor driven through one [[Call]] / [[Construct]] route: what it creates
    dynfn  <cfg> <kind> <L> <n> <field>     shape of a function object created at run time (L parameters, n bound arguments)
  <cfg> ∈ fresh fresh2 under copy copy2 usedcopy undercopy; the tables do not depend on it except for the
  user globals (`_`, `userFn`, `userGlobal`) that for-in over the global object rightly shows.
-/
import OttoVerif.Base.Proto
import OttoVerif.C14.Model
namespace OttoVerif.C14.Driver
open OttoVerif.C14

def cfgs : List String := ["fresh", "fresh2", "under", "copy", "copy2", "usedcopy", "undercopy"]

/-- enumerable globals the configuration's own scripts created, in creation order -/
def userGlobals : String → List String
  | "under" | "undercopy" => ["_"]
  | "usedcopy" => ["userFn", "userGlobal"]
  | _ => []

def joinKeys (ks : List String) : String := if ks.isEmpty then "-" else ",".intercalate ks

def reply (m s dev : String) : String := m ++ " " ++ s ++ " " ++ dev

def orAbsent : Option String → String
  | some t => t
  | none => "absent"

def slotTok : Option Spec.Slot → String
  | some t => t.tok
  | none => "absent"

def listAll : String :=
  let es := Spec.entries.map (fun (o, p, _) => "entry/" ++ o.path ++ "/" ++ p)
  let os := Spec.owners.flatMap (fun (o, fs) => fs.map (fun (f, _) => "own/" ++ o.path ++ "/" ++ f))
  let fi := Spec.forIn.map (fun (k, _) => "forin/" ++ k)
  let li := Spec.links.map (fun (k, _) => "link/" ++ k)
  let bs := (Spec.flatten Model.bindTable).map (fun (o, p, _) => "bind/" ++ o.path ++ "/" ++ p)
  let ss := Model.selfTable.map (fun (o, _) => "bind/" ++ o.path ++ "/@self")
  let ks := (Spec.flatten Model.kindTable).map (fun (o, p, _) => "objkind/" ++ o.path ++ "/" ++ p)
  let as := Spec.Owner.all.flatMap (fun o => (Spec.aspectsOf o).map (fun a => "kind/" ++ o.path ++ "/" ++ a))
  let be := Spec.behaviours.map (fun (k, _) => "beh/" ++ k)
  let ro := Spec.routes.map (fun (k, _) => "route/" ++ k)
  ",".intercalate (es ++ os ++ fi ++ li ++ bs ++ ss ++ ks ++ as ++ be ++ ro)

def isFnSlot (t : Spec.Slot) : Bool :=
  match t.val with
  | .fn _ => true
  | .ref o => Model.isCtor o
  | _ => false

def dynKind? : String → Option Spec.DynKind
  | "node" => some .node | "newfn" => some .newfn | "bound" => some .bound | _ => none
def dynField? : String → Option Spec.DynField
  | "length" => some .length | "hasproto" => some .hasproto | "protoattr" => some .protoattr | "ctor" => some .ctor
  | "enumown" => some .enumown | "callerdesc" => some .callerdesc | "stackdesc" => some .stackdesc | _ => none

def handleO (ws : List String) : Option String :=
  match ws with
  | ["entry", cfg, o, p] => do
    guard (cfgs.contains cfg)
    let o ← Spec.Owner.ofPath? o
    let s ← Spec.lookup Spec.table o p
    pure (reply (slotTok (Spec.lookup Model.table o p)) s.tok (Model.devEntry o p))
  | ["own", cfg, o, f] => do
    guard (cfgs.contains cfg)
    let o ← Spec.Owner.ofPath? o
    let s ← Spec.lookup Spec.owners o f
    if o = .global ∧ f = "forin" then
      pure (reply (joinKeys (userGlobals cfg)) (joinKeys (userGlobals cfg)) "-")
    else pure (reply (orAbsent (Spec.lookup Model.ownerFacts o f)) s "-")
  | ["extra", cfg, o, p] => do
    guard (cfgs.contains cfg)
    let o ← Spec.Owner.ofPath? o
    guard (Spec.lookup Spec.table o p).isNone
    pure (reply Spec.extraTok Spec.extraTok "-")
  | ["forin", cfg, k] => do
    guard (cfgs.contains cfg)
    let s ← Spec.assoc k Spec.forIn
    pure (reply (orAbsent (Spec.assoc k Model.forIn)) s "-")
  | ["link", cfg, k] => do
    guard (cfgs.contains cfg)
    let s ← Spec.assoc k Spec.links
    pure (reply (orAbsent (Spec.assoc k Model.links)) s "-")
  | ["bind", cfg, o, p] => do
    guard (cfgs.contains cfg)
    let o ← Spec.Owner.ofPath? o
    let s ← (if p = "@self" then Spec.assoc o Model.selfTable else Spec.lookup Model.bindTable o p)
    pure (reply s s "-")
  | ["objkind", cfg, o, p] => do
    guard (cfgs.contains cfg)
    let o ← Spec.Owner.ofPath? o
    let m ← Spec.lookup Model.kindTable o p
    pure (reply m (if p = "@self" then Spec.repOf o else m) "-")
  | ["kind", cfg, o, a] => do
    guard (cfgs.contains cfg)
    let o ← Spec.Owner.ofPath? o
    let sp ← Spec.aspect o a
    pure (reply (orAbsent (Model.aspect o a)) sp (Model.devKind o a))
  | ["beh", cfg, k] => do
    guard (cfgs.contains cfg)
    let sp ← Spec.assoc k Spec.behaviours
    pure (reply (orAbsent (Spec.assoc k Model.behaviours)) sp "-")
  | ["route", cfg, k] => do
    guard (cfgs.contains cfg)
    let sp ← Spec.assoc k Spec.routes
    pure (reply (orAbsent (Spec.assoc k Model.routes)) sp "-")
  | ["static", cfg, "order"] => do guard (cfgs.contains cfg); pure (reply "consistent" "consistent" "-")
  | ["static", cfg, "eval"] => do guard (cfgs.contains cfg); pure (reply "ok" "ok" "-")
  | ["same", a, b] => do guard (cfgs.contains a ∧ cfgs.contains b); pure (reply "equal" "equal" "-")
  | ["probe", cfg, o, p, _js] => do
    guard (cfgs.contains cfg)
    let o ← Spec.Owner.ofPath? o
    let t ← Spec.lookup Model.table o p
    guard (isFnSlot t)
    pure (reply "true" "true" "-")
  | ["noprobe", _, _] => pure (reply "present" "present" "-")
  | ["dynfn", cfg, k, l, n, f] => do
    guard (cfgs.contains cfg)
    let k ← dynKind? k
    let f ← dynField? f
    let l ← l.toNat?
    let n ← n.toNat?
    pure (reply (Model.dyn k l n f) (Spec.dyn k l n f) (Model.devDyn k f))
  | _ => none

def handle (ws : List String) : String :=
  match ws with
  | ["list"] => reply listAll "-" "-"
  | _ => (handleO ws).getD "bad-op"

end OttoVerif.C14.Driver
