/-
  C04/EarlySpec — ES5 early errors for jump statements and labels (§12.7, §12.8, §12.9, §12.12, §12.14).

  §12.12  `L: S` adds L to the label set of S; it is a SyntaxError if a LabelledStatement is enclosed by a
          LabelledStatement with the same Identifier (not crossing function boundaries).  The label set of an
          IterationStatement is the labels immediately in front of it (`pending`).
  §12.7   `continue;` needs an enclosing IterationStatement; `continue L;` needs L in the label set of an enclosing
          ITERATION statement (not crossing function boundaries).
  §12.8   `break;` needs an enclosing IterationStatement or SwitchStatement; `break L;` needs L in the label set of
          an enclosing statement.
  §12.9   `return` only within a FunctionBody.      §12.14  try needs Catch or Finally.
-/
import OttoVerif.C04.EarlyModel
namespace OttoVerif.C04.Spec
open OttoVerif.C04

mutual
def earlyOK : Ctx → List Nat → S → Bool
  | _, _, .expr => true
  | c, _, .brk none => c.inIter || c.inSwitch
  | c, _, .brk (some l) => c.labels.contains l
  | c, _, .cont none => c.inIter
  | c, _, .cont (some l) => c.iterLabels.contains l
  | c, _, .ret => c.inFn
  | c, _, .block b => earlyOKL c b
  | c, _, .if1 t => earlyOK c [] t
  | c, _, .if2 t e => earlyOK c [] t && earlyOK c [] e
  | c, p, .loop _ body => earlyOK (c.loopBody p) [] body
  | c, _, .switch cl => earlyOKL c.switchBody cl
  | c, _, .try_ b ca f =>
    earlyOKL c b && (match ca with | some x => earlyOKL c x | none => true)
      && (match f with | some x => earlyOKL c x | none => true) && (ca.isSome || f.isSome)
  | c, _, .with_ b => earlyOK c [] b
  | c, p, .label l s => !c.labels.contains l && earlyOK (c.push l) (l :: p) s
  | c, _, .fn body => earlyOKL c.fnBody body
def earlyOKL : Ctx → SL → Bool
  | _, .nil => true
  | c, .cons s r => earlyOK c [] s && earlyOKL c r
end

/-- the context invariant: labels of enclosing iteration statements are enclosing labels, and exist only inside a loop;
    pending labels are enclosing labels -/
def Inv (c : Ctx) (p : List Nat) : Prop :=
  (∀ l, l ∈ c.iterLabels → l ∈ c.labels ∧ c.inIter = true) ∧ (∀ l, l ∈ p → l ∈ c.labels)

end OttoVerif.C04.Spec
