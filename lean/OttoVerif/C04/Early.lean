/-
  C04/Early — driver part for the early-error / syntax table requests.
    early <expect> <region|-> <srchex>
  `expect` (accept|reject) is what ES5 demands for the template (the clause is cited next to each template in
  harness/cmd/c04/early.go); for templates inside a listed deviation region the recorded behaviour of otto is the
  opposite answer.  There is no Lean model of the statement parser behind this stream: it is a table.
-/
namespace OttoVerif.C04.Early

def flip : String → String
  | "accept" => "reject"
  | _ => "accept"

def handle (ws : List String) : String :=
  match ws with
  | [expect, region, _src] =>
    if expect = "accept" ∨ expect = "reject" then
      (if region = "-" then expect else flip expect) ++ " " ++ expect ++ " " ++ region
    else "bad-request bad-request -"
  | _ => "bad-request bad-request -"

end OttoVerif.C04.Early
