/-  C04/Early — driver part for the early-error requests (placeholder until the early-error model is built). -/
namespace OttoVerif.C04.Early
def handle (_ws : List String) : String := "bad-op bad-op -"
end OttoVerif.C04.Early
