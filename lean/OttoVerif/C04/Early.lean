/-
  C04/Early — driver part for the early-error requests.
    early2 <stmt-tree>               the Lean model (`accepts`) and specification (`earlyOK`) decide
    early <expect> <region|-> <src>  the residual hand table for syntax that is not in the statement-tree model
                                     (`expect` = what ES5 demands, clause cited in harness/cmd/c04/early.go)
-/
import OttoVerif.C04.EarlySpec
import OttoVerif.C04.Reserved
import OttoVerif.Base.Proto
namespace OttoVerif.C04.Early
open OttoVerif.C04

def flip : String → String
  | "accept" => "reject"
  | _ => "accept"

def handle (ws : List String) : String :=
  match ws with
  | [expect, region, _src] =>
    if expect = "accept" ∨ expect = "reject" then
      (if region = "-" then expect else flip expect) ++ " " ++ expect ++ " " ++ region
    else "bad-request bad-request -"
  | _ => "bad-request bad-request -"

def loopKind? : String → Option LoopKind
  | "while" => some .while_ | "dowhile" => some .doWhile | "for" => some .for_ | "forin" => some .forIn | _ => none

mutual
partial def readS (items : List String) : Option (S × List String) :=
  match items with
  | [] => none
  | h :: r =>
    match h.splitOn "." with
    | ["expr"] => some (.expr, r)
    | ["brk"] => some (.brk none, r)
    | ["brk", l] => l.toNat?.map fun l => (.brk (some l), r)
    | ["cont"] => some (.cont none, r)
    | ["cont", l] => l.toNat?.map fun l => (.cont (some l), r)
    | ["ret"] => some (.ret, r)
    | ["block", n] => do let n ← n.toNat?; let (b, r) ← readSL n r; pure (.block b, r)
    | ["if1"] => do let (t, r) ← readS r; pure (.if1 t, r)
    | ["if2"] => do let (t, r) ← readS r; let (e, r) ← readS r; pure (.if2 t e, r)
    | ["loop", k] => do let k ← loopKind? k; let (b, r) ← readS r; pure (.loop k b, r)
    | ["switch", n] => do let n ← n.toNat?; let (b, r) ← readSL n r; pure (.switch b, r)
    | ["try", nb, nc, nf] => do
      let nb ← nb.toNat?
      let (b, r) ← readSL nb r
      let (c, r) ← (if nc = "x" then some (none, r) else do let n ← nc.toNat?; let (x, r) ← readSL n r; pure (some x, r))
      let (f, r) ← (if nf = "x" then some (none, r) else do let n ← nf.toNat?; let (x, r) ← readSL n r; pure (some x, r))
      pure (.try_ b c f, r)
    | ["with"] => do let (b, r) ← readS r; pure (.with_ b, r)
    | ["label", l] => do let l ← l.toNat?; let (s, r) ← readS r; pure (.label l s, r)
    | ["fn", n] => do let n ← n.toNat?; let (b, r) ← readSL n r; pure (.fn b, r)
    | _ => none
partial def readSL (n : Nat) (items : List String) : Option (SL × List String) :=
  if n = 0 then some (.nil, items) else do
    let (s, r) ← readS items
    let (t, r) ← readSL (n - 1) r
    pure (.cons s t, r)
end

def verdict (b : Bool) : String := if b then "accept" else "reject"

/-- the request is a whole program: a statement list in the empty (global) context -/
def handle2 (ws : List String) : String :=
  match ws with
  | [n, tree] =>
    match n.toNat?.bind fun n => readSL n (tree.splitOn ",") with
    | some (prog, []) =>
      verdict (acceptsL {} prog) ++ " " ++ verdict (Spec.earlyOKL {} prog) ++ " -"
    | _ => "bad-request bad-request -"
  | _ => "bad-request bad-request -"

/-- resv <position> <hex of the spelling>:  position ∈ identifier positions (var fname fexpr param label catch assign forin
    incr) or property-name positions (dot key getter dotassign);  model = does the scanner model give IDENTIFIER for the decoded
    spelling, spec = is the decoded spelling a ReservedWord -/
def handleResv (ws : List String) : String :=
  match ws with
  | [pos, h] =>
    match (OttoVerif.Proto.bytes? (h.drop 1).toString).bind fun bs => String.fromUTF8? (ByteArray.mk (bs.map (·.toUInt8)).toArray) with
    | some sp =>
      match Reserved.decode sp.toList with
      | some cs =>
        let name := String.ofList cs
        let prop := pos = "dot" ∨ pos = "key" ∨ pos = "getter" ∨ pos = "dotassign"
        let escaped := sp.contains '\\'
        let model := prop || decide (Reserved.tokenKindSpelled escaped name = .identifier)
        let spec := prop || !Reserved.isReserved name
        verdict model ++ " " ++ verdict spec ++ " -"
      | none => "bad-escape bad-escape -"
    | none => "bad-request bad-request -"
  | _ => "bad-request bad-request -"

def kindName : Reserved.Kind → String
  | .identifier => "IDENTIFIER" | .keyword s => s | .future => "KEYWORD" | .boolean => "BOOLEAN" | .null => "NULL"

/-- resvtok <hex of the spelling>: the token kind of the real scanner for the spelling vs the model's / the spec's -/
def handleResvTok (ws : List String) : String :=
  match ws with
  | [h] =>
    match (OttoVerif.Proto.bytes? (h.drop 1).toString).bind fun bs => String.fromUTF8? (ByteArray.mk (bs.map (·.toUInt8)).toArray) with
    | some sp =>
      match Reserved.decode sp.toList with
      | some cs =>
        let name := String.ofList cs
        let escaped := sp.contains '\\'
        let model := kindName (Reserved.tokenKindSpelled escaped name)
        let spec := if Reserved.isReserved name ∧ escaped then "KEYWORD"   -- 7.6: reserved, and not the keyword
          else if Reserved.isReserved name then
            (if name = "null" then "NULL" else if name = "true" ∨ name = "false" then "BOOLEAN"
             else if ["class", "const", "enum", "export", "extends", "import", "super"].contains name then "KEYWORD" else name)
          else "IDENTIFIER"
        model ++ " " ++ spec ++ " -"
      | none => "bad-escape bad-escape -"
    | none => "bad-request bad-request -"
  | _ => "bad-request bad-request -"

end OttoVerif.C04.Early
