/-
  C04/Model — transcription of otto's AST span functions and walker.

  * `T` is the shape of an `ast.Node` tree as far as `Idx0/Idx1` (ast/node.go) and `ast.Walk`
    (ast/walk.go) look at it: the node kind, the positional fields the span methods read
    (`a`, `b`, `l`, see `harness/cmd/c03/astx.Raw`) and the Node-valued fields in the order
    `ast.Walk` visits them.  A field holding a nil interface is `absent`; a field of pointer
    type (`*Identifier`, `*CatchStatement`) holding nil is `tnil` — once stored in the `Node`
    interface it is NOT `== nil` (Go typed-nil), which is what `Walk`'s guard tests.
  * `idx0/idx1` return `none` where the Go method panics (index out of range, nil dereference).
  * `walk` is `ast.Walk` with a visitor that always descends.
-/
namespace OttoVerif.C04

inductive Kind where
  | ArrayLiteral | AssignExpression | BadExpression | BinaryExpression | BooleanLiteral | BracketExpression
  | CallExpression | ConditionalExpression | DotExpression | EmptyExpression | FunctionLiteral | Identifier
  | NewExpression | NullLiteral | NumberLiteral | ObjectLiteral | RegExpLiteral | SequenceExpression
  | StringLiteral | ThisExpression | UnaryExpression | VariableExpression
  | BadStatement | BlockStatement | BranchStatement | CaseStatement | CatchStatement | DebuggerStatement
  | DoWhileStatement | EmptyStatement | ExpressionStatement | ForInStatement | ForStatement | FunctionStatement
  | IfStatement | LabelledStatement | ReturnStatement | SwitchStatement | ThrowStatement | TryStatement
  | VariableStatement | WhileStatement | WithStatement | Program
deriving DecidableEq, Repr, Inhabited

mutual
inductive T where
  | absent
  | tnil
  | node (k : Kind) (a b l : Int) (kids : TS)
inductive TS where
  | nil
  | cons (t : T) (ts : TS)
end

def TS.length : TS → Nat
  | .nil => 0
  | .cons _ ts => ts.length + 1

def TS.head : TS → T
  | .nil => .absent
  | .cons t _ => t

def TS.get : TS → Nat → T
  | .nil, _ => .absent
  | .cons t _, 0 => t
  | .cons _ ts, n+1 => ts.get n

def TS.last : TS → T
  | .nil => .absent
  | .cons t .nil => t
  | .cons _ ts => ts.last

def T.isAbsent : T → Bool
  | .absent => true
  | _ => false

def T.isTnil : T → Bool
  | .tnil => true
  | _ => false

/-- ast/node.go: every `Idx0` method (none = the method panics). -/
def idx0 : T → Option Int
  | .absent => none
  | .tnil => none
  | .node k a _ l kids =>
    match k with
    | .AssignExpression | .BinaryExpression | .BracketExpression | .CallExpression | .ConditionalExpression
    | .DotExpression | .ExpressionStatement | .FunctionStatement | .LabelledStatement | .SequenceExpression =>
      -- node.go: first child's Idx0 (index panic on an empty list)
      match kids with
      | .nil => none
      | .cons t _ => idx0 t
    | .Program =>                                           -- Program.Idx0: an empty program starts at its file's base (`a`)
      match kids with
      | .nil => some a
      | .cons t _ => idx0 t
    | .UnaryExpression =>                                   -- node.go:452
      if l = 1 then (match kids with | .nil => none | .cons t _ => idx0 t) else some a
    | _ => some a                                           -- own first token

/-- Idx1 of the last child (node.go `x[len(x)-1].Idx1()` / the last Node field). -/
def lastIdx1 (f : T → Option Int) : TS → Option Int
  | .nil => none
  | .cons t .nil => f t
  | .cons _ ts => lastIdx1 f ts

mutual
/-- ast/node.go: every `Idx1` method (none = the method panics). -/
def idx1 : T → Option Int
  | .absent => none
  | .tnil => none
  | .node k a b l kids =>
    match k with
    | .BooleanLiteral | .Identifier | .NumberLiteral | .RegExpLiteral | .StringLiteral => some (a + l)   -- :118,:260,:324,:380,:418
    | .NullLiteral | .ThisExpression => some (a + 4)                                                      -- :304,:436
    | .DebuggerStatement => some (a + 8)                                                                  -- :612
    | .EmptyStatement => some (a + 1)                                                                     -- :651
    | .ArrayLiteral | .BracketExpression | .CallExpression | .ObjectLiteral | .BlockStatement
    | .DoWhileStatement | .SwitchStatement => some (b + 1)                                                -- :38,:139,:160,:344,:531,:633,:817
    | .BadExpression | .BadStatement | .EmptyExpression => some b                                         -- :77,:511,:218
    | .NewExpression => if b > 0 then some (b + 1) else idx1Head kids                                     -- :282
    | .UnaryExpression => if l = 1 then (idx1Head kids).map (· + 2) else idx1Head kids                    -- :460
    | .VariableExpression => if kids.head.isAbsent then some (a + l) else idx1Head kids                   -- :483
    | .BranchStatement => if kids.head.isTnil then some (a + l) else idx1Head kids                        -- :551
    | .CaseStatement =>                                                                                   -- CaseStatement.Idx1
      if kids.length ≥ 2 then idx1Last kids else if kids.head.isAbsent then some (a + 7) else idx1Head kids
    | .IfStatement => if (kids.get 2).isAbsent then idx1Nth kids 1 else idx1Nth kids 2                    -- :751
    | .ReturnStatement => if kids.head.isAbsent then some (a + 6) else idx1Head kids                      -- :793
    | .TryStatement => if (kids.get 2).isAbsent then idx1Nth kids 1 else idx1Nth kids 2                   -- :860
    | .Program => (match kids with | .nil => some a | _ => idx1Last kids)                                 -- Program.Idx1
    | _ => idx1Last kids   -- Assign, Binary, Conditional, Dot, FunctionLiteral(Body), Sequence, ExpressionStatement,
                           -- FunctionStatement, Catch, ForIn, For, Labelled, Throw, VariableStatement, While, With, Program
def idx1Head : TS → Option Int
  | .nil => none
  | .cons t _ => idx1 t
def idx1Nth : TS → Nat → Option Int
  | .nil, _ => none
  | .cons t _, 0 => idx1 t
  | .cons _ ts, n+1 => idx1Nth ts n
def idx1Last : TS → Option Int
  | .nil => none
  | .cons t .nil => idx1 t
  | .cons _ (.cons u us) => idx1Last (.cons u us)
end

/-- Events of `ast.Walk` (ast/walk.go:19-220) with a visitor that always returns itself.
    `none` = the visitor was handed a nil node. -/
inductive Ev where
  | enter (k : Option Kind)
  | exit (k : Option Kind)
deriving DecidableEq, Repr

mutual
def walk : T → List Ev
  | .absent => []                                   -- walk.go:20 `if n == nil { return }`
  | .tnil => []                                     -- the three pointer fields are tested before the call (walk.go: n.Label, n.Name, n.Catch)
  | .node k _ _ _ kids => .enter (some k) :: (walkList kids ++ [.exit (some k)])
def walkList : TS → List Ev
  | .nil => []
  | .cons t ts => walk t ++ walkList ts
end

end OttoVerif.C04
