/-
  C04/Theorems — the ledger for property C04.  Every `theorem` here is audited.
-/
import OttoVerif.C04.Spec
namespace OttoVerif.C04.Thm
open OttoVerif.C04 OttoVerif.C04.Spec

/-! ### The walker (ast/walk.go) -/

theorem nonNilEnters_append (xs ys : List Ev) : nonNilEnters (xs ++ ys) = nonNilEnters xs ++ nonNilEnters ys := by
  induction xs with
  | nil => rfl
  | cons x xs ih =>
    cases x with
    | enter k => cases k <;> simp [nonNilEnters, ih]
    | exit k => simp [nonNilEnters, ih]

theorem nilEnters_append (xs ys : List Ev) : nilEnters (xs ++ ys) = nilEnters xs + nilEnters ys := by
  induction xs with
  | nil => simp [nilEnters]
  | cons x xs ih =>
    cases x with
    | enter k => cases k <;> simp [nilEnters, ih] <;> omega
    | exit k => simp [nilEnters, ih]

mutual
/-- `ast.Walk` enters every non-nil node exactly once, in depth-first pre-order — for EVERY tree shape. -/
theorem walk_once : ∀ t : T, nonNilEnters (walk t) = nodes t
  | .absent => rfl
  | .tnil => rfl
  | .node k a b l kids => by
    simp only [walk, nodes, nonNilEnters, nonNilEnters_append, walkList_once kids]
    simp [nonNilEnters]
theorem walkList_once : ∀ ts : TS, nonNilEnters (walkList ts) = nodesList ts
  | .nil => rfl
  | .cons t ts => by
    simp only [walkList, nodesList, nonNilEnters_append, walk_once t, walkList_once ts]
end

mutual
/-- The visitor is handed a nil node exactly once per typed-nil pointer field: the deviation region
    `walk_typed_nil` (`tnilCount t > 0`) is exact. -/
theorem walk_nil_count : ∀ t : T, nilEnters (walk t) = tnilCount t
  | .absent => rfl
  | .tnil => rfl
  | .node k a b l kids => by
    simp only [walk, tnilCount, nilEnters, nilEnters_append, walkList_nil_count kids]
    simp [nilEnters]
theorem walkList_nil_count : ∀ ts : TS, nilEnters (walkList ts) = tnilCountList ts
  | .nil => rfl
  | .cons t ts => by
    simp only [walkList, tnilCountList, nilEnters_append, walk_nil_count t, walkList_nil_count ts]
end

/-- Outside the deviation region the walker never hands a nil node to the visitor. -/
theorem walk_never_nil (t : T) (h : tnilCount t = 0) : nilEnters (walk t) = 0 := by
  rw [walk_nil_count, h]

mutual
/-- Enter/Exit events are properly bracketed (continuation form: walking `t` leaves the stack as it found it). -/
theorem walk_balanced : ∀ (t : T) (rest : List Ev) (st : List (Option Kind)),
    balanced (walk t ++ rest) st = balanced rest st
  | .absent, _, _ => rfl
  | .tnil, rest, st => by simp [walk, balanced]
  | .node k a b l kids, rest, st => by
    simp only [walk, List.cons_append, List.append_assoc, balanced]
    rw [walkList_balanced kids]
    simp [balanced]
theorem walkList_balanced : ∀ (ts : TS) (rest : List Ev) (st : List (Option Kind)),
    balanced (walkList ts ++ rest) st = balanced rest st
  | .nil, _, _ => rfl
  | .cons t ts, rest, st => by
    simp only [walkList, List.append_assoc]
    rw [walk_balanced t, walkList_balanced ts]
end

theorem walk_balanced_top (t : T) : balanced (walk t) [] = true := by
  have := walk_balanced t [] []
  simpa [balanced] using this

/-- Kernel-checked witnesses of the deviation regions (the real trees of `break;`, `for(;;);`, `switch(x){case 1:}`, ``). -/
def wBreak : T := .node .BranchStatement 1 0 5 (.cons .tnil .nil)
example : nilEnters (walk wBreak) ≠ 0 := by decide
def wEmptySeq : T := .node .SequenceExpression 0 0 0 .nil
example : idx0 wEmptySeq = none := by decide
def wEmptyCase : T := .node .CaseStatement 11 0 0 (.cons (.node .NumberLiteral 16 0 1 .nil) .nil)
example : idx1 wEmptyCase = none := by decide
def wEmptyProg : T := .node .Program 0 0 0 .nil
example : idx0 wEmptyProg = none ∧ idx1 wEmptyProg = none := by decide
/-- non-vacuity: a tree without typed nils whose walk is nil-free and complete -/
example : tnilCount (.node .ExpressionStatement 0 0 0 (.cons (.node .Identifier 1 0 1 .nil) .nil)) = 0 := by decide

end OttoVerif.C04.Thm
