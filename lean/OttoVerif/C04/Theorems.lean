/-  C04/Theorems — the ledger for property C04 (every theorem here is audited).  Placeholder. -/
namespace OttoVerif.C04.Thm
end OttoVerif.C04.Thm
