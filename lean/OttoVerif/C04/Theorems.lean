/-
  C04/Theorems — the ledger for property C04.  Every `theorem` here is audited.
-/
import OttoVerif.C04.Spec
import OttoVerif.C04.EarlySpec
import OttoVerif.C04.Reserved
import OttoVerif.C04.Positions
import OttoVerif.C03.Theorems
namespace OttoVerif.C04.Thm
open OttoVerif.C04 OttoVerif.C04.Spec

/-! ### The walker (ast/walk.go) -/

theorem nonNilEnters_append (xs ys : List Ev) : nonNilEnters (xs ++ ys) = nonNilEnters xs ++ nonNilEnters ys := by
  induction xs with
  | nil => rfl
  | cons x xs ih =>
    cases x with
    | enter k => cases k <;> simp [nonNilEnters, ih]
    | exit k => simp [nonNilEnters, ih]

theorem nilEnters_append (xs ys : List Ev) : nilEnters (xs ++ ys) = nilEnters xs + nilEnters ys := by
  induction xs with
  | nil => simp [nilEnters]
  | cons x xs ih =>
    cases x with
    | enter k => cases k <;> simp [nilEnters, ih] <;> omega
    | exit k => simp [nilEnters, ih]

mutual
/-- `ast.Walk` enters every non-nil node exactly once, in depth-first pre-order — for EVERY tree shape. -/
theorem walk_once : ∀ t : T, nonNilEnters (walk t) = nodes t
  | .absent => rfl
  | .tnil => rfl
  | .node k a b l kids => by
    simp only [walk, nodes, nonNilEnters, nonNilEnters_append, walkList_once kids]
    simp [nonNilEnters]
theorem walkList_once : ∀ ts : TS, nonNilEnters (walkList ts) = nodesList ts
  | .nil => rfl
  | .cons t ts => by
    simp only [walkList, nodesList, nonNilEnters_append, walk_once t, walkList_once ts]
end

mutual
/-- The visitor is NEVER handed a nil node — for every tree shape, typed-nil pointer fields included. -/
theorem walk_never_nil : ∀ t : T, nilEnters (walk t) = 0
  | .absent => rfl
  | .tnil => rfl
  | .node k a b l kids => by
    simp only [walk, nilEnters, nilEnters_append, walkList_never_nil kids]
theorem walkList_never_nil : ∀ ts : TS, nilEnters (walkList ts) = 0
  | .nil => rfl
  | .cons t ts => by
    simp only [walkList, nilEnters_append, walk_never_nil t, walkList_never_nil ts]
end

mutual
/-- Enter/Exit events are properly bracketed (continuation form: walking `t` leaves the stack as it found it). -/
theorem walk_balanced : ∀ (t : T) (rest : List Ev) (st : List (Option Kind)),
    balanced (walk t ++ rest) st = balanced rest st
  | .absent, _, _ => rfl
  | .tnil, rest, st => by simp [walk, balanced]
  | .node k a b l kids, rest, st => by
    simp only [walk, List.cons_append, List.append_assoc, balanced]
    rw [walkList_balanced kids]
    simp [balanced]
theorem walkList_balanced : ∀ (ts : TS) (rest : List Ev) (st : List (Option Kind)),
    balanced (walkList ts ++ rest) st = balanced rest st
  | .nil, _, _ => rfl
  | .cons t ts, rest, st => by
    simp only [walkList, List.append_assoc]
    rw [walk_balanced t, walkList_balanced ts]
end

theorem walk_balanced_top (t : T) : balanced (walk t) [] = true := by
  have := walk_balanced t [] []
  simpa [balanced] using this

/-- the former deviation witnesses (the real trees of `break;`, `switch(x){case 1:}`, the empty program) are well-behaved -/
example : nilEnters (walk (.node .BranchStatement 1 0 5 (.cons .tnil .nil))) = 0 := by decide
example : idx1 (.node .CaseStatement 11 0 0 (.cons (.node .NumberLiteral 16 0 1 .nil) .nil)) = some 17 := by decide
example : idx0 (.node .Program 1 0 0 .nil) = some 1 ∧ idx1 (.node .Program 1 0 0 .nil) = some 1 := by decide

/-! ### spans (ast/node.go Idx0/Idx1) -/

mutual
/-- SPANS NESTED (transitive form): if every parent/child pair is nested (`nestedAll`), then EVERY descendant's span lies
    within the span of the node — by induction over all trees. -/
theorem spans_within : ∀ (t : T) (p0 p1 : Int), nestedAll t = true → idx0 t = some p0 → idx1 t = some p1 →
    ∀ s ∈ spans t, p0 ≤ s.1 ∧ s.2 ≤ p1 ∧ s.1 ≤ s.2
  | .absent, _, _, _, _, _ => by intro s hs; simp [spans] at hs
  | .tnil, _, _, _, _, _ => by intro s hs; simp [spans] at hs
  | .node k a b l kids, p0, p1, hn, h0, h1 => by
    intro s hs
    simp only [nestedAll, h0, h1, Bool.and_eq_true, decide_eq_true_eq] at hn
    simp only [spans, h0, h1, List.mem_append, List.mem_singleton] at hs
    rcases hs with hs | hs
    · subst hs; exact ⟨Int.le_refl _, Int.le_refl _, hn.1⟩
    · exact spansL_within kids p0 p1 hn.2 s hs
theorem spansL_within : ∀ (ts : TS) (p0 p1 : Int), kidsWithin p0 p1 ts = true →
    ∀ s ∈ spansL ts, p0 ≤ s.1 ∧ s.2 ≤ p1 ∧ s.1 ≤ s.2
  | .nil, _, _, _ => by intro s hs; simp [spansL] at hs
  | .cons .absent ts, p0, p1, h => by
    intro s hs
    simp only [kidsWithin] at h
    simp only [spansL, spans, List.nil_append] at hs
    exact spansL_within ts p0 p1 h s hs
  | .cons .tnil ts, p0, p1, h => by
    intro s hs
    simp only [kidsWithin] at h
    simp only [spansL, spans, List.nil_append] at hs
    exact spansL_within ts p0 p1 h s hs
  | .cons (.node k a b l kids) ts, p0, p1, h => by
    intro s hs
    simp only [kidsWithin, Bool.and_eq_true] at h
    obtain ⟨⟨hw, hn⟩, hr⟩ := h
    simp only [spansL, List.mem_append] at hs
    rcases hs with hs | hs
    · cases h0 : idx0 (.node k a b l kids) with
      | none => simp [h0] at hw
      | some c0 =>
        cases h1 : idx1 (.node k a b l kids) with
        | none => simp [h0, h1] at hw
        | some c1 =>
          simp only [h0, h1, decide_eq_true_eq] at hw
          have := spans_within (.node k a b l kids) c0 c1 hn h0 h1 s hs
          omega
    · exact spansL_within ts p0 p1 hr s hs
end

/-- … hence if the root span lies inside the file, every node's span does -/
theorem spans_in_file (t : T) (p0 p1 len : Int) (hn : nestedAll t = true) (h0 : idx0 t = some p0) (h1 : idx1 t = some p1)
    (hlo : 1 ≤ p0) (hhi : p1 ≤ len + 1) : ∀ s ∈ spans t, 1 ≤ s.1 ∧ s.1 ≤ s.2 ∧ s.2 ≤ len + 1 := by
  intro s hs
  have := spans_within t p0 p1 hn h0 h1 s hs
  omega


theorem chain_bounds : ∀ (r : List (Int × Int)) (x y : Int), x ≤ y → chainFrom y r = true →
    y ≤ lastSnd y r ∧ ∀ s ∈ r, x ≤ s.1 ∧ s.2 ≤ lastSnd y r
  | [], x, y, _, _ => ⟨Int.le_refl _, by simp⟩
  | (x', y') :: r, x, y, hxy, hc => by
    simp only [chainFrom, Bool.and_eq_true, decide_eq_true_eq] at hc
    have ih := chain_bounds r x' y' hc.1.2 hc.2
    simp only [lastSnd]
    refine ⟨by omega, fun s hs => ?_⟩
    simp only [List.mem_cons] at hs
    rcases hs with hs | hs
    · subst hs; simp only; omega
    · have := ih.2 s hs; omega

theorem idx1Last_kidSpans : ∀ (ts : TS) (t : T) (x y : Int) (r : List (Int × Int)),
    kidSpans (.cons t ts) = some ((x, y) :: r) → idx1Last (.cons t ts) = some (lastSnd y r)
  | .nil, t, x, y, r, h => by
    simp only [kidSpans] at h
    cases h0 : idx0 t <;> cases h1 : idx1 t <;> simp [h0, h1] at h
    obtain ⟨⟨_, rfl⟩, rfl⟩ := h
    simp [idx1Last, lastSnd, h1]
  | .cons u us, t, x, y, r, h => by
    simp only [kidSpans] at h
    cases h0 : idx0 t <;> cases h1 : idx1 t <;> simp [h0, h1] at h
    cases hk : kidSpans (.cons u us) with
    | none => simp [kidSpans] at hk; simp [hk] at h
    | some r' =>
      have hk' := hk
      simp only [kidSpans] at hk'
      rw [hk'] at h
      simp at h
      obtain ⟨⟨rfl, rfl⟩, rfl⟩ := h
      cases r' with
      | nil =>
        simp only [kidSpans] at hk
        cases g0 : idx0 u <;> cases g1 : idx1 u <;> cases g2 : kidSpans us <;> simp [g0, g1, g2] at hk
      | cons p r'' =>
        obtain ⟨x', y'⟩ := p
        rw [idx1Last]
        simp only [lastSnd]
        exact idx1Last_kidSpans us u x' y' r'' hk

/-- SPANS NESTED (derived spans): for the node kinds whose span is computed from their children, if the children all have
    spans and stand in source order, then the node's span is exactly [first child's Idx0, last child's Idx1) and every
    child's span lies within it. -/
theorem derived_nested (k : Kind) (hk : isDerived k = true) (a b l : Int) (t : T) (ts : TS) (x y : Int) (r : List (Int × Int))
    (hks : kidSpans (.cons t ts) = some ((x, y) :: r)) (hxy : x ≤ y) (hc : chainFrom y r = true) :
    idx0 (.node k a b l (.cons t ts)) = some x ∧ idx1 (.node k a b l (.cons t ts)) = some (lastSnd y r) ∧
      ∀ s ∈ (x, y) :: r, x ≤ s.1 ∧ s.2 ≤ lastSnd y r := by
  have hl := idx1Last_kidSpans ts t x y r hks
  have h0 : idx0 t = some x := by
    simp only [kidSpans] at hks
    cases h0 : idx0 t <;> cases h1 : idx1 t <;> cases h2 : kidSpans ts <;> simp [h0, h1, h2] at hks
    exact congrArg some hks.1.1
  have cb := chain_bounds r x y hxy hc
  refine ⟨?_, ?_, fun s hs => ?_⟩
  · cases k <;> simp [isDerived] at hk <;> simp [idx0, h0]
  · cases k <;> simp [isDerived] at hk <;> (simp only [idx1]; exact hl)
  · simp only [List.mem_cons] at hs
    rcases hs with hs | hs
    · subst hs; exact ⟨Int.le_refl _, cb.1⟩
    · exact cb.2 s hs


/-! ### early errors (jump statements, labels, return, try) -/

theorem inv_drop {c : Ctx} {p : List Nat} (h : Inv c p) : Inv c [] := ⟨h.1, by simp⟩

theorem inv_loop {c : Ctx} {p : List Nat} (h : Inv c p) : Inv (c.loopBody p) [] := by
  refine ⟨fun l hl => ?_, by simp⟩
  simp only [Ctx.loopBody, List.mem_append] at hl ⊢
  rcases hl with hl | hl
  · exact ⟨h.2 l hl, trivial⟩
  · exact ⟨(h.1 l hl).1, trivial⟩

theorem inv_switch {c : Ctx} {p : List Nat} (h : Inv c p) : Inv c.switchBody [] := ⟨h.1, by simp⟩

theorem inv_fn (c : Ctx) : Inv c.fnBody [] := ⟨by simp [Ctx.fnBody], by simp⟩

theorem inv_push {c : Ctx} {p : List Nat} (h : Inv c p) (l : Nat) : Inv (c.push l) (l :: p) := by
  refine ⟨fun l' hl => ?_, fun l' hl => ?_⟩
  · simp only [Ctx.push] at hl ⊢
    exact ⟨List.mem_cons_of_mem _ (h.1 l' hl).1, (h.1 l' hl).2⟩
  · simp only [Ctx.push, List.mem_cons] at hl ⊢
    rcases hl with hl | hl
    · exact Or.inl hl
    · exact Or.inr (h.2 l' hl)

mutual
/-- EARLY ERRORS: otto's parse-time checks accept a statement tree exactly when ES5 §12.7–12.9, §12.12, §12.14 make it
    legal — for every tree and every context that can arise (invariant `Inv`).  No deviation region is left. -/
theorem early_eq : ∀ (s : S) (c : Ctx) (p : List Nat), Inv c p → accepts c p s = earlyOK c p s
  | .expr, _, _, _ => rfl
  | .brk none, _, _, _ => rfl
  | .brk (some _), _, _, _ => rfl
  | .cont none, _, _, _ => rfl
  | .cont (some l), c, p, hi => by
    simp only [accepts, earlyOK]
    cases hil : c.iterLabels.contains l
    · simp
    · have := hi.1 l (by simpa using hil)
      simp [this.1, this.2]
  | .ret, _, _, _ => rfl
  | .block b, c, p, hi => by
    simp only [accepts, earlyOK]; exact earlyL_eq b c (inv_drop hi)
  | .if1 t, c, p, hi => by
    simp only [accepts, earlyOK]; exact early_eq t c [] (inv_drop hi)
  | .if2 t e, c, p, hi => by
    simp only [accepts, earlyOK]; rw [early_eq t c [] (inv_drop hi), early_eq e c [] (inv_drop hi)]
  | .loop k body, c, p, hi => by
    simp only [accepts, earlyOK]; exact early_eq body _ [] (inv_loop hi)
  | .switch cl, c, p, hi => by
    simp only [accepts, earlyOK]; exact earlyL_eq cl _ (inv_switch hi)
  | .try_ b none none, c, p, hi => by
    simp only [accepts, earlyOK]; simp
  | .try_ b none (some y), c, p, hi => by
    simp only [accepts, earlyOK]; rw [earlyL_eq b c (inv_drop hi), earlyL_eq y c (inv_drop hi)]
  | .try_ b (some x) none, c, p, hi => by
    simp only [accepts, earlyOK]; rw [earlyL_eq b c (inv_drop hi), earlyL_eq x c (inv_drop hi)]
  | .try_ b (some x) (some y), c, p, hi => by
    simp only [accepts, earlyOK]
    rw [earlyL_eq b c (inv_drop hi), earlyL_eq x c (inv_drop hi), earlyL_eq y c (inv_drop hi)]
  | .with_ b, c, p, hi => by
    simp only [accepts, earlyOK]; exact early_eq b c [] (inv_drop hi)
  | .label l s, c, p, hi => by
    simp only [accepts, earlyOK]; rw [early_eq s _ _ (inv_push hi l)]
  | .fn body, c, p, hi => by
    simp only [accepts, earlyOK]; exact earlyL_eq body _ (inv_fn c)
theorem earlyL_eq : ∀ (sl : SL) (c : Ctx), Inv c [] → acceptsL c sl = earlyOKL c sl
  | .nil, _, _ => rfl
  | .cons s r, c, hi => by
    simp only [acceptsL, earlyOKL]; rw [early_eq s c [] hi, earlyL_eq r c hi]
end

/-- whatever the parser accepts satisfies the ES5 early-error rules, for a whole program (empty initial context) -/
theorem early_errors (prog : SL) (h : acceptsL {} prog = true) : earlyOKL {} prog = true := by
  rw [← earlyL_eq prog {} ⟨by simp, by simp⟩]; exact h

/-- and conversely: nothing legal is rejected by these checks -/
theorem early_complete (prog : SL) (h : earlyOKL {} prog = true) : acceptsL {} prog = true := by
  rw [earlyL_eq prog {} ⟨by simp, by simp⟩]; exact h

/-- the former deviation `a: { while (1) { continue a; } }` is rejected; label sets: `a: b: for(;;) { continue a; }` is legal -/
example : acceptsL {} (.cons (.label 0 (.block (.cons (.loop .while_ (.block (.cons (.cont (some 0)) .nil))) .nil))) .nil) = false := by decide
example : acceptsL {} (.cons (.label 0 (.label 1 (.loop .for_ (.block (.cons (.cont (some 0)) (.cons (.cont (some 1)) .nil)))))) .nil) = true := by decide
example : acceptsL {} (.cons (.label 0 (.switch (.cons (.cont (some 0)) .nil))) .nil) = false := by decide

/-! ### reserved words -/

section
open OttoVerif.C04.Reserved
/-- RESERVED WORDS: for EVERY decoded spelling, the scanner model produces the token IDENTIFIER exactly when the spelling is
    not an ES5 ReservedWord — so every identifier position rejects exactly the reserved words, however they are written
    (the decision is made on `decode spelling`, never on the raw text). -/
theorem reserved_by_decoded (name : String) : (tokenKind name = .identifier) ↔ isReserved name = false := by
  by_cases h : name ∈ reservedWords
  · have hr : isReserved name = true := by simpa [isReserved] using h
    simp only [hr]
    simp only [reservedWords, List.mem_cons, List.mem_nil_iff, or_false] at h
    rcases h with h|h|h|h|h|h|h|h|h|h|h|h|h|h|h|h|h|h|h|h|h|h|h|h|h|h|h|h|h|h|h|h|h|h|h|h <;> subst h <;> decide
  · have hr : isReserved name = false := by simpa [isReserved] using h
    simp only [hr, iff_true]
    simp only [reservedWords, List.mem_cons, List.mem_nil_iff, or_false, not_or] at h
    unfold tokenKind
    split
    · simp [table, lookup, h]
      repeat' split
      all_goals rfl
    · rfl

/-- the same for escaped spellings: a reserved word never yields IDENTIFIER, whatever the spelling -/
theorem reserved_by_decoded_spelled (escaped : Bool) (name : String) :
    (tokenKindSpelled escaped name = .identifier) ↔ isReserved name = false := by
  unfold tokenKindSpelled
  by_cases h : tokenKind name = .identifier
  · simp [h, (reserved_by_decoded name).mp h]
  · have hr : ¬ isReserved name = false := fun hf => h ((reserved_by_decoded name).mpr hf)
    cases escaped <;> simp [h, hr]

/-- the escaped spellings of the seeded examples decode to reserved words -/
example : (decode "\\u0069f".toList).map String.ofList = some "if" ∧ (decode "v\\u0061r".toList).map String.ofList = some "var"
    ∧ isReserved "if" = true ∧ tokenKind "if" = .keyword "if" ∧ tokenKind "let" = .identifier := by decide
end


/-! ### operand positions (C04/Positions.lean) -/

/-- the specification side's decision is sound by construction: a token string it accepts at a position of level `lvl`
    IS the unparse of a well-formed expression tree at that level (the witness is the tree the parser model returned) -/
theorem inLang_sound (lvl : Nat) (ai : Bool) (ts : List OttoVerif.C03.Tok) (h : Pos.inLang lvl ai ts = true) :
    ∃ t, OttoVerif.C03.Spec.wf t = true ∧ OttoVerif.C03.Spec.isExprHead t = true ∧
      Pos.eraseNl ts = OttoVerif.C03.Spec.pr lvl ai t ++ [Pos.eofTok] := by
  unfold Pos.inLang at h
  split at h
  · rename_i t r _
    simp only [Bool.and_eq_true, beq_iff_eq] at h
    exact ⟨t, h.1.1.2, h.1.2, h.2⟩
  · simp at h

/-- … and complete through C03's round trip: a token string on which the parser model fails for every amount of fuel is
    not the unparse of any well-formed expression (so "reject" is what the grammar says) -/
theorem reject_outside_grammar (ts : List OttoVerif.C03.Tok)
    (hrej : ∀ n, OttoVerif.C03.parseExpression n true ts = none) :
    ¬ ∃ e, OttoVerif.C03.Spec.wf e = true ∧ OttoVerif.C03.Spec.isExprHead e = true ∧
        ts = OttoVerif.C03.Spec.print e ++ [OttoVerif.C03.Thm.eofTok] := by
  rintro ⟨e, hw, he, rfl⟩
  obtain ⟨n0, h⟩ := OttoVerif.C03.Thm.parse_print e hw he
  have := h n0 (Nat.le_refl _)
  rw [hrej n0] at this
  exact absurd this (by simp)

/-- `b ? c , d : e` is rejected at an Expression position by model and specification (11.12: the operand between `?` and
    `:` is an AssignmentExpression), `b ? c : d , e` is accepted; `b , c` is two array elements but no property value -/
example :
    let i := fun (s : String) => ({ k := .id s } : OttoVerif.C03.Tok)
    let p := fun (x : OttoVerif.C03.P) => ({ k := .p x } : OttoVerif.C03.Tok)
    Pos.model "expr" [i "b", p .quest, i "c", p .comma, i "d", p .colon, i "e", Pos.eofTok] = some false
    ∧ Pos.spec "expr" [i "b", p .quest, i "c", p .comma, i "d", p .colon, i "e", Pos.eofTok] = some false
    ∧ Pos.model "expr" [i "b", p .quest, i "c", p .colon, i "d", p .comma, i "e", Pos.eofTok] = some true
    ∧ Pos.spec "expr" [i "b", p .quest, i "c", p .colon, i "d", p .comma, i "e", Pos.eofTok] = some true
    ∧ Pos.spec "elems" [i "b", p .comma, i "c", Pos.eofTok] = some true
    ∧ Pos.model "props" [i "b", p .comma, i "c", Pos.eofTok] = some false
    ∧ Pos.spec "props" [i "b", p .comma, i "c", Pos.eofTok] = some false := by decide +kernel

end OttoVerif.C04.Thm
