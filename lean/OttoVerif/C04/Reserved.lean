/-
  C04/Reserved — reserved words and identifiers written with unicode escapes.

  Model: parser/lexer.go `scan`, identifier arm (179-223): `scanIdentifier` returns the DECODED spelling (a `\uXXXX` escape
  contributes its character, lexer.go:105-145), then — for spellings longer than one character — `token.IsKeyword` looks the
  decoded spelling up in `keywordTable` (token/token_const.go:204-351): keywords get their own token, future reserved words
  the token KEYWORD unless they are reserved in strict mode only, `true/false` BOOLEAN, `null` NULL, everything else
  IDENTIFIER.  Every identifier position of the grammar (`var`, function name, parameter, label, catch parameter,
  assignment target) demands the token IDENTIFIER; property-name positions (`o.name`, `{name: …}`) take any of them.

  Spec: ES5 §7.6: an Identifier is an IdentifierName that is not a ReservedWord (§7.6.1: Keyword, FutureReservedWord,
  NullLiteral, BooleanLiteral), and escapes "contribute a single character to the IdentifierName" — the test is on the
  decoded characters, whatever the spelling.
-/
namespace OttoVerif.C04.Reserved

inductive Kind where
  | identifier | keyword (s : String) | future | boolean | null
deriving DecidableEq, Repr

/-- token/token_const.go keywordTable, in ES5 §7.6.1 order, + the two literal arms of lexer.go:193-199 -/
def table : List (String × Kind) :=
  [ ("break", .keyword "break"), ("case", .keyword "case"), ("catch", .keyword "catch"), ("continue", .keyword "continue"),
    ("debugger", .keyword "debugger"), ("default", .keyword "default"), ("delete", .keyword "delete"), ("do", .keyword "do"),
    ("else", .keyword "else"), ("finally", .keyword "finally"), ("for", .keyword "for"), ("function", .keyword "function"),
    ("if", .keyword "if"), ("in", .keyword "in"), ("instanceof", .keyword "instanceof"), ("new", .keyword "new"),
    ("return", .keyword "return"), ("switch", .keyword "switch"), ("this", .keyword "this"), ("throw", .keyword "throw"),
    ("try", .keyword "try"), ("typeof", .keyword "typeof"), ("var", .keyword "var"), ("void", .keyword "void"),
    ("while", .keyword "while"), ("with", .keyword "with"),
    ("class", .future), ("const", .future), ("enum", .future), ("export", .future), ("extends", .future), ("import", .future),
    ("super", .future),
    ("null", .null), ("true", .boolean), ("false", .boolean),
    -- reserved in strict mode only: IsKeyword reports strict = true and scan falls through to IDENTIFIER (lexer.go:202-205)
    ("implements", .identifier), ("interface", .identifier), ("let", .identifier), ("package", .identifier),
    ("private", .identifier), ("protected", .identifier), ("public", .identifier), ("static", .identifier) ]

def lookup : List (String × Kind) → String → Kind
  | [], _ => .identifier
  | (k, v) :: r, s => if s = k then v else lookup r s

/-- model: the token the scanner produces for the decoded spelling (single characters are never looked up) -/
def tokenKind (name : String) : Kind := if name.length > 1 then lookup table name else .identifier

/-- … and for a spelling that contains an escape: a reserved word is then the token KEYWORD ("reserved, but not the keyword";
    lexer.go, identifier arm) -/
def tokenKindSpelled (escaped : Bool) (name : String) : Kind :=
  if escaped && decide (tokenKind name ≠ .identifier) then .future else tokenKind name

/-- ES5 §7.6.1.1 Keywords, §7.6.1.2 FutureReservedWords (non-strict code), §7.8.1-2 literals -/
def reservedWords : List String :=
  [ "break", "case", "catch", "continue", "debugger", "default", "delete", "do", "else", "finally", "for", "function", "if", "in",
    "instanceof", "new", "return", "switch", "this", "throw", "try", "typeof", "var", "void", "while", "with",
    "class", "const", "enum", "export", "extends", "import", "super", "null", "true", "false" ]

def isReserved (name : String) : Bool := reservedWords.contains name

def hexv (c : Char) : Option Nat :=
  if '0' ≤ c ∧ c ≤ '9' then some (c.toNat - 48) else if 'a' ≤ c ∧ c ≤ 'f' then some (c.toNat - 87)
  else if 'A' ≤ c ∧ c ≤ 'F' then some (c.toNat - 55) else none

/-- the characters an IdentifierName spelling denotes (§7.6): `\uXXXX` contributes one character -/
def decode : List Char → Option (List Char)
  | [] => some []
  | '\\' :: 'u' :: a :: b :: c :: d :: r =>
    match hexv a, hexv b, hexv c, hexv d, decode r with
    | some x, some y, some z, some w, some rest => some (Char.ofNat (((x * 16 + y) * 16 + z) * 16 + w) :: rest)
    | _, _, _, _, _ => none
  | '\\' :: _ => none
  | ch :: r => (decode r).map (ch :: ·)

end OttoVerif.C04.Reserved
