/-
  C04/Driver — line protocol front end (core-only).
    tree <srchex> <rawdump>    reply: model / spec verdict of the span + walk obligations on an accepted tree
    junk <srchex> -            reply: total total -     (totality has no model content: no panic, positions in bounds)
    early <stmt-tree>          reply: model / spec accept|reject by the early-error rules
-/
import OttoVerif.Base.Proto
import OttoVerif.C04.Spec
import OttoVerif.C04.Early
import OttoVerif.C04.Positions
import OttoVerif.C03.Driver
namespace OttoVerif.C04.Driver
open OttoVerif.C04 OttoVerif.Proto

def kind? : String → Option Kind
  | "ArrayLiteral" => some .ArrayLiteral | "AssignExpression" => some .AssignExpression | "BadExpression" => some .BadExpression
  | "BinaryExpression" => some .BinaryExpression | "BooleanLiteral" => some .BooleanLiteral | "BracketExpression" => some .BracketExpression
  | "CallExpression" => some .CallExpression | "ConditionalExpression" => some .ConditionalExpression | "DotExpression" => some .DotExpression
  | "EmptyExpression" => some .EmptyExpression | "FunctionLiteral" => some .FunctionLiteral | "Identifier" => some .Identifier
  | "NewExpression" => some .NewExpression | "NullLiteral" => some .NullLiteral | "NumberLiteral" => some .NumberLiteral
  | "ObjectLiteral" => some .ObjectLiteral | "RegExpLiteral" => some .RegExpLiteral | "SequenceExpression" => some .SequenceExpression
  | "StringLiteral" => some .StringLiteral | "ThisExpression" => some .ThisExpression | "UnaryExpression" => some .UnaryExpression
  | "VariableExpression" => some .VariableExpression | "BadStatement" => some .BadStatement | "BlockStatement" => some .BlockStatement
  | "BranchStatement" => some .BranchStatement | "CaseStatement" => some .CaseStatement | "CatchStatement" => some .CatchStatement
  | "DebuggerStatement" => some .DebuggerStatement | "DoWhileStatement" => some .DoWhileStatement | "EmptyStatement" => some .EmptyStatement
  | "ExpressionStatement" => some .ExpressionStatement | "ForInStatement" => some .ForInStatement | "ForStatement" => some .ForStatement
  | "FunctionStatement" => some .FunctionStatement | "IfStatement" => some .IfStatement | "LabelledStatement" => some .LabelledStatement
  | "ReturnStatement" => some .ReturnStatement | "SwitchStatement" => some .SwitchStatement | "ThrowStatement" => some .ThrowStatement
  | "TryStatement" => some .TryStatement | "VariableStatement" => some .VariableStatement | "WhileStatement" => some .WhileStatement
  | "WithStatement" => some .WithStatement | "Program" => some .Program | _ => none

mutual
/-- Polish-notation reader of `astx.RawDump` -/
partial def readT (items : List String) : Option (T × List String) :=
  match items with
  | [] => none
  | "_" :: r => some (.absent, r)
  | "~" :: r => some (.tnil, r)
  | h :: r =>
    match h.splitOn "." with
    | [k, a, b, l, n] => do
      let k ← kind? k
      let a ← int? a; let b ← int? b; let l ← int? l
      let n ← n.toNat?
      let (kids, r) ← readTS n r
      pure (.node k a b l kids, r)
    | _ => none
partial def readTS (n : Nat) (items : List String) : Option (TS × List String) :=
  if n = 0 then some (.nil, items) else do
    let (t, r) ← readT items
    let (ts, r) ← readTS (n - 1) r
    pure (.cons t ts, r)
end

structure Acc where
  n : Nat := 0
  panics : Nat := 0
  oob : Nat := 0
  unnested : Nat := 0
  sum : Nat := 0
  emptySeq : Bool := false
  emptyCase : Bool := false
  emptyProg : Bool := false
  switchOpen : Bool := false

mutual
/-- the same pre-order pass the Go harness makes over the live nodes (c04.go treeVerdict) -/
partial def scan (srcLen : Int) (parent : Option (Int × Int)) (t : T) (acc : Acc) : Acc :=
  match t with
  | .absent | .tnil => acc
  | .node k _ b _ kids =>
    let acc := { acc with n := acc.n + 1 }
    let acc := match k, kids with
      | .SequenceExpression, .nil => { acc with emptySeq := true }
      | .Program, .nil => { acc with emptyProg := true }
      | .CaseStatement, ks => if ks.length < 2 then { acc with emptyCase := true } else acc
      | .SwitchStatement, _ => if b = 0 then { acc with switchOpen := true } else acc
      | _, _ => acc
    match idx0 t, idx1 t with
    | some i0, some i1 =>
      let acc := { acc with sum := (acc.sum * 31 + i0.toNat * 131 + i1.toNat) % 1000000007 }
      let acc := if i0 < 1 ∨ i1 > srcLen + 1 ∨ i0 > i1 then { acc with oob := acc.oob + 1 } else acc
      let acc := match parent with
        | some (p0, p1) => if i0 < p0 ∨ i1 > p1 then { acc with unnested := acc.unnested + 1 } else acc
        | none => acc
      scanList srcLen (some (i0, i1)) kids acc
    | _, _ => scanList srcLen none kids { acc with panics := acc.panics + 1 }
partial def scanList (srcLen : Int) (parent : Option (Int × Int)) (ts : TS) (acc : Acc) : Acc :=
  match ts with
  | .nil => acc
  | .cons t r => scanList srcLen parent r (scan srcLen parent t acc)
end

def verdict (n enter nil_ : Nat) (seq : Bool) (panics oob unnested sum : Nat) : String :=
  s!"accept:n={n},enter={enter},nil={nil_},seq={if seq then "ok" else "bad"},panic={panics},oob={oob},unnested={unnested},sum={sum}"

def handleTree (srcHex dump : String) : String :=
  match readT (dump.splitOn ",") with
  | some (t, []) =>
    let srcLen : Int := (srcHex.length - 1) / 2
    let acc := scan srcLen none t {}
    let evs := walk t
    let ent := Spec.nonNilEnters evs
    let nils := Spec.nilEnters evs
    let seqOk := ent == Spec.nodes t && Spec.balanced evs []
    let model := verdict acc.n ent.length nils seqOk acc.panics acc.oob acc.unnested acc.sum
    let spec := verdict acc.n acc.n 0 true 0 0 0 acc.sum
    let devs : List String := []
    model ++ " " ++ spec ++ " " ++ (if devs.isEmpty then "-" else ",".intercalate devs)
  | _ => "bad-dump bad-dump -"

/-- pos <hole> <srchex> <tokens of the hole content, then EOF>: accept / reject of the whole program, decided at the hole -/
def handlePos (hole toks : String) : String :=
  match OttoVerif.C03.Driver.toks? toks with
  | some ts => Pos.verdict (Pos.model hole ts) ++ " " ++ Pos.verdict (Pos.spec hole ts) ++ " -"
  | none => "bad-request bad-request -"

def handle (ws : List String) : String :=
  match ws with
  | ["pos", hole, _src, toks] => handlePos hole toks
  | ["tree", src, dump] => handleTree src dump
  | ["junk", _, _] => "total total -"
  | "early" :: rest => Early.handle rest
  | ["earlyfn", expect, region, _, _] => Early.handle [expect, region, "-"]
  | ["earlyfs", expect, region, _] => Early.handle [expect, region, "-"]
  | "early2" :: rest => Early.handle2 rest
  | "resv" :: rest => Early.handleResv rest
  | "resvtok" :: rest => Early.handleResvTok rest
  | _ => "bad-op bad-op -"

end OttoVerif.C04.Driver
