/-
  C04/Positions — which nonterminal an operand position takes.

  A `pos` request puts a token string into ONE position of a statement form (the hole); the tokens before and after the hole
  are fixed by the template.  The hole content arrives followed by one EOF token that stands for the closing delimiter of
  the position (`;` `)` `:` `]` `}` or the `in` of a for-in).

  MODEL: the parser function otto calls at that position (cited per hole), run on the content with the transcription of the
  expression parser of C03/Model.lean (parseConditionalExpression there parses the operand between `?` and `:` with
  parseAssignmentExpression, expression.go:982; arguments :469, `new` callee :489, …); accepted = it stops exactly at the
  delimiter.  List positions follow the loops of parseArrayLiteral (expression.go:385), parseObjectLiteral /
  parseObjectProperty (:360, :274) and parseVariableDeclarationList (:215), for-in after `var` statement.go:590.

  SPEC: the ES5 nonterminal of the position (12.x / 11.1.4 / 11.1.5): Expression, ExpressionNoIn, AssignmentExpression(NoIn),
  ElementList, PropertyNameAndValueList, VariableDeclarationList(NoIn).  Membership of a token string in Expression /
  AssignmentExpression is decided through C03: the string is in the language iff it is the unparse `pr lvl ai t` of a
  well-formed tree t (definition of C03/Spec), and by `C03.Thm.parse_print_at_full` such a t can only be the tree the parser
  model returns — so: parse, unparse at the level of the position, compare.  A list is split at its top-level commas (an
  AssignmentExpression has none) and every piece is checked against the element production.
-/
import OttoVerif.C03.Model
import OttoVerif.C03.Spec
namespace OttoVerif.C04.Pos
open OttoVerif.C03

def fuel (ts : List Tok) : Nat := 40 * ts.length + 200
def eraseNl (ts : List Tok) : List Tok := ts.map fun t => { t with nl := false }
def eofTok : Tok := { k := .eof }
def isEof (r : List Tok) : Bool := match r with | [t] => t.k == .eof | _ => false
def isComma (t : Tok) : Bool := t.k == .p .comma

/-! ### model -/

/-- parseExpression at the position, then the delimiter -/
def mExpr (ai : Bool) (ts : List Tok) : Bool :=
  match parseExpression (fuel ts) ai ts with | some (_, r) => isEof r | none => false

/-- parseAssignmentExpression at the position, then the delimiter -/
def mAsg (ai : Bool) (ts : List Tok) : Bool :=
  match parseAssign (fuel ts) ai ts with | some (_, r) => isEof r | none => false

/-- parseArrayLiteral after `[` (expression.go:388-411); EOF = `]` -/
def mElems : Nat → List Tok → Bool
  | 0, _ => false
  | _, [] => false
  | n+1, t :: r =>
    if t.k == .eof then r.isEmpty
    else if isComma t then mElems n r                                   -- :389 elision
    else match parseAssign (fuel (t :: r)) true (t :: r) with           -- :402
      | none => false
      | some (_, []) => false
      | some (_, u :: r') => if u.k == .eof then r'.isEmpty else if isComma u then mElems n r' else false   -- :405-409

def isKey (t : Tok) : Bool := match t.k with | .id _ | .str _ | .num _ => true | _ => false

/-- parseObjectLiteral after `{ p :` (expression.go:363-372, parseObjectProperty :314-319); EOF = `}`.  A missing comma
    between two properties is not an error there (region object_literal_missing_comma of the `early` table). -/
def mProps : Nat → List Tok → Bool
  | 0, _ => false
  | n+1, ts =>
    match parseAssign (fuel ts) true ts with                            -- :319 the value
    | none => false
    | some (_, []) => false
    | some (_, u :: r) =>
      if u.k == .eof then r.isEmpty
      else
        let r := if isComma u then r else u :: r                        -- :365
        match r with
        | [] => false
        | k :: r' =>
          if k.k == .eof then r'.isEmpty                                 -- `{ p : v , }`
          else if isKey k then
            match r' with
            | c :: r'' => if c.k == .p .colon then mProps n r'' else false   -- :314 expect(COLON)
            | [] => false
          else false

/-- parseVariableDeclarationList after `var v =` (expression.go:204-232); EOF = what follows the list; state `init` = an
    initialiser is due (:209), else a declaration has just ended (:225-231 `, Identifier [= …]`); result = len(list) -/
def mDecls : Nat → Bool → Bool → Nat → List Tok → Option Nat
  | 0, _, _, _, _ => none
  | n+1, ai, true, cnt, ts =>
    match parseAssign (fuel ts) ai ts with
    | none => none
    | some (_, r) => mDecls n ai false (cnt + 1) r
  | n+1, ai, false, cnt, r =>
    match r with
    | [] => none
    | u :: r1 =>
      if u.k == .eof then (if r1.isEmpty then some cnt else none)
      else if isComma u then
        match r1 with
        | i :: r2 =>
          match i.k with
          | .id _ =>
            (match r2 with
             | a :: r3 => if a.k == .p .assign then mDecls n ai true cnt r3 else mDecls n ai false (cnt + 1) r2
             | [] => none)
          | _ => none                                                    -- :183 expect(IDENTIFIER)
        | [] => none
      else none

def decls (ai : Bool) (ts : List Tok) : Option Nat := mDecls (2 * ts.length + 2) ai true 0 ts

/-- hole kinds -/
def model (hole : String) (ts : List Tok) : Option Bool :=
  match hole with
  | "expr" => some (mExpr true ts)               -- parseExpression: statement.go parseIfStatement / While / DoWhile / Switch / With / Return / Throw / Case / for-in right side / for test and update / expression statement
  | "exprNoIn" => some (mExpr false ts)          -- statement.go:605 with allowIn = false (:581)
  | "asg" => some (mAsg true ts)
  | "elems" => some (mElems (ts.length + 1) ts)
  | "props" => some (mProps (ts.length + 1) ts)
  | "decls" => some ((decls true ts).isSome)
  | "declsNoIn" => some ((decls false ts).isSome)          -- statement.go:590, then `;` (:636)
  | "declForIn" => some (decls false ts == some 1)         -- statement.go:591 `len(list) == 1 && p.token == token.IN`
  | _ => none

/-! ### spec -/

/-- is `ts` (followed by EOF) a member of the expression nonterminal of level `lvl` (0 Expression, 1 AssignmentExpression),
    with or without `in`? -/
def inLang (lvl : Nat) (ai : Bool) (ts : List Tok) : Bool :=
  match parseExpression (fuel ts) ai ts with
  | some (t, r) => isEof r && Spec.wf t && Spec.isExprHead t && eraseNl ts == Spec.pr lvl ai t ++ [eofTok]
  | none => false

/-- split at the commas outside every bracket pair -/
def splitTop : List Tok → Nat → List Tok → List (List Tok)
  | [], _, cur => [cur.reverse]
  | t :: r, depth, cur =>
    match t.k with
    | .p .lparen | .p .lbrack | .p .lbrace => splitTop r (depth + 1) (t :: cur)
    | .p .rparen | .p .rbrack | .p .rbrace => splitTop r (depth - 1) (t :: cur)
    | .p .comma => if depth = 0 then cur.reverse :: splitTop r 0 [] else splitTop r depth (t :: cur)
    | _ => splitTop r depth (t :: cur)

def body (ts : List Tok) : Option (List Tok) :=
  match ts.reverse with
  | e :: r => if e.k == .eof then some r.reverse else none
  | [] => none

/-- 11.1.4 ElementList with elisions: every piece is empty or an AssignmentExpression -/
def sElems (ts : List Tok) : Bool :=
  match body ts with
  | some b => (splitTop b 0 []).all fun p => p.isEmpty || inLang 1 true (p ++ [eofTok])
  | none => false

/-- 11.1.5 PropertyNameAndValueList after `{ p :` — value, then `PropertyName : value` pieces, an optional final comma -/
def sProps (ts : List Tok) : Bool :=
  match body ts with
  | some b =>
    match splitTop b 0 [] with
    | [] => false
    | v :: more =>
      inLang 1 true (v ++ [eofTok]) &&
      (more.zipIdx.all fun (p, i) =>
        match p with
        | [] => i + 1 == more.length                    -- `{ p : v , }`
        | k :: c :: val => isKey k && c.k == .p .colon && inLang 1 true (val ++ [eofTok])
        | _ => false)
  | none => false

/-- 12.2 VariableDeclarationList(NoIn) after `var v =`: Initialiser, then `Identifier Initialiser_opt` pieces; the number of
    declarations -/
def sDecls (ai : Bool) (ts : List Tok) : Option Nat :=
  match body ts with
  | some b =>
    match splitTop b 0 [] with
    | [] => none
    | v :: more =>
      if inLang 1 ai (v ++ [eofTok]) &&
         (more.all fun p =>
           match p with
           | [i] => (match i.k with | .id _ => true | _ => false)
           | i :: a :: val => (match i.k with | .id _ => true | _ => false) && a.k == .p .assign && inLang 1 ai (val ++ [eofTok])
           | _ => false)
      then some (more.length + 1) else none
  | none => none

def spec (hole : String) (ts : List Tok) : Option Bool :=
  match hole with
  | "expr" => some (inLang 0 true ts)            -- 12.4, 12.5, 12.6.1-2, 12.9, 12.10, 12.11 (switch and case), 12.13, 12.6.3 second/third, 12.6.4 right side
  | "exprNoIn" => some (inLang 0 false ts)       -- 12.6.3 ExpressionNoIn
  | "asg" => some (inLang 1 true ts)
  | "elems" => some (sElems ts)
  | "props" => some (sProps ts)
  | "decls" => some ((sDecls true ts).isSome)
  | "declsNoIn" => some ((sDecls false ts).isSome)     -- 12.6.3 for ( var VariableDeclarationListNoIn ; ; )
  | "declForIn" => some (sDecls false ts == some 1)    -- 12.6.4 for ( var VariableDeclarationNoIn in Expression )
  | _ => none

def verdict : Option Bool → String
  | some true => "accept" | some false => "reject" | none => "bad-request"

end OttoVerif.C04.Pos
