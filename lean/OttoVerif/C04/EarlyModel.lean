/-
  C04/EarlyModel — the parse-time checks otto makes on jump statements and labels, as a pass over statement trees.

  Transcribed from parser/statement.go `parseBreakStatement` (794-849), `parseContinueStatement` (851-893),
  `parseReturnStatement` (312-339), the label bookkeeping in `parseStatement` (105-136), `parseIterationStatement` (494),
  `parseDoWhileStatement` (653), `parseSwitchStatement` (393-397), `parseFunctionBlock` (286-296), `parseTryStatement`
  (206-209) and parser/scope.go (`hasLabel`: the only scope whose `inFunction` is false is the global one, which has no
  outer scope, so label lookup never leaves the current function scope).

  The parser performs these checks while it builds the tree, in source order, with the flags of the current `scope`;
  `Ctx` is that scope.  `labelSet` of scope.go is the parameter `pending` (the labels directly in front of the statement), `iterLabels` the label
  sets of the enclosing iteration statements (scope.isIterationLabel).
-/
namespace OttoVerif.C04

inductive LoopKind where | while_ | doWhile | for_ | forIn
deriving DecidableEq, Repr

mutual
/-- statement trees, as far as jump legality is concerned -/
inductive S where
  | expr                               -- any statement without sub-statements: `x;`
  | brk (l : Option Nat)               -- break;  /  break L;
  | cont (l : Option Nat)              -- continue;  /  continue L;
  | ret                                -- return;
  | block (b : SL)
  | if1 (t : S)
  | if2 (t e : S)
  | loop (k : LoopKind) (body : S)
  | switch (clause : SL)               -- the statements of the case clauses, in order
  | try_ (b : SL) (c : Option SL) (f : Option SL)
  | with_ (b : S)
  | label (l : Nat) (s : S)
  | fn (body : SL)                     -- a function (declaration or expression statement) with this body
inductive SL where
  | nil
  | cons (s : S) (r : SL)
end

structure Ctx where
  labels : List Nat := []        -- p.scope.labels
  iterLabels : List Nat := []    -- p.scope.iterLabels: labels in the label set of an enclosing IterationStatement
  inIter : Bool := false         -- p.scope.inIteration
  inSwitch : Bool := false       -- p.scope.inSwitch
  inFn : Bool := false           -- p.scope.inFunction

/-- entering a function body: p.openScope() (scope.go:18) + inFunction = true -/
def Ctx.fnBody (_ : Ctx) : Ctx := { inFn := true }
/-- the body of an iteration statement whose label set is `pending` -/
def Ctx.loopBody (c : Ctx) (pending : List Nat) : Ctx := { c with inIter := true, iterLabels := pending ++ c.iterLabels }
def Ctx.switchBody (c : Ctx) : Ctx := { c with inSwitch := true }
def Ctx.push (c : Ctx) (l : Nat) : Ctx := { c with labels := l :: c.labels }

mutual
/-- does otto's parser accept the statement (no error recorded by the checks above)? -/
def accepts : Ctx → List Nat → S → Bool
  | _, _, .expr => true
  | c, _, .brk none => c.inIter || c.inSwitch                 -- statement.go:808
  | c, _, .brk (some l) => c.labels.contains l                 -- :826 hasLabel
  | c, _, .cont none => c.inIter                               -- :861
  | c, _, .cont (some l) => c.labels.contains l && (c.inIter && c.iterLabels.contains l)   -- hasLabel, then inIteration && isIterationLabel
  | c, _, .ret => c.inFn                                       -- :319
  | c, _, .block b => acceptsL c b
  | c, _, .if1 t => accepts c [] t
  | c, _, .if2 t e => accepts c [] t && accepts c [] e
  | c, p, .loop _ body => accepts (c.loopBody p) [] body       -- :494-500, :653-658
  | c, _, .switch cl => acceptsL c.switchBody cl               -- :393-397
  | c, _, .try_ b ca f =>                                      -- :150-212
    acceptsL c b && (match ca with | some x => acceptsL c x | none => true)
      && (match f with | some x => acceptsL c x | none => true) && (ca.isSome || f.isSome)
  | c, _, .with_ b => accepts c [] b
  | c, p, .label l s => !c.labels.contains l && accepts (c.push l) (l :: p) s   -- :113-125
  | c, _, .fn body => acceptsL c.fnBody body                   -- :286-296
def acceptsL : Ctx → SL → Bool
  | _, .nil => true
  | c, .cons s r => accepts c [] s && acceptsL c r
end

end OttoVerif.C04
