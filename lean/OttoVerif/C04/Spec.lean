/-
  C04/Spec — what the property demands of an accepted tree.

  * every non-nil node has a span (`Idx0/Idx1` do not panic), `1 ≤ Idx0 ≤ Idx1 ≤ len+1`, and the span lies
    within the parent's span;
  * the walker enters every non-nil node exactly once (we fix pre-order, the order `ast.Walk` documents:
    "depth-first") and never hands a nil node to the visitor.
-/
import OttoVerif.C04.Model
namespace OttoVerif.C04.Spec
open OttoVerif.C04

mutual
/-- the non-nil nodes of a tree in depth-first pre-order -/
def nodes : T → List Kind
  | .absent => []
  | .tnil => []
  | .node k _ _ _ kids => k :: nodesList kids
def nodesList : TS → List Kind
  | .nil => []
  | .cons t ts => nodes t ++ nodesList ts
end

mutual
/-- number of typed-nil pointers stored in Node-valued fields -/
def tnilCount : T → Nat
  | .absent => 0
  | .tnil => 1
  | .node _ _ _ _ kids => tnilCountList kids
def tnilCountList : TS → Nat
  | .nil => 0
  | .cons t ts => tnilCount t + tnilCountList ts
end

/-- the Enter events a correct walker produces: one per non-nil node, pre-order, no nil -/
def expectedEnters (t : T) : List (Option Kind) := (nodes t).map some

def enters : List Ev → List (Option Kind)
  | [] => []
  | .enter k :: es => k :: enters es
  | .exit _ :: es => enters es

def nonNilEnters : List Ev → List Kind
  | [] => []
  | .enter (some k) :: es => k :: nonNilEnters es
  | _ :: es => nonNilEnters es

def nilEnters : List Ev → Nat
  | [] => 0
  | .enter none :: es => nilEnters es + 1
  | _ :: es => nilEnters es

/-- Enter/Exit events are properly bracketed -/
def balanced : List Ev → List (Option Kind) → Bool
  | [], st => st.isEmpty
  | .enter k :: es, st => balanced es (k :: st)
  | .exit k :: es, st => match st with
    | [] => false
    | k' :: st' => k = k' && balanced es st'

/-- a child span lies within its parent's span and within the file -/
def within (lo hi : Int) (c0 c1 : Int) : Bool := lo ≤ c0 ∧ c0 ≤ c1 ∧ c1 ≤ hi

end OttoVerif.C04.Spec
