/-
  C04/Spec — what the property demands of an accepted tree.

  * every non-nil node has a span (`Idx0/Idx1` do not panic), `1 ≤ Idx0 ≤ Idx1 ≤ len+1`, and the span lies
    within the parent's span;
  * the walker enters every non-nil node exactly once (we fix pre-order, the order `ast.Walk` documents:
    "depth-first") and never hands a nil node to the visitor.
-/
import OttoVerif.C04.Model
namespace OttoVerif.C04.Spec
open OttoVerif.C04

mutual
/-- the non-nil nodes of a tree in depth-first pre-order -/
def nodes : T → List Kind
  | .absent => []
  | .tnil => []
  | .node k _ _ _ kids => k :: nodesList kids
def nodesList : TS → List Kind
  | .nil => []
  | .cons t ts => nodes t ++ nodesList ts
end

mutual
/-- number of typed-nil pointers stored in Node-valued fields -/
def tnilCount : T → Nat
  | .absent => 0
  | .tnil => 1
  | .node _ _ _ _ kids => tnilCountList kids
def tnilCountList : TS → Nat
  | .nil => 0
  | .cons t ts => tnilCount t + tnilCountList ts
end

/-- the Enter events a correct walker produces: one per non-nil node, pre-order, no nil -/
def expectedEnters (t : T) : List (Option Kind) := (nodes t).map some

def enters : List Ev → List (Option Kind)
  | [] => []
  | .enter k :: es => k :: enters es
  | .exit _ :: es => enters es

def nonNilEnters : List Ev → List Kind
  | [] => []
  | .enter (some k) :: es => k :: nonNilEnters es
  | _ :: es => nonNilEnters es

def nilEnters : List Ev → Nat
  | [] => 0
  | .enter none :: es => nilEnters es + 1
  | _ :: es => nilEnters es

/-- Enter/Exit events are properly bracketed -/
def balanced : List Ev → List (Option Kind) → Bool
  | [], st => st.isEmpty
  | .enter k :: es, st => balanced es (k :: st)
  | .exit k :: es, st => match st with
    | [] => false
    | k' :: st' => k = k' && balanced es st'

/-- a child span lies within its parent's span and within the file -/
def within (lo hi : Int) (c0 c1 : Int) : Bool := lo ≤ c0 ∧ c0 ≤ c1 ∧ c1 ≤ hi

mutual
/-- every node has a span with Idx0 ≤ Idx1 and every present child's span lies within its parent's -/
def nestedAll : T → Bool
  | .absent => true
  | .tnil => true
  | .node k a b l kids =>
    match idx0 (.node k a b l kids), idx1 (.node k a b l kids) with
    | some p0, some p1 => decide (p0 ≤ p1) && kidsWithin p0 p1 kids
    | _, _ => false
def kidsWithin (p0 p1 : Int) : TS → Bool
  | .nil => true
  | .cons .absent ts => kidsWithin p0 p1 ts
  | .cons .tnil ts => kidsWithin p0 p1 ts
  | .cons (.node k a b l kids) ts =>
    (match idx0 (.node k a b l kids), idx1 (.node k a b l kids) with
     | some c0, some c1 => decide (p0 ≤ c0 ∧ c1 ≤ p1)
     | _, _ => false) && nestedAll (.node k a b l kids) && kidsWithin p0 p1 ts
end

mutual
/-- the spans of all nodes, pre-order -/
def spans : T → List (Int × Int)
  | .absent => []
  | .tnil => []
  | .node k a b l kids =>
    (match idx0 (.node k a b l kids), idx1 (.node k a b l kids) with
     | some p0, some p1 => [(p0, p1)]
     | _, _ => []) ++ spansL kids
def spansL : TS → List (Int × Int)
  | .nil => []
  | .cons t ts => spans t ++ spansL ts
end

/-- the spans of the children when all are present and have spans -/
def kidSpans : TS → Option (List (Int × Int))
  | .nil => some []
  | .cons t ts =>
    match idx0 t, idx1 t, kidSpans ts with
    | some a, some b, some r => some ((a, b) :: r)
    | _, _, _ => none

/-- source order: each span is non-empty-or-empty-forward and starts after the previous one ends -/
def chainFrom : Int → List (Int × Int) → Bool
  | _, [] => true
  | b, (x, y) :: r => decide (b ≤ x ∧ x ≤ y) && chainFrom y r

def lastSnd : Int → List (Int × Int) → Int
  | b, [] => b
  | _, (_, y) :: r => lastSnd y r

/-- node kinds whose span is derived from their children: Idx0 = first child's Idx0, Idx1 = last child's Idx1 -/
def isDerived : Kind → Bool
  | .AssignExpression | .BinaryExpression | .ConditionalExpression | .DotExpression | .SequenceExpression
  | .ExpressionStatement | .FunctionStatement | .LabelledStatement | .Program => true
  | _ => false

end OttoVerif.C04.Spec
