/-
  C12/Model — transcription of otto's Date code (UTC entry points).
    type_date.go:     dateObject, invalidDateObject, ecmaTime, newEcmaTime, ecmaTime.goTime, SetTime, Set,
                      maxTimeValue, epochToInteger, epochToTime, timeToEpoch, newDateTime, dateParse
    builtin_date.go:  toISOString, toJSON, getTime, setTime, builtinDateBeforeSet, Date.UTC, valueOf, getUTC*,
                      setUTC* (setUTCFullYear with its restart from +0)
    (the "l.NNN" references below are to the tree before the Date fix: commits)
    value_number.go:  Value.number (l.149) as used by builtinDateBeforeSet
  Go's package time is a STUB transcribed from go1.23 src/time/time.go (norm l.1484, Date l.1516,
  daysSinceEpoch l.1114, absDate l.1012, absClock l.592, absWeekday l.543, Unix l.1445,
  UnixMilli l.1250, isLeap l.1476) and format.go (appendInt l.417, Parse range checks); it is
  validated per sample by the correspondence run, not proved.  Go's uint64/int64 are modelled as
  unbounded `Int`: faithful as long as no 64-bit wrap occurs, i.e. |year| < 2.9e11 and
  |ms field|·10^6 < 2^63 (the harness keeps fields within ±10^8).
  Only the zero-offset zone (utcTimeZone = FixedZone("GMT",0), time.UTC) is modelled.
-/
import OttoVerif.Base.F64
import OttoVerif.C05.Model
namespace OttoVerif.C12
open OttoVerif.F64

/-- Go integer division (truncating) by a positive literal -/
def goDiv (a b : Int) : Int := if a ≥ 0 then a / b else -((-a) / b)
/-- Go integer remainder (sign of the dividend) -/
def goMod (a b : Int) : Int := a - b * goDiv a b

/-- time.Time restricted to a zero-offset location: Unix seconds and nanoseconds within the second -/
structure GoTime where
  sec : Int
  nsec : Int
deriving DecidableEq, Repr, Inhabited

/-- time.Time{} : January 1, year 1, 00:00:00 UTC -/
def goZeroTime : GoTime := ⟨-62135596800, 0⟩

/-- time.go norm (l.1484) -/
def goNorm (hi lo base : Int) : Int × Int :=
  let (hi, lo) := if lo < 0 then
      let n := goDiv (-lo - 1) base + 1
      (hi - n, lo + n * base)
    else (hi, lo)
  if lo ≥ base then
    let n := goDiv lo base
    (hi + n, lo - n * base)
  else (hi, lo)

/-- time.go isLeap (l.1476) -/
def goIsLeap (year : Int) : Bool :=
  goMod year 4 == 0 && (goMod year 100 != 0 || goMod year 400 == 0)

def absoluteZeroYear : Int := -292277022399
/-- absoluteToInternal + internalToUnix (time.go l.454–458) -/
def absToUnix : Int := -9223372028715321600

/-- time.go daysBefore (l.1088) -/
def goDaysBefore (m : Int) : Int :=
  match m with
  | 0 => 0 | 1 => 31 | 2 => 59 | 3 => 90 | 4 => 120 | 5 => 151 | 6 => 181
  | 7 => 212 | 8 => 243 | 9 => 273 | 10 => 304 | 11 => 334 | _ => 365

/-- time.go daysSinceEpoch (l.1114) -/
def goDaysSinceEpoch (year : Int) : Int :=
  let y := year - absoluteZeroYear
  let n := y / 400
  let y := y - 400 * n
  let d := 146097 * n
  let n := y / 100
  let y := y - 100 * n
  let d := d + 36524 * n
  let n := y / 4
  let y := y - 4 * n
  let d := d + 1461 * n
  d + 365 * y

/-- time.Date (l.1516) in a zero-offset location; `month` is Go's 1-based month -/
def goDate (year month day hour min sec nsec : Int) : GoTime :=
  let m := month - 1
  let (year, m) := goNorm year m 12
  let month := m + 1
  let (sec, nsec) := goNorm sec nsec 1000000000
  let (min, sec) := goNorm min sec 60
  let (hour, min) := goNorm hour min 60
  let (day, hour) := goNorm day hour 24
  let d := goDaysSinceEpoch year
  let d := d + goDaysBefore (month - 1)
  let d := if goIsLeap year && month ≥ 3 then d + 1 else d
  let d := d + (day - 1)
  let abs := d * 86400
  let abs := abs + (hour * 3600 + min * 60 + sec)
  ⟨abs + absToUnix, nsec⟩

/-- time.Unix (l.1445) -/
def goUnix (sec nsec : Int) : GoTime :=
  if nsec < 0 ∨ nsec ≥ 1000000000 then
    let n := goDiv nsec 1000000000
    let sec := sec + n
    let nsec := nsec - n * 1000000000
    if nsec < 0 then ⟨sec - 1, nsec + 1000000000⟩ else ⟨sec, nsec⟩
  else ⟨sec, nsec⟩

/-- Time.abs (l.471) with offset 0 -/
def goAbs (t : GoTime) : Int := t.sec + 9223372028715321600

/-- absDate (l.1012) up to the `if !full { return }` point: (year, yday) -/
def goYearDay (abs : Int) : Int × Int :=
  let d := abs / 86400
  let n := d / 146097
  let y := 400 * n
  let d := d - 146097 * n
  let n := d / 36524
  let n := n - n / 4            -- n >> 2
  let y := y + 100 * n
  let d := d - 36524 * n
  let n := d / 1461
  let y := y + 4 * n
  let d := d - 1461 * n
  let n := d / 365
  let n := n - n / 4
  let y := y + n
  let d := d - 365 * n
  (y + absoluteZeroYear, d)

/-- the rest of absDate (l.1053–1082): (month 1..12, day of month) from yday -/
def goMonthDay (leap : Bool) (yday : Int) : Int × Int :=
  let day := yday
  if leap && day = 59 then (2, 29)
  else
    let day := if leap && day > 59 then day - 1 else day
    let month := day / 31
    let e := goDaysBefore (month + 1)
    if day ≥ e then (month + 2, day - e + 1)
    else (month + 1, day - goDaysBefore month + 1)

/-- absDate (l.1012), full = true: (year, month 1..12, day) -/
def goAbsDate (abs : Int) : Int × Int × Int :=
  let (year, yday) := goYearDay abs
  let (month, day) := goMonthDay (goIsLeap year) yday
  (year, month, day)

def goYear (t : GoTime) : Int := (goAbsDate (goAbs t)).1
def goMonth (t : GoTime) : Int := (goAbsDate (goAbs t)).2.1
def goDay (t : GoTime) : Int := (goAbsDate (goAbs t)).2.2
/-- absWeekday (l.543) -/
def goWeekday (t : GoTime) : Int := ((goAbs t + 86400) % 604800) / 86400
/-- Hour (l.602), Minute, Second -/
def goHour (t : GoTime) : Int := (goAbs t % 86400) / 3600
def goMinute (t : GoTime) : Int := (goAbs t % 3600) / 60
def goSecond (t : GoTime) : Int := goAbs t % 60
/-- UnixMilli (l.1250) -/
def goUnixMilli (t : GoTime) : Int := t.sec * 1000 + goDiv t.nsec 1000000

-- ---------------------------------------------------------------- type_date.go

/-- a number Value as the check sees it: NaN, or the integer an int64/float64 Value denotes -/
abbrev Num := Option Int

structure DateObj where
  time : GoTime
  value : Num
  epoch : Int
  isNaN : Bool
deriving DecidableEq, Repr, Inhabited

/-- invalidDateObject (l.17) -/
def invalidDateObject : DateObj := { time := goZeroTime, epoch := -1, value := none, isNaN := true }

def thousand : FV := .fin false 1000 0

/-- epochToInteger (l.103) -/
def epochToInteger (v : FV) : Int :=
  if lt zero v then C05.goInt64 (floor v) else C05.goInt64 (ceil v)

/-- maxTimeValue = 8.64e15 (type_date.go), exactly representable -/
def maxTimeValue : FV := .fin false 8640000000000000 0

/-- `math.Abs(x) > maxTimeValue` -/
def beyondMax (x : FV) : Bool := lt maxTimeValue (abs x)

/-- epochToTime: `none` is the error return (NaN, ±Inf, or beyond ±8.64e15: TimeClip) -/
def epochToTime (v : FV) : Option GoTime :=
  if isNaN v || isInf v || beyondMax v then none
  else
    let epoch := C05.goInt64 (div v thousand)
    let milli := goMod (C05.goInt64 v) 1000
    some (goUnix epoch (milli * 1000000))

/-- dateObject.Set: isNaN is set on error and cleared on success. -/
def DateObj.set (_d : DateObj) (v : FV) : DateObj :=
  let epoch := epochToInteger v
  match epochToTime v with
  | none => { time := goZeroTime, isNaN := true, epoch := -1, value := none }
  | some tm => { time := tm, isNaN := false, epoch := epoch, value := some epoch }

/-- the zero dateObject{} of newDateObject (l.131) -/
def zeroDateObj : DateObj := { time := goZeroTime, value := none, epoch := 0, isNaN := false }

/-- newDateObject (l.126): `new Date(v)` for a number v -/
def newDate (v : FV) : DateObj := zeroDateObj.set v

/-- timeToEpoch (l.122): float64(time.UnixMilli()) -/
def timeToEpoch (t : GoTime) : FV := ofInt (goUnixMilli t)

/-- time.Date(year, month, day, hour, minute, second + ms/1000, ms%1000*1000*1000, UTC): the call shape of
    newDateTime and ecmaTime.goTime (Go `/` and `%` truncate) -/
def goDateMs (year month day hour minute second ms : Int) : GoTime :=
  goDate year month day hour minute (second + goDiv ms 1000) (goMod ms 1000 * 1000000)

/-- the last statements of newDateTime on converted fields: time.Date(…).UnixMilli() -/
def dateCore (year month day hour minute second ms : Int) : Int :=
  goUnixMilli (goDateMs year (month + 1) day hour minute second ms)

/-- an integer constant as a double (all constants used are below 2^53·16 and exactly representable) -/
def fvC (n : Nat) : FV := .fin false n 0

/-- dateFieldsTooLarge: one field alone spans more than 1e9 days -/
def tooLarge (year month day hour minute second ms : FV) : Bool :=
  lt (fvC 2500000) (abs year) || lt (fvC 25000000) (abs month) || lt (fvC 1000000000) (abs day) ||
  lt (fvC 24000000000) (abs hour) || lt (fvC 1440000000000) (abs minute) ||
  lt (fvC 86400000000000) (abs second) || lt (fvC 86400000000000000) (abs ms)

/-- the tail of newDateTime once all seven fields are picked and finite: two-digit years, the too-large guard,
    time.Date, TimeClip.  Result: `none` = NaN, `some ms` = float64(ms). -/
def newDateTimeFields (year month day hour minute second ms : FV) : Num :=
  let integer := trunc year
  let year := if le zero integer && le integer (.fin false 99 0) then add (.fin false 1900 0) integer else year
  if tooLarge year month day hour minute second ms then none else
  let um := dateCore (C05.goInt64 year) (C05.goInt64 month) (C05.goInt64 day) (C05.goInt64 hour)
             (C05.goInt64 minute) (C05.goInt64 second) (C05.goInt64 ms)
  if beyondMax (ofInt um) then none else some um          -- epoch := timeToEpoch(time); TimeClip

/-- newDateTime, the ≥2-argument branch, location with offset 0: every supplied argument is picked first,
    then a NaN/±Infinity among them gives NaN. -/
def newDateTime (args : List FV) : Num :=
  let pick (i : Nat) (dflt : FV) : FV := (args[i]?).getD dflt
  let fields := [pick 0 (.fin false 1900 0), pick 1 zero, pick 2 one, pick 3 zero, pick 4 zero, pick 5 zero, pick 6 zero]
  if fields.any (fun x => isNaN x || isInf x) then none
  else newDateTimeFields (pick 0 (.fin false 1900 0)) (pick 1 zero) (pick 2 one) (pick 3 zero) (pick 4 zero) (pick 5 zero) (pick 6 zero)

-- ---------------------------------------------------------------- builtin_date.go getters

/-- the nine observations: valueOf (l.192) / getTime (l.97), getUTCFullYear (l.220), getUTCMonth (l.236),
    getUTCDate (l.252), getUTCDay (l.269), getUTCHours (l.285), getUTCMinutes (l.301), getUTCSeconds (l.317),
    getUTCMilliseconds (l.333).  getTime returns int64Value(epoch), valueOf returns date.value; they are
    kept separate as the first two… both are listed (index 0 = valueOf; getTime is checked equal in the driver). -/
def observe (d : DateObj) : List Num :=
  if d.isNaN then List.replicate 9 none
  else [d.value, some (goYear d.time), some (goMonth d.time - 1), some (goDay d.time), some (goWeekday d.time),
        some (goHour d.time), some (goMinute d.time), some (goSecond d.time), some (goDiv d.time.nsec 1000000)]

def getTime (d : DateObj) : Num := if d.isNaN then none else some d.epoch

-- ---------------------------------------------------------------- setters

/-- ecmaTime (l.24) without the location -/
structure EcmaTime where
  year : Int
  month : Int
  day : Int
  hour : Int
  minute : Int
  second : Int
  millisecond : Int
deriving DecidableEq, Repr

/-- newEcmaTime (l.35) -/
def newEcmaTime (t : GoTime) : EcmaTime :=
  { year := goYear t, month := goMonth t - 1, day := goDay t, hour := goHour t, minute := goMinute t,
    second := goSecond t, millisecond := goDiv t.nsec 1000000 }

/-- ecmaTime.goTime without its guard -/
def EcmaTime.goTimeCore (e : EcmaTime) : GoTime :=
  goDateMs e.year (e.month + 1) e.day e.hour e.minute e.second e.millisecond

/-- ecmaTime.goTime: fields too large → Time.UnixMilli(2·maxTimeValue), which Set turns into an invalid date -/
def EcmaTime.goTime (e : EcmaTime) : GoTime :=
  if tooLarge (ofInt e.year) (ofInt e.month) (ofInt e.day) (ofInt e.hour) (ofInt e.minute) (ofInt e.second) (ofInt e.millisecond)
  then ⟨17280000000000, 0⟩
  else e.goTimeCore

/-- Value.number (value_number.go l.149) on a float64 Value, reduced to what builtinDateBeforeSet uses:
    `none` for kinds NaN/Infinity, else the int64 field. -/
def numberArg (x : FV) : Option Int :=
  match x with
  | .nan => none
  | .inf _ => none
  | .fin _ m _ =>
    if m = 0 then some 0
    else if le (ofInt (2^63)) x then some (2^63 - 1)
    else if le x (ofInt (-(2^63))) then some (-(2^63))
    else some (C05.goInt64 x)

inductive Setter | ms | sec | min | hour | date | month | year | time
deriving DecidableEq, Repr

def Setter.limit : Setter → Nat
  | .ms => 1 | .sec => 2 | .min => 3 | .hour => 4 | .date => 1 | .month => 2 | .year => 3 | .time => 1

def numberArgs : List FV → Option (List Int)
  | [] => some []
  | x :: xs => match numberArg x, numberArgs xs with
    | some i, some is => some (i :: is)
    | _, _ => none

/-- the field updates of setUTCMilliseconds (l.374) … setUTCFullYear (l.597); `v` is non-empty -/
def applySetter (k : Setter) (e : EcmaTime) (v : List Int) : EcmaTime :=
  match k, v with
  | .ms, [a] => { e with millisecond := a }
  | .sec, [a] => { e with second := a }
  | .sec, [a, b] => { e with millisecond := b, second := a }
  | .min, [a] => { e with minute := a }
  | .min, [a, b] => { e with second := b, minute := a }
  | .min, [a, b, c] => { e with millisecond := c, second := b, minute := a }
  | .hour, [a] => { e with hour := a }
  | .hour, [a, b] => { e with minute := b, hour := a }
  | .hour, [a, b, c] => { e with second := c, minute := b, hour := a }
  | .hour, [a, b, c, d] => { e with millisecond := d, second := c, minute := b, hour := a }
  | .date, [a] => { e with day := a }
  | .month, [a] => { e with month := a }
  | .month, [a, b] => { e with day := b, month := a }
  | .year, [a] => { e with year := a }
  | .year, [a, b] => { e with month := b, year := a }
  | .year, [a, b, c] => { e with day := c, month := b, year := a }
  | _, _ => e

/-- what a setUTC* body computes from the stored time and the converted arguments:
    ecmaTime.goTime().UnixMilli() after the field updates -/
def setCore (k : Setter) (tm : GoTime) (vs : List Int) : Int :=
  goUnixMilli (applySetter k (newEcmaTime tm) vs).goTime

/-- the same without the too-large guard (for the composition theorem) -/
def setCoreU (k : Setter) (tm : GoTime) (vs : List Int) : Int :=
  goUnixMilli (applySetter k (newEcmaTime tm) vs).goTimeCore

/-- setTime and builtinDateBeforeSet(From) + the setUTC* bodies: (new object state, return value).
    Order in the code: convert every argument, then the invalid-date test (setUTCFullYear: continue from +0),
    then the validity of the converted arguments. -/
def setUTC (k : Setter) (d : DateObj) (args : List FV) : DateObj × Num :=
  match k with
  | .time =>
    let d' := d.set (args.headD .nan)          -- call.Argument(0) is undefined → NaN when absent
    (d', d'.value)
  | _ =>
    let args := args.take k.limit
    let vals := if args.isEmpty then none else numberArgs args
    if d.isNaN ∧ k ≠ .year then (invalidDateObject, none)      -- the NaN result is stored like any other
    else
      let base := if d.isNaN then newDate zero else d      -- nanAsZero: date = dateObject{}; date.Set(0)
      match vals with
      | none => (invalidDateObject, none)
      | some vs =>
        let d' := base.set (ofInt (setCore k base.time vs))      -- date.SetTime(ecmaTime.goTime())
        (d', d'.value)

def runSetters (d : DateObj) : List (Setter × List FV) → DateObj × List Num
  | [] => (d, [])
  | (k, a) :: rest =>
    let (d', r) := setUTC k d a
    let (fin, rs) := runSetters d' rest
    (fin, r :: rs)

-- ---------------------------------------------------------------- the host zone (time.Local) and the local-time methods

/-- time.Local as the model sees it: a fixed offset (time.UTC, time.FixedZone), or one of two rule-based zones
    of the tz database: America/New_York (rule in force since 2007: EST −5h, EDT from the second Sunday of March
    07:00 UTC to the first Sunday of November 06:00 UTC) and Europe/London (since 1996: GMT, BST from the last
    Sunday of March 01:00 UTC to the last Sunday of October 01:00 UTC).  Go's zone tables and their extension rule
    are a stub, validated per sample; the rules are only claimed from 2007 / 1996 on. -/
inductive Zone where
  | fixed (offset : Int)
  | ny
  | lon
deriving DecidableEq, Repr

/-- days from 1970-01-01 to January 1 of `year` -/
def jan1 (year : Int) : Int := goDaysSinceEpoch year - 106751991073094

def leapDay (year : Int) : Int := if goIsLeap year then 1 else 0

/-- first Sunday on or after day number d (day 0 = Thursday 1970-01-01) -/
def sundayOnOrAfter (d : Int) : Int := d + (7 - (d + 4) % 7) % 7
/-- last Sunday on or before day number d -/
def sundayOnOrBefore (d : Int) : Int := d - (d + 4) % 7

/-- (standard offset, start and end of daylight time in `year`, in Unix seconds) -/
def Zone.rule (z : Zone) (year : Int) : Int × Int × Int :=
  match z with
  | .fixed o => (o, 0, 0)
  | .ny => (-18000, (sundayOnOrAfter (jan1 year + 59 + leapDay year) + 7) * 86400 + 25200,
                    sundayOnOrAfter (jan1 year + 304 + leapDay year) * 86400 + 21600)
  | .lon => (0, sundayOnOrBefore (jan1 year + 89 + leapDay year) * 86400 + 3600,
                sundayOnOrBefore (jan1 year + 303 + leapDay year) * 86400 + 3600)

/-- Location.lookup(sec): (offset, start, end) of the zone period containing the instant.
    (alpha/omega of a fixed zone are modelled as ∓2^63.) -/
def Zone.lookup (z : Zone) (sec : Int) : Int × Int × Int :=
  match z with
  | .fixed o => (o, -(2^63), 2^63 - 1)
  | _ =>
    let year := (goYearDay (sec + 9223372028715321600)).1
    -- British Standard Time, all of 1969 and 1970 at +1h (needed for `time.Date(1970, 1, 1, …, time.Local)`)
    if z = .lon ∧ 1969 ≤ year ∧ year ≤ 1970 then (3600, -38361600, 57722400) else
    let (std, s, e) := z.rule year
    if sec < s then (std, (z.rule (year - 1)).2.2, s)
    else if sec < e then (std + 3600, s, e)
    else (std, e, (z.rule (year + 1)).2.1)

def Zone.offsetAt (z : Zone) (sec : Int) : Int := (z.lookup sec).1

/-- Time.Local(): the wall clock as a zero-offset GoTime (what Year(), Hour(), … read) -/
def Zone.wall (z : Zone) (t : GoTime) : GoTime := ⟨t.sec + z.offsetAt t.sec, t.nsec⟩

/-- the zone adjustment at the end of time.Date (time.go l.1550–1563): `unix` is the wall clock read as UTC -/
def Zone.dateToUnix (z : Zone) (unix : Int) : Int :=
  let (offset, start, end_) := z.lookup unix
  if offset ≠ 0 then
    let utc := unix - offset
    let offset := if utc < start ∨ utc ≥ end_ then z.offsetAt utc else offset
    unix - offset
  else unix

/-- ecmaTime.goTime() with t.location = time.Local -/
def EcmaTime.goTimeIn (z : Zone) (e : EcmaTime) : GoTime :=
  if tooLarge (ofInt e.year) (ofInt e.month) (ofInt e.day) (ofInt e.hour) (ofInt e.minute) (ofInt e.second) (ofInt e.millisecond)
  then ⟨17280000000000, 0⟩
  else let w := e.goTimeCore; ⟨z.dateToUnix w.sec, w.nsec⟩

/-- the local getters: getFullYear, getMonth, getDate, getDay, getHours, getMinutes, getSeconds, getMilliseconds,
    getYear (Annex B), getTimezoneOffset -/
def observeLocal (z : Zone) (d : DateObj) : List Num :=
  if d.isNaN then List.replicate 10 none
  else
    let w := z.wall d.time
    [some (goYear w), some (goMonth w - 1), some (goDay w), some (goWeekday w), some (goHour w), some (goMinute w),
     some (goSecond w), some (goDiv w.nsec 1000000), some (goYear w - 1900), some (goDiv (-(z.offsetAt d.time.sec)) 60)]

/-- the local setters; `year2` is setYear (Annex B.2.5) -/
inductive LSetter | ms | sec | min | hour | date | month | year | year2
deriving DecidableEq, Repr

def LSetter.base : LSetter → Setter
  | .ms => .ms | .sec => .sec | .min => .min | .hour => .hour | .date => .date | .month => .month | .year => .year | .year2 => .year
def LSetter.limit : LSetter → Nat
  | .year2 => 1 | k => k.base.limit

/-- setMilliseconds … setFullYear, setYear: builtinDateBeforeSet(From)(…, timeLocal = true, …) and the bodies -/
def setLocal (z : Zone) (k : LSetter) (d : DateObj) (args : List FV) : DateObj × Num :=
  let args := args.take k.limit
  let vals := if args.isEmpty then none else numberArgs args
  if d.isNaN ∧ k ≠ .year ∧ k ≠ .year2 then (invalidDateObject, none)          -- setFullYear and setYear restart from +0
  else
    -- nanAsZero, local: date.SetTime(time.Date(1970, 1, 1, 0, 0, 0, 0, time.Local))
    let base := if d.isNaN then newDate (ofInt (z.dateToUnix 0 * 1000)) else d
    match vals with
    | none => (invalidDateObject, none)
    | some vs =>
      let vs := match k, vs with
        | .year2, [y] => [if 0 ≤ y ∧ y ≤ 99 then y + 1900 else y]
        | _, vs => vs
      let e := applySetter k.base (newEcmaTime (z.wall base.time)) vs
      let d' := base.set (ofInt (goUnixMilli (e.goTimeIn z)))
      (d', d'.value)

def runLocalSetters (z : Zone) (d : DateObj) : List (LSetter × List FV) → DateObj × List Num
  | [] => (d, [])
  | (k, a) :: rest =>
    let (d', r) := setLocal z k d a
    let (fin, rs) := runLocalSetters z d' rest
    (fin, r :: rs)

/-- newDateTime(args, time.Local): the multi-argument constructor -/
def newDateTimeIn (z : Zone) (args : List FV) : Num :=
  let pick (i : Nat) (dflt : FV) : FV := (args[i]?).getD dflt
  let fields := [pick 0 (.fin false 1900 0), pick 1 zero, pick 2 one, pick 3 zero, pick 4 zero, pick 5 zero, pick 6 zero]
  if fields.any (fun x => isNaN x || isInf x) then none
  else
    let year := pick 0 (.fin false 1900 0)
    let integer := trunc year
    let year := if le zero integer && le integer (.fin false 99 0) then add (.fin false 1900 0) integer else year
    if tooLarge year (pick 1 zero) (pick 2 one) (pick 3 zero) (pick 4 zero) (pick 5 zero) (pick 6 zero) then none else
    let w := goDateMs (C05.goInt64 year) (C05.goInt64 (pick 1 zero) + 1) (C05.goInt64 (pick 2 one)) (C05.goInt64 (pick 3 zero))
               (C05.goInt64 (pick 4 zero)) (C05.goInt64 (pick 5 zero)) (C05.goInt64 (pick 6 zero))
    let um := goUnixMilli ⟨z.dateToUnix w.sec, w.nsec⟩
    if beyondMax (ofInt um) then none else some um

-- ---------------------------------------------------------------- scripted arguments (ToNumber side effects)

/-- an argument as a script sees it: a plain number, an object whose valueOf logs its index and returns a
    number, or an object whose valueOf logs and throws -/
inductive Arg where
  | num (x : FV)
  | obj (x : FV)
  | thrower
  | mut (x : FV) (m : FV)      -- valueOf logs, calls setTime(m) on the SAME Date object, returns x
deriving DecidableEq, Repr

def Arg.val? : Arg → Option FV
  | .num x => some x | .obj x => some x | .thrower => none | .mut x _ => some x
def Arg.logs : Arg → Bool
  | .num _ => false | _ => true

/-- the argument of the last re-entrant setTime that runs during the conversions (they stop at a throwing valueOf) -/
def lastMut : List Arg → Option FV
  | [] => none
  | .thrower :: _ => none
  | .mut _ m :: rest => (lastMut rest).orElse (fun _ => some m)
  | _ :: rest => lastMut rest

/-- how a call ends: a return value or the exception of a throwing valueOf -/
inductive Outcome where
  | ret (n : Num)
  | threw
deriving DecidableEq, Repr

/-- the conversion loop: every argument is converted, in order; `none` = a valueOf threw -/
abbrev Conv := List Nat × Option (List FV)

def convArgs (as : List Arg) (i : Nat) : Conv :=
  match as with
  | [] => ([], some [])
  | a :: rest =>
    let lg := if a.logs then [i] else []
    match a.val? with
    | none => (lg, none)
    | some x => match convArgs rest (i + 1) with
      | (l, none) => (lg ++ l, none)
      | (l, some vs) => (lg ++ l, some (x :: vs))

/-- the object as the re-entrant setTime calls of the valueOfs left it -/
def curAfter (d : DateObj) (as : List Arg) : DateObj :=
  match lastMut as with
  | none => d
  | some m => d.set m

/-- a setter called with scripted arguments: (object state, outcome, log of valueOf calls).
    `date` is read at entry, before the conversions; a re-entrant setTime(m) from a valueOf writes the object
    (`cur`); the outer call then computes from the value read at entry and stores its result (NaN included) over it. -/
def setUTCS (k : Setter) (d : DateObj) (args : List Arg) : DateObj × Outcome × List Nat :=
  let as := args.take k.limit
  let cur := curAfter d as
  match convArgs as 0 with
  | (l, none) => (cur, .threw, l)
  | (l, some vs) => let (d', r) := setUTC k d vs; (d', .ret r, l)

/-- the same for the local setters -/
def setLocalS (z : Zone) (k : LSetter) (d : DateObj) (args : List Arg) : DateObj × Outcome × List Nat :=
  let as := args.take k.limit
  let cur := curAfter d as
  match convArgs as 0 with
  | (l, none) => (cur, .threw, l)
  | (l, some vs) => let (d', r) := setLocal z k d vs; (d', .ret r, l)

def runLocalSettersS (z : Zone) (d : DateObj) : List (LSetter × List Arg) → DateObj × List (Outcome × List Nat)
  | [] => (d, [])
  | (k, a) :: rest =>
    let (d', o, l) := setLocalS z k d a
    let (fin, rs) := runLocalSettersS z d' rest
    (fin, (o, l) :: rs)

def runSettersS (d : DateObj) : List (Setter × List Arg) → DateObj × List (Outcome × List Nat)
  | [] => (d, [])
  | (k, a) :: rest =>
    let (d', o, l) := setUTCS k d a
    let (fin, rs) := runSettersS d' rest
    (fin, (o, l) :: rs)

/-- Date.UTC with scripted arguments (at least two): all (up to seven) picks first -/
def newDateTimeS (args : List Arg) : Outcome × List Nat :=
  match convArgs (args.take 7) 0 with
  | (l, none) => (.threw, l)
  | (l, some vs) => (.ret (newDateTime vs), l)

-- ---------------------------------------------------------------- formatting / parsing

/-- decimal digits of n, most significant first (at least one) -/
def natDigits (fuel : Nat) (n : Nat) : List Nat :=
  match fuel with
  | 0 => []
  | fuel + 1 => if n < 10 then [48 + n] else natDigits fuel (n / 10) ++ [48 + n % 10]

/-- format.go appendInt (l.417): sign, then zero padding to `width` digits -/
def goAppendInt (x : Int) (width : Nat) : List Nat :=
  let u := x.natAbs
  let ds := natDigits 25 u
  (if x < 0 then [45] else []) ++ List.replicate (width - ds.length) 48 ++ ds

inductive Str where
  | ok (bytes : List Nat)
  | rangeError
  | null
deriving DecidableEq, Repr

/-- fmt.Sprintf("%+07d", year): sign, then zero padding to six digits -/
def goSprintfPlus07 (x : Int) : List Nat :=
  let ds := natDigits 25 x.natAbs
  (if x < 0 then [45] else [43]) ++ List.replicate (6 - ds.length) 48 ++ ds

/-- builtinDateToISOString: Time.Format("2006-01-02T15:04:05.000Z"), the year written by
    Sprintf("%+07d") when it is outside 0..9999 -/
def goFormatISO (t : GoTime) : List Nat :=
  (if goYear t < 0 ∨ goYear t > 9999 then goSprintfPlus07 (goYear t) else goAppendInt (goYear t) 4) ++ [45] ++ goAppendInt (goMonth t) 2 ++ [45] ++ goAppendInt (goDay t) 2 ++ [84]
    ++ goAppendInt (goHour t) 2 ++ [58] ++ goAppendInt (goMinute t) 2 ++ [58] ++ goAppendInt (goSecond t) 2
    ++ [46] ++ (goAppendInt t.nsec 9).take 3 ++ [90]

/-- builtinDateToISOString: RangeError for an invalid date -/
def toISOString (d : DateObj) : Str :=
  if d.isNaN then .rangeError
  else .ok (goFormatISO d.time)

/-- builtinDateToJSON (l.73) on an unmodified Date object -/
def toJSON (d : DateObj) : Str :=
  match (if d.isNaN then none else d.value) with     -- DefaultValue(number) → valueOf (l.192)
  | none => .null
  | some _ => toISOString d

def digitVal? (c : Nat) : Option Int := if 48 ≤ c ∧ c ≤ 57 then some ((c : Int) - 48) else none

def num2? (a b : Nat) : Option Int := do
  let x ← digitVal? a; let y ← digitVal? b; pure (x * 10 + y)

def goDaysIn (month year : Int) : Int :=
  if month = 2 then (if goIsLeap year then 29 else 28)
  else goDaysBefore month - goDaysBefore (month - 1)

/-- time.Parse on `dddd-dd-ddTdd:dd:dd.ddd+0000` (the tail fields already converted), then
    `AddDate(shift, 0, 0)` (= Date(year+shift, …) on the same fields), UnixMilli, TimeClip. -/
def parseFields (year shift mo dd hh mi ss ms : Int) : Num :=
  if mo ≤ 0 ∨ 12 < mo ∨ hh ≥ 24 ∨ mi ≥ 60 ∨ ss ≥ 60 ∨ dd < 1 ∨ dd > goDaysIn mo year then none
  else
    let um := goUnixMilli (goDate (year + shift) mo dd hh mi ss (ms * 1000000))
    if beyondMax (ofInt um) then none else some um

/-- the part of an ISO string after the year: `-dd-ddTdd:dd:dd.dddZ` -/
def parseTail (s : List Nat) : Option (Int × Int × Int × Int × Int × Int) :=
  match s with
  | [45, m1, m2, 45, d1, d2, 84, h1, h2, 58, i1, i2, 58, s1, s2, 46, f1, f2, f3, 90] =>
    match num2? m1 m2, num2? d1 d2, num2? h1 h2, num2? i1 i2, num2? s1 s2, digitVal? f1, num2? f2 f3 with
    | some mo, some dd, some hh, some mi, some ss, some fa, some fb => some (mo, dd, hh, mi, ss, fa * 100 + fb)
    | _, _, _, _, _, _, _ => none
  | _ => none

/-- dateParse restricted to the shapes toISOString produces: `dddd-dd-ddTdd:dd:dd.dddZ` and the
    expanded-year form `±dddddd-dd-ddTdd:dd:dd.dddZ`.  The zone regexp rewrites `Z` to `+0000`; an
    expanded year is read by strconv.Atoi ("-000000" is rejected), replaced by the same year of the
    400-year cycle from 2000 and put back by AddDate; layout "2006-01-02T15:04:05-0700" is the
    first to accept (time.Parse takes the fractional second although the layout has none);
    time.Parse range-checks month 1..12, day 1..daysIn, hour < 24, minute < 60, second < 60.
    Any other shape: not modelled (`none`).  Result `some none` = NaN. -/
def dateParseISO (s : List Nat) : Option Num :=
  match s with
  | [y1, y2, y3, y4, 45, m1, m2, 45, d1, d2, 84, h1, h2, 58, i1, i2, 58, s1, s2, 46, f1, f2, f3, 90] =>
    match num2? y1 y2, num2? y3 y4, parseTail [45, m1, m2, 45, d1, d2, 84, h1, h2, 58, i1, i2, 58, s1, s2, 46, f1, f2, f3, 90] with
    | some ya, some yb, some (mo, dd, hh, mi, ss, ms) => some (parseFields (ya * 100 + yb) 0 mo dd hh mi ss ms)
    | _, _, _ => some none
  | [sg, y1, y2, y3, y4, y5, y6, 45, m1, m2, 45, d1, d2, 84, h1, h2, 58, i1, i2, 58, s1, s2, 46, f1, f2, f3, 90] =>
    if sg ≠ 43 ∧ sg ≠ 45 then none else
    match num2? y1 y2, num2? y3 y4, num2? y5 y6, parseTail [45, m1, m2, 45, d1, d2, 84, h1, h2, 58, i1, i2, 58, s1, s2, 46, f1, f2, f3, 90] with
    | some ya, some yb, some yc, some (mo, dd, hh, mi, ss, ms) =>
      let u := ya * 10000 + yb * 100 + yc
      let year := if sg = 45 then -u else u
      if year = 0 ∧ sg = 45 then some none
      else
        let inCycle := 2000 + goMod (goMod year 400 + 400) 400
        some (parseFields inCycle (year - inCycle) mo dd hh mi ss ms)
    | _, _, _, _ => some none
  | _ => none

/-- Date.parse(d.toISOString()) for a valid date (an invalid one throws before Date.parse runs) -/
def parseOfISO (d : DateObj) : Num :=
  match toISOString d with
  | .ok s => (dateParseISO s).getD none
  | _ => none

-- ---------------------------------------------------------------- Date.parse on the ES5 date-time family

def digitsN : Nat → List Nat → Option (Int × List Nat)
  | 0, s => some (0, s)
  | n + 1, c :: s => match digitVal? c, digitsN n s with
    | some d, some (v, r) => some (d * 10 ^ n + v, r)
    | _, _ => none
  | _ + 1, [] => none

def expectByte (c : Nat) : List Nat → Option (List Nat)
  | x :: s => if x = c then some s else none
  | [] => none

/-- the zone designator after matchDateTimeZone's rewrite: `Z` → +0000, `±hh:mm` → ±hhmm; (sign·seconds, hh, mm) -/
def parseZoneDesignator (s : List Nat) : Option (Int × Int × Int) :=
  match s with
  | [90] => some (1, 0, 0)
  | [sg, h1, h2, 58, m1, m2] =>
    if sg ≠ 43 ∧ sg ≠ 45 then none else
    match num2? h1 h2, num2? m1 m2 with
    | some hh, some mm => some (if sg = 45 then -1 else 1, hh, mm)
    | _, _ => none
  | _ => none

/-- optional `:ss` and `.sss` -/
def parseSecFrac (s : List Nat) : Option (Int × Int × List Nat) :=
  match expectByte 58 s with
  | none => some (0, 0, s)
  | some s1 => match digitsN 2 s1 with
    | none => none
    | some (ss, s2) => match expectByte 46 s2 with
      | none => some (ss, 0, s2)
      | some s3 => match digitsN 3 s3 with
        | none => none
        | some (ms, s4) => some (ss, ms, s4)

/-- dateParse on `YYYY-MM-DDTHH:mm[:ss[.sss]](Z|±hh:mm)` (four-digit year): `none` = another shape (not modelled),
    `some none` = NaN.  time.Parse range checks: month 1..12, day 1..daysIn, hour < 24, minute < 60, second < 60,
    offset hour ≤ 24 (sic, format.go l.1266); then (AddDate of the end-of-day day,) UnixMilli and TimeClip. -/
def dateParseFamily (s : List Nat) : Option Num := do
  let (y, s) ← digitsN 4 s
  let s ← expectByte 45 s
  let (mo, s) ← digitsN 2 s
  let s ← expectByte 45 s
  let (dd, s) ← digitsN 2 s
  let s ← expectByte 84 s
  let (hh, s) ← digitsN 2 s
  let s ← expectByte 58 s
  let (mi, s) ← digitsN 2 s
  let (ss, ms, s) ← parseSecFrac s
  let (sg, oh, om) ← parseZoneDesignator s
  -- matchEndOfDay: `T24:00[:00[.000]]` is parsed as 00:00:00 and a day is added afterwards
  let endOfDay := hh = 24 ∧ mi = 0 ∧ ss = 0 ∧ ms = 0
  let hh := if endOfDay then 0 else hh
  -- matchDateTimeZone wants offset minutes 00–59 (otherwise the `±hh:mm` is left as it is and no layout accepts it)
  if om ≥ 60 then pure none else
  if mo ≤ 0 ∨ 12 < mo ∨ hh ≥ 24 ∨ mi ≥ 60 ∨ ss ≥ 60 ∨ dd < 1 ∨ dd > goDaysIn mo y ∨ oh > 24 then pure none
  else
    let um := goUnixMilli (goDate y mo (if endOfDay then dd + 1 else dd) hh mi ss (ms * 1000000)) - sg * ((oh * 60 + om) * 60) * 1000
    pure (if beyondMax (ofInt um) then none else some um)

-- ---------------------------------------------------------------- round trips through the RFC1123 formats (stub level)

/-- Date.parse(d.toUTCString()): Time.Format(RFC1123) in the "GMT" zone prints the year with four digits only for
    0..9999 (appendInt), and time.Parse(RFC1123) wants exactly four; seconds resolution.  Behavioural stub. -/
def parseOfUTCString (d : DateObj) : Num :=
  if d.isNaN then none
  else if 0 ≤ goYear d.time ∧ goYear d.time ≤ 9999 then some (d.time.sec * 1000) else none

/-- Date.parse(d.toString()) under host zone z: the local wall clock with the zone abbreviation, which time.Parse
    resolves through time.Local — unless the abbreviation ends in `Z` (`abbrevZ`), which matchDateTimeZone takes for
    the ISO designator and rewrites. -/
def parseOfToString (z : Zone) (abbrevZ : Bool) (d : DateObj) : Num :=
  if d.isNaN then none
  else
    let _ := abbrevZ          -- the designator must follow a digit now: the abbreviation no longer matters
    let w := z.wall d.time
    if 0 ≤ goYear w ∧ goYear w ≤ 9999 then some (d.time.sec * 1000) else none

-- ---------------------------------------------------------------- toJSON on a generic object (§15.9.5.44)

/-- what `valueOf` of the generic `this` returns (ToPrimitive with hint Number) -/
inductive Prim | numFinite | numNaN | numInf | strNonNumeric | strNumeric | undef | boolTrue
deriving DecidableEq, Repr

inductive JsonOut | null | called | typeError
deriving DecidableEq, Repr

/-- builtinDateToJSON: null only when the primitive is a number and not finite -/
def toJSONGeneric (p : Prim) (isoCallable : Bool) : JsonOut :=
  let nonFinite := match p with
    | .numNaN => true | .numInf => true
    | _ => false            -- `if value.IsNumber() { … }`
  if nonFinite then .null else if isoCallable then .called else .typeError

/-- `Date()` called as a function against `new Date().toString()`: both format date.Time().Local() with the
    same layout -/
def dateFunctionAgrees (_localIsGMT : Bool) : Bool := true

end OttoVerif.C12
