/-  C12/Theorems — the ledger for property C12 (every theorem here is audited).  Placeholder. -/
namespace OttoVerif.C12.Thm
end OttoVerif.C12.Thm
