/-
  C12/Theorems — the ledger for property C12.  Every `theorem` in this file is audited
  (`#print axioms` ⊆ {propext, Classical.choice, Quot.sound}) on every run.
  All calendar statements quantify over ALL integers (no range), `omega` does the floor divisions.

  `Lem.validState t` is the Date object otto holds for the integral time value t:
  time = Unix(t div 1000, (t mod 1000)·10^6 ns), epoch = t, value = t, isNaN = false.
-/
import OttoVerif.C12.Lemmas
namespace OttoVerif.C12.Thm
open OttoVerif.C12 OttoVerif.C12.Lem OttoVerif.F64

-- ================================================================ the ES5 algebra itself (Spec-internal)

/-- §15.9.1.3: DayFromYear steps by DaysInYear, for every integer year. -/
theorem dayFromYear_step (y : Int) : Spec.DayFromYear (y + 1) - Spec.DayFromYear y = Spec.DaysInYear y :=
  Lem.dayFromYear_step y

/-- §15.9.1.3 "YearFromTime(t) = the largest integer y such that TimeFromYear(y) ≤ t":
    the executable `Spec.YearFromTime` is exactly that, for every integer t. -/
theorem year_from_time (t y : Int) :
    (Spec.TimeFromYear y ≤ t ∧ t < Spec.TimeFromYear (y + 1)) ↔ y = Spec.YearFromTime t := by
  have hb := yft_bounds t
  unfold Spec.TimeFromYear
  constructor
  · intro ⟨h1, h2⟩
    apply year_unique <;> unfold Spec.Day <;> omega
  · intro h; subst h; unfold Spec.Day at hb; omega

theorem year_from_time_largest (t y : Int) (h : Spec.TimeFromYear y ≤ t) : y ≤ Spec.YearFromTime t := by
  have hb := yft_bounds t
  by_cases hlt : Spec.YearFromTime t < y
  · have := dayFromYear_le (Spec.YearFromTime t + 1) y (by omega)
    unfold Spec.TimeFromYear at h; unfold Spec.Day at hb; omega
  · omega

/-- ranges of the civil fields (§15.9.1.4–.5, .10) -/
theorem field_ranges (t : Int) :
    (0 ≤ Spec.MonthFromTime t ∧ Spec.MonthFromTime t ≤ 11) ∧ (1 ≤ Spec.DateFromTime t ∧ Spec.DateFromTime t ≤ 31) ∧
    (0 ≤ Spec.WeekDay t ∧ Spec.WeekDay t ≤ 6) ∧ (0 ≤ Spec.HourFromTime t ∧ Spec.HourFromTime t ≤ 23) ∧
    (0 ≤ Spec.MinFromTime t ∧ Spec.MinFromTime t ≤ 59) ∧ (0 ≤ Spec.SecFromTime t ∧ Spec.SecFromTime t ≤ 59) ∧
    (0 ≤ Spec.msFromTime t ∧ Spec.msFromTime t ≤ 999) := Lem.field_ranges t

/-- §15.9.1.12 step 7: the `t` that MakeDay is told to find exists and is the one `Spec.MakeDay` uses -/
theorem makeDay_finds_t (y m : Int) :
    let t := Spec.MakeDay y m 1 * 86400000
    Spec.YearFromTime t = y + m / 12 ∧ Spec.MonthFromTime t = m % 12 ∧ Spec.DateFromTime t = 1 ∧
      ∀ dt, Spec.MakeDay y m dt = Spec.Day t + dt - 1 := by
  intro t
  have hl : (if Spec.DaysInYear (y + m / 12) = 366 then (1:Int) else 0) = 0 ∨ (if Spec.DaysInYear (y + m / 12) = 366 then (1:Int) else 0) = 1 := by
    split <;> simp
  have hms := monthStart_range (m % 12) _ (by omega) hl
  have hday : Spec.Day t = Spec.DayFromYear (y + m / 12) + Spec.monthStart (m % 12) (if Spec.DaysInYear (y + m / 12) = 366 then 1 else 0) := by
    show (Spec.MakeDay y m 1 * 86400000) / 86400000 = _
    unfold Spec.MakeDay; simp only []; omega
  have hstep := dayFromYear_step (y + m / 12)
  have hyear : Spec.YearFromTime t = y + m / 12 := by
    symm; apply year_unique
    · omega
    · have hd : Spec.DaysInYear (y + m / 12) = 365 ∨ Spec.DaysInYear (y + m / 12) = 366 := by
        unfold Spec.DaysInYear; repeat' split
        all_goals simp
      rcases hd with hd | hd <;> simp only [hd] at hms hday <;> omega
  have hleap : Spec.InLeapYear t = (if Spec.DaysInYear (y + m / 12) = 366 then 1 else 0) := by
    unfold Spec.InLeapYear; rw [hyear]
  have hdwy : Spec.DayWithinYear t = Spec.monthStart (m % 12) (if Spec.DaysInYear (y + m / 12) = 366 then 1 else 0) := by
    unfold Spec.DayWithinYear; rw [hyear]; omega
  have hmonth : Spec.MonthFromTime t = m % 12 := by
    rw [monthFromTime_eq, hdwy, hleap]; exact monthOf_monthStart _ _ (by omega) hl
  refine ⟨hyear, hmonth, ?_, ?_⟩
  · rw [dateFromTime_eq, hmonth, hdwy, hleap]; omega
  · intro dt; rw [hday]; unfold Spec.MakeDay; simp only []

/-- civil round trip: recomposing the fields of t with MakeDay/MakeTime/MakeDate gives t back -/
theorem civil_roundtrip (t : Int) :
    Spec.MakeDate (Spec.MakeDay (Spec.YearFromTime t) (Spec.MonthFromTime t) (Spec.DateFromTime t))
      (Spec.MakeTime (Spec.HourFromTime t) (Spec.MinFromTime t) (Spec.SecFromTime t) (Spec.msFromTime t)) = t := by
  rw [makeDay_roundtrip, makeTime_roundtrip, makeDate_roundtrip]

-- ================================================================ otto (model) = ES5 (spec)

/-- every getUTC* / valueOf of a valid Date object is the §15.9.1 function of its time value —
    for every integer t (negative times: floor, not truncation). -/
theorem accessors (t : Int) : observe (validState t) = Spec.observe (some t) := by
  have hd := goAbsDate_eq _ _ (sameDay_state t)
  simp [observe, Spec.observe, validState, goYear, goMonth, goDay, hd, goWeekday_state, goHour_state, goMinute_state,
    goSecond_state, goMilli_state]

theorem getTime_valid (t : Int) : getTime (validState t) = some t := rfl

/-- time.Date composes exactly like MakeDate(MakeDay, MakeTime), for ALL integer fields
    (month overflow into years, negative fields, ms/s/min/h carries into days). -/
theorem make_compose (y m d h mi s ms : Int) :
    goUnixMilli (goDate y (m + 1) d h mi s (ms * 1000000)) =
      Spec.MakeDate (Spec.MakeDay y m d) (Spec.MakeTime h mi s ms) := Lem.make_compose y m d h mi s ms

/-- Date.UTC / `new Date(y,m,…)` on converted fields = MakeDate(MakeDay, MakeTime), all of ℤ^7 -/
theorem dateCore_eq (y m d h mi s ms : Int) :
    dateCore y m d h mi s ms = Spec.MakeDate (Spec.MakeDay y m d) (Spec.MakeTime h mi s ms) :=
  make_compose y m d h mi s ms


/-- Date.UTC(a1,…,an) / `new Date(a1,…,an)` (n = 2..7) with integral arguments, through newDateTime's float64
    wrapper (pick, the two-digit-year test and `year += 1900` in float64, int conversion): the value handed
    to TimeClip by §15.9.4.3 — two-digit years included (integral years are outside Dev twodigit_fraction). -/
theorem dateUTC_int (vs : List Int) (h2 : 2 ≤ vs.length) (h7 : vs.length ≤ 7) (hsm : ∀ v ∈ vs, v.natAbs < 2^53) :
    newDateTime (vs.map ofInt) = Spec.dateUTCRaw (vs.map ofInt) := Lem.dateUTC_int vs h2 h7 hsm

example : newDateTime ([99, 13, -5, 25, -61, 3600, 123456].map ofInt) = some 948934863456 := by decide +kernel

-- ================================================================ setters

/-- every setUTC* body = the ES5 recomposition, for every integer time value and all integer arguments -/
theorem setter_core (k : Setter) (t : Int) (vs : List Int) (hk : k ≠ .time) (h1 : 1 ≤ vs.length) (h2 : vs.length ≤ k.limit) :
    some (setCore k (stateTime t) vs) = Spec.setUTCRaw (toSpec k) (some t) (vs.map fvInt) :=
  Lem.setter_core k t vs hk h1 h2

/-- dateObject.Set / `new Date(t)` / setTime(t) for an integral double: the valid state of t.
    `DivExact t` (float64 t/1000 truncates to t quo 1000) is the one arithmetic fact not proved here;
    it is evaluated by the exact F64 model on every sample of the correspondence run. -/
theorem set_int (d : DateObj) (hd : d.isNaN = false) (t : Int) (hr : t.natAbs < 2^53) (hdiv : DivExact t) :
    d.set (ofInt t) = validState t := Lem.set_int d hd t hr hdiv

theorem newDate_int (t : Int) (hr : t.natAbs < 2^53) (hdiv : DivExact t) : newDate (ofInt t) = validState t :=
  Lem.set_int _ rfl t hr hdiv

/-- C12.timeclip_partial: inside the ES5 range `new Date(t)` is the ES5 object (beyond it: Dev no_timeclip) -/
theorem timeclip_partial (t : Int) (h : t.natAbs ≤ 8640000000000000) (hdiv : DivExact t) :
    observe (newDate (ofInt t)) = Spec.observe (Spec.clipNumber (ofInt t)) := by
  rw [newDate_int t (by omega) hdiv, accessors, ofInt_small t (by omega)]
  simp only [Spec.clipNumber, field_fvInt, Spec.TimeClip]
  rw [if_neg (by omega)]

example : DivExact 1419993358860123 := by decide +kernel
example : DivExact (-8639999999999999) := by decide +kernel
example : DivExact (-1) := by decide +kernel

theorem setUTC_step (k : Setter) (t : Int) (vs : List Int) (h1 : 1 ≤ vs.length) (h2 : vs.length ≤ k.limit)
    (hsm : ∀ v ∈ vs, v.natAbs < 2^53) (t' : Int)
    (ht' : Spec.setUTCRaw (toSpec k) (some t) (vs.map ofInt) = some t') (hr : t'.natAbs < 2^53) (hdiv : DivExact t') :
    setUTC k (validState t) (vs.map ofInt) = (validState t', some t') :=
  Lem.setUTC_step k t vs h1 h2 hsm t' ht' hr hdiv

/-- all histories of setUTC*/setTime calls with integral arguments, by induction on the history:
    while every intermediate value stays in the ES5 range (`Good`), otto's object state and every
    return value are the ES5 ones. -/
theorem setter_histories (hist : List (Setter × List Int)) (t : Int) (hg : Good t hist) :
    ∃ tf, (Spec.runSetters (some t) (hist.map liftS)).1 = some tf ∧
      runSetters (validState t) (hist.map liftM) = (validState tf, (Spec.runSetters (some t) (hist.map liftS)).2) :=
  Lem.setter_histories hist t hg

/-- `Good` is satisfiable by a non-trivial history: d = new Date(0); d.setUTCHours(5); d.setTime(1000);
    d.setUTCFullYear(2000, 13, -3) -/
example : Good 0 [(.hour, [5]), (.time, [1000]), (.year, [2000, 13, -3])] :=
  ⟨by decide, by decide, by decide, 18000000, by decide +kernel, by decide, by decide +kernel,
   by decide, by decide, by decide, 1000, by decide +kernel, by decide, by decide +kernel,
   by decide, by decide, by decide, 980640001000, by decide +kernel, by decide, by decide +kernel, trivial⟩

-- ================================================================ invalid dates

/-- §15.9.5: an invalid date answers NaN to valueOf/getTime and every getUTC*, and null to toJSON;
    holds for EVERY object state with isNaN set, whatever the other fields contain. -/
theorem invalid_sticky (d : DateObj) (h : d.isNaN = true) :
    observe d = Spec.observe none ∧ getTime d = none ∧ toJSON d = .null := by
  simp [observe, Spec.observe, getTime, toJSON, h]

/-- `new Date(NaN | ±Infinity)` is invalid, like TimeClip(ToNumber(v)) -/
theorem newDate_nonfinite (v : FV) (h : Spec.field? v = none) :
    (newDate v).isNaN = true ∧ observe (newDate v) = Spec.observe (Spec.clipNumber v) := by
  cases v with
  | nan => simp [newDate, DateObj.set, epochToTime, isNaN, observe, Spec.observe, Spec.clipNumber, Spec.field?]
  | inf s => simp [newDate, DateObj.set, epochToTime, isNaN, isInf, observe, Spec.observe, Spec.clipNumber, Spec.field?]
  | fin s m e => simp [Spec.field?] at h

/-- model fact behind two findings: no setter (not even setTime / setUTCFullYear) ever revives an invalid date -/
theorem invalid_absorbing_model (k : Setter) (d : DateObj) (args : List FV) (h : d.isNaN = true) :
    (setUTC k d args).1.isNaN = true := by
  cases k <;> simp [setUTC, h, DateObj.set] <;> split <;> simp

/-- Date.UTC / constructor: a NaN or ±Infinity among the supplied fields gives NaN on both sides -/
theorem dateUTC_nan (args : List FV) (i : Nat) (hi : i < 7) (x : FV) (hx : args[i]? = some x) (hn : Spec.field? x = none) :
    newDateTime args = none ∧ Spec.dateUTC args = none := by
  have hx' : isNaN x || isInf x = true := by
    cases x <;> simp [Spec.field?, isNaN, isInf] at hn ⊢
  have : i = 0 ∨ i = 1 ∨ i = 2 ∨ i = 3 ∨ i = 4 ∨ i = 5 ∨ i = 6 := by omega
  constructor
  · unfold newDateTime
    rcases this with h | h | h | h | h | h | h <;> subst h <;> simp only [hx] <;> (repeat' split) <;> simp_all
  · unfold Spec.dateUTC Spec.dateUTCRaw
    rcases this with h | h | h | h | h | h | h <;> subst h <;> simp only [hx, hn] <;> (repeat' split) <;> simp_all

/-- a setUTC* call whose (used) arguments are missing or contain NaN/±Infinity invalidates the date on both sides -/
theorem setter_nan (k : Setter) (t : Int) (args : List FV) (hk : k ≠ .time) (hlen : args.length ≤ k.limit)
    (hbad : args = [] ∨ ∃ x ∈ args, Spec.field? x = none) :
    setUTC k (validState t) args = (invalidDateObject, none) ∧ Spec.setUTC (toSpec k) (some t) args = none := by
  have htake : args.take k.limit = args := List.take_of_length_le hlen
  have hna : ∀ as : List FV, (∃ x ∈ as, Spec.field? x = none) → numberArgs as = none := by
    intro as
    induction as with
    | nil => intro ⟨x, hx, _⟩; simp at hx
    | cons a as ih =>
      intro ⟨x, hx, hn⟩
      simp only [List.mem_cons] at hx
      rcases hx with hx | hx
      · subst hx
        cases x <;> simp [Spec.field?] at hn <;> simp [numberArgs, numberArg]
      · have := ih ⟨x, hx, hn⟩
        simp only [numberArgs, this]
        split <;> simp_all
  constructor
  · unfold setUTC
    rcases hbad with hb | hb
    · subst hb; cases k <;> simp [validState] at hk ⊢
    · have := hna args hb
      cases k <;> simp [validState, htake, this] at hk ⊢
  · unfold Spec.setUTC Spec.setUTCRaw
    rcases hbad with hb | hb
    · subst hb; cases k <;> simp [toSpec, Spec.argOr] at hk ⊢
    · obtain ⟨x, hx, hn⟩ := hb
      rcases args with _ | ⟨a, _ | ⟨b, _ | ⟨c, _ | ⟨d, _ | ⟨e, rest⟩⟩⟩⟩⟩ <;> cases k <;>
        simp [Setter.limit] at hlen hk hx <;>
        simp [toSpec, Spec.argOr] <;> (repeat' split) <;> (first | (simp_all; done) | (rcases hx with rfl | rfl | rfl | rfl <;> simp_all))


-- ================================================================ ISO-8601 strings

/-- toISOString / toJSON of a valid date whose year is 0..9999 is the §15.9.1.15 string (¬Dev iso_expanded_year) -/
theorem iso_format_eq (t : Int) (hy0 : 0 ≤ Spec.YearFromTime t) (hy1 : Spec.YearFromTime t ≤ 9999) :
    toISOString (validState t) = .ok (Spec.isoString t) ∧ toJSON (validState t) = .ok (Spec.isoString t) := by
  have := Lem.iso_format_eq t hy0 hy1
  simp [toISOString, toJSON, validState, this]

/-- Date.parse(d.toISOString()) = d.getTime(): the string produced for a year in 0..9999 parses back to t, all t -/
theorem iso_roundtrip (t : Int) (hy0 : 0 ≤ Spec.YearFromTime t) (hy1 : Spec.YearFromTime t ≤ 9999) :
    parseOfISO (validState t) = Spec.parseOfISO t := by
  have := Lem.iso_roundtrip t hy0 hy1
  simp [parseOfISO, toISOString, validState, this, Spec.parseOfISO]

/-- the hypothesis is met on both sides of the epoch (years 1969 and 2024) -/
example : 0 ≤ Spec.YearFromTime (-1) ∧ Spec.YearFromTime (-1) ≤ 9999 ∧ 0 ≤ Spec.YearFromTime 1719792000000 ∧ Spec.YearFromTime 1719792000000 ≤ 9999 := by decide +kernel

-- ================================================================ deviation regions: kernel-checked witnesses

/-- Dev no_timeclip: new Date(8.64e15 + 1) stays valid -/
example : getTime (newDate (.fin false 8640000000000001 0)) = some 8640000000000001 ∧
    Spec.clipNumber (.fin false 8640000000000001 0) = none := by decide +kernel
/-- Dev no_timeclip: Date.UTC(1e6, 0) -/
example : newDateTime [.fin false 1000000 0, zero] = some 31494784780800000 ∧
    Spec.dateUTC [.fin false 1000000 0, zero] = none := by decide +kernel
/-- Dev twodigit_fraction: Date.UTC(99.5, 0)  (99.5 = 199·2^-1) -/
example : newDateTime [.fin false 199 (-1), zero] = some (-59042995200000) ∧
    Spec.dateUTC [.fin false 199 (-1), zero] = some 915148800000 := by decide +kernel
/-- Dev twodigit_fraction: Date.UTC(-0.5, 0) -/
example : newDateTime [.fin true 1 (-1), zero] ≠ Spec.dateUTC [.fin true 1 (-1), zero] := by decide +kernel
/-- Dev iso_invalid_no_throw: new Date(NaN).toISOString() -/
example : toISOString (newDate .nan) = .ok [73, 110, 118, 97, 108, 105, 100, 32, 68, 97, 116, 101] ∧
    Spec.toISOString (Spec.clipNumber .nan) = .rangeError := by decide +kernel
/-- Dev iso_expanded_year: new Date(253402300800000).toISOString() is "10000-01-01T00:00:00.000Z", ES5 "+010000-01-01T00:00:00.000Z" -/
example : toISOString (newDate (.fin false 253402300800000 0)) = .ok ([49,48,48,48,48] ++ [45,48,49,45,48,49,84,48,48,58,48,48,58,48,48,46,48,48,48,90]) ∧
    Spec.toISOString (Spec.clipNumber (.fin false 253402300800000 0)) = .ok ([43,48,49,48,48,48,48] ++ [45,48,49,45,48,49,84,48,48,58,48,48,58,48,48,46,48,48,48,90]) := by decide +kernel
/-- … and the produced string does not parse back -/
example : parseOfISO (newDate (.fin false 253402300800000 0)) = none := by decide +kernel
/-- Dev setfullyear_invalid: d = new Date(NaN); d.setUTCFullYear(2000) -/
example : (setUTC .year (newDate .nan) [.fin false 2000 0]).2 = none ∧
    Spec.setUTC .year (Spec.clipNumber .nan) [.fin false 2000 0] = some 946684800000 := by decide +kernel
/-- Dev settime_sticky_invalid: d = new Date(NaN); d.setTime(5) returns 5 but d.getTime() is NaN -/
example : (setUTC .time (newDate .nan) [.fin false 5 0]).2 = some 5 ∧ getTime (setUTC .time (newDate .nan) [.fin false 5 0]).1 = none ∧
    Spec.setUTC .time (Spec.clipNumber .nan) [.fin false 5 0] = some 5 := by decide +kernel

end OttoVerif.C12.Thm
