/-
  C12/Theorems — the ledger for property C12.  Every `theorem` in this file is audited
  (`#print axioms` ⊆ {propext, Classical.choice, Quot.sound}) on every run.
  All calendar statements quantify over ALL integers (no range), `omega` does the floor divisions.

  `Lem.validState t` is the Date object otto holds for the integral time value t:
  time = Unix(t div 1000, (t mod 1000)·10^6 ns), epoch = t, value = t, isNaN = false;
  `Lem.stateOf tv` extends it to NaN (= invalidDateObject).  There is no deviation region left.
-/
import OttoVerif.C12.Lemmas
namespace OttoVerif.C12.Thm
open OttoVerif.C12 OttoVerif.C12.Lem OttoVerif.F64

-- ================================================================ the ES5 algebra itself (Spec-internal)

/-- §15.9.1.3: DayFromYear steps by DaysInYear, for every integer year. -/
theorem dayFromYear_step (y : Int) : Spec.DayFromYear (y + 1) - Spec.DayFromYear y = Spec.DaysInYear y :=
  Lem.dayFromYear_step y

/-- §15.9.1.3 "YearFromTime(t) = the largest integer y such that TimeFromYear(y) ≤ t":
    the executable `Spec.YearFromTime` is exactly that, for every integer t. -/
theorem year_from_time (t y : Int) :
    (Spec.TimeFromYear y ≤ t ∧ t < Spec.TimeFromYear (y + 1)) ↔ y = Spec.YearFromTime t := by
  have hb := yft_bounds t
  unfold Spec.TimeFromYear
  constructor
  · intro ⟨h1, h2⟩
    apply year_unique <;> unfold Spec.Day <;> omega
  · intro h; subst h; unfold Spec.Day at hb; omega

theorem year_from_time_largest (t y : Int) (h : Spec.TimeFromYear y ≤ t) : y ≤ Spec.YearFromTime t := by
  have hb := yft_bounds t
  by_cases hlt : Spec.YearFromTime t < y
  · have := dayFromYear_le (Spec.YearFromTime t + 1) y (by omega)
    unfold Spec.TimeFromYear at h; unfold Spec.Day at hb; omega
  · omega

/-- ranges of the civil fields (§15.9.1.4–.5, .10) -/
theorem field_ranges (t : Int) :
    (0 ≤ Spec.MonthFromTime t ∧ Spec.MonthFromTime t ≤ 11) ∧ (1 ≤ Spec.DateFromTime t ∧ Spec.DateFromTime t ≤ 31) ∧
    (0 ≤ Spec.WeekDay t ∧ Spec.WeekDay t ≤ 6) ∧ (0 ≤ Spec.HourFromTime t ∧ Spec.HourFromTime t ≤ 23) ∧
    (0 ≤ Spec.MinFromTime t ∧ Spec.MinFromTime t ≤ 59) ∧ (0 ≤ Spec.SecFromTime t ∧ Spec.SecFromTime t ≤ 59) ∧
    (0 ≤ Spec.msFromTime t ∧ Spec.msFromTime t ≤ 999) := Lem.field_ranges t

/-- §15.9.1.12 step 7: the `t` that MakeDay is told to find exists and is the one `Spec.MakeDay` uses -/
theorem makeDay_finds_t (y m : Int) :
    let t := Spec.MakeDay y m 1 * 86400000
    Spec.YearFromTime t = y + m / 12 ∧ Spec.MonthFromTime t = m % 12 ∧ Spec.DateFromTime t = 1 ∧
      ∀ dt, Spec.MakeDay y m dt = Spec.Day t + dt - 1 := by
  intro t
  have hl : (if Spec.DaysInYear (y + m / 12) = 366 then (1:Int) else 0) = 0 ∨ (if Spec.DaysInYear (y + m / 12) = 366 then (1:Int) else 0) = 1 := by
    split <;> simp
  have hms := monthStart_range (m % 12) _ (by omega) hl
  have hday : Spec.Day t = Spec.DayFromYear (y + m / 12) + Spec.monthStart (m % 12) (if Spec.DaysInYear (y + m / 12) = 366 then 1 else 0) := by
    show (Spec.MakeDay y m 1 * 86400000) / 86400000 = _
    unfold Spec.MakeDay; simp only []; omega
  have hstep := dayFromYear_step (y + m / 12)
  have hyear : Spec.YearFromTime t = y + m / 12 := by
    symm; apply year_unique
    · omega
    · have hd : Spec.DaysInYear (y + m / 12) = 365 ∨ Spec.DaysInYear (y + m / 12) = 366 := by
        unfold Spec.DaysInYear; repeat' split
        all_goals simp
      rcases hd with hd | hd <;> simp only [hd] at hms hday <;> omega
  have hleap : Spec.InLeapYear t = (if Spec.DaysInYear (y + m / 12) = 366 then 1 else 0) := by
    unfold Spec.InLeapYear; rw [hyear]
  have hdwy : Spec.DayWithinYear t = Spec.monthStart (m % 12) (if Spec.DaysInYear (y + m / 12) = 366 then 1 else 0) := by
    unfold Spec.DayWithinYear; rw [hyear]; omega
  have hmonth : Spec.MonthFromTime t = m % 12 := by
    rw [monthFromTime_eq, hdwy, hleap]; exact monthOf_monthStart _ _ (by omega) hl
  refine ⟨hyear, hmonth, ?_, ?_⟩
  · rw [dateFromTime_eq, hmonth, hdwy, hleap]; omega
  · intro dt; rw [hday]; unfold Spec.MakeDay; simp only []

/-- civil round trip: recomposing the fields of t with MakeDay/MakeTime/MakeDate gives t back -/
theorem civil_roundtrip (t : Int) :
    Spec.MakeDate (Spec.MakeDay (Spec.YearFromTime t) (Spec.MonthFromTime t) (Spec.DateFromTime t))
      (Spec.MakeTime (Spec.HourFromTime t) (Spec.MinFromTime t) (Spec.SecFromTime t) (Spec.msFromTime t)) = t := by
  rw [makeDay_roundtrip, makeTime_roundtrip, makeDate_roundtrip]

-- ================================================================ otto (model) = ES5 (spec)

/-- every getUTC* / valueOf of a valid Date object is the §15.9.1 function of its time value —
    for every integer t (negative times: floor, not truncation). -/
theorem accessors (t : Int) : observe (validState t) = Spec.observe (some t) := by
  have hd := goAbsDate_eq _ _ (sameDay_state t)
  simp [observe, Spec.observe, validState, goYear, goMonth, goDay, hd, goWeekday_state, goHour_state, goMinute_state,
    goSecond_state, goMilli_state]

theorem getTime_valid (t : Int) : getTime (validState t) = some t := rfl

/-- time.Date composes exactly like MakeDate(MakeDay, MakeTime), for ALL integer fields
    (month overflow into years, negative fields, ms/s/min/h carries into days). -/
theorem make_compose (y m d h mi s ms : Int) :
    goUnixMilli (goDate y (m + 1) d h mi s (ms * 1000000)) =
      Spec.MakeDate (Spec.MakeDay y m d) (Spec.MakeTime h mi s ms) := Lem.make_compose y m d h mi s ms

/-- Date.UTC / `new Date(y,m,…)` on converted fields = MakeDate(MakeDay, MakeTime), all of ℤ^7
    (milliseconds enter time.Date as seconds + ms quo 1000 and (ms rem 1000)·10^6 ns) -/
theorem dateCore_eq (y m d h mi s ms : Int) :
    dateCore y m d h mi s ms = Spec.MakeDate (Spec.MakeDay y m d) (Spec.MakeTime h mi s ms) :=
  Lem.make_compose_ms y m d h mi s ms

/-- Date.UTC(a1,…,an) / `new Date(a1,…,an)` (n = 2..7) with integral arguments, through newDateTime's float64
    wrapper (all picks, the two-digit-year test on the truncated year, the too-large guard, int conversion,
    TimeClip on float64(ms)): NaN when a field by itself spans more than 1e9 days (`utcHuge`), otherwise exactly
    §15.9.4.3, for every result however large. -/
theorem dateUTC_int (vs : List Int) (h2 : 2 ≤ vs.length) (h7 : vs.length ≤ 7) (hsm : ∀ v ∈ vs, v.natAbs < 2^53) :
    newDateTime (vs.map ofInt) = if utcHuge vs then none else Spec.dateUTC (vs.map ofInt) := Lem.dateUTC_int vs h2 h7 hsm

example : newDateTime ([99, 13, -5, 25, -61, 3600, 123456].map ofInt) = some 948934863456 := by decide +kernel
/-- fractional two-digit years, TimeClip, a legitimate 1e13 ms field and a field beyond every integer type:
    Date.UTC(99.5, 0), Date.UTC(-0.5, 0), Date.UTC(1e6, 0), Date.UTC(2000,0,1,0,0,0,1e13), Date.UTC(2^1000, 0) -/
example : newDateTime [.fin false 199 (-1), zero] = some 915148800000 ∧ Spec.dateUTC [.fin false 199 (-1), zero] = some 915148800000 ∧
    newDateTime [.fin true 1 (-1), zero] = Spec.dateUTC [.fin true 1 (-1), zero] ∧
    newDateTime [.fin false 1000000 0, zero] = none ∧ Spec.dateUTC [.fin false 1000000 0, zero] = none ∧
    newDateTime [.fin false 2000 0, zero, one, zero, zero, zero, .fin false 10000000000000 0] = some 10946684800000 ∧
    newDateTime [.fin false 1 1000, zero] = none ∧ Spec.dateUTC [.fin false 1 1000, zero] = none := by decide +kernel

/-- `math.Abs(float64(i)) > 8.64e15` decides TimeClip for EVERY integer i (also where float64(i) rounds) -/
theorem timeclip_test (i : Int) : beyondMax (ofInt i) = decide (i.natAbs > 8640000000000000) := Lem.beyondMax_ofInt i

/-- dateFieldsTooLarge on integral doubles is the integer test -/
theorem tooLarge_int (y m d h mi s ms : Int) :
    tooLarge (fvInt y) (fvInt m) (fvInt d) (fvInt h) (fvInt mi) (fvInt s) (fvInt ms) = hugeInt y m d h mi s ms :=
  Lem.tooLarge_fvInt y m d h mi s ms

-- ================================================================ setters

/-- every setUTC* body (before its too-large guard) = the ES5 recomposition, for every integer time value and all
    integer arguments -/
theorem setter_core (k : Setter) (t : Int) (vs : List Int) (hk : k ≠ .time) (h1 : 1 ≤ vs.length) (h2 : vs.length ≤ k.limit) :
    some (setCoreU k (stateTime t) vs) = Spec.setUTCRaw (toSpec k) (some t) (vs.map fvInt) :=
  Lem.setter_core k t vs hk h1 h2

/-- dateObject.Set(float64(t)) / `new Date(t)` / setTime(t) for ANY integer t and ANY previous state:
    the object of TimeClip(t) — valid inside ±8.64e15, invalid beyond.
    `DivExact t` (float64 t/1000 truncates to t quo 1000) is the one arithmetic fact not proved here; it is only
    needed inside the range and is evaluated by the exact F64 model on every sample of the correspondence run. -/
theorem set_ofInt (d : DateObj) (t : Int) (hdiv : t.natAbs ≤ 8640000000000000 → DivExact t) :
    d.set (ofInt t) = stateOf (Spec.TimeClip t) := Lem.set_ofInt d t hdiv

/-- C12.timeclip: `new Date(t)` observes exactly like the ES5 object of TimeClip(ToNumber(t)), |t| < 2^53 -/
theorem timeclip (t : Int) (h53 : t.natAbs < 2^53) (hdiv : t.natAbs ≤ 8640000000000000 → DivExact t) :
    observe (newDate (ofInt t)) = Spec.observe (Spec.clipNumber (ofInt t)) := by
  have hs : newDate (ofInt t) = stateOf (Spec.TimeClip t) := Lem.set_ofInt _ t hdiv
  rw [hs, ofInt_small t h53]
  simp only [Spec.clipNumber, field_fvInt]
  cases hc : Spec.TimeClip t with
  | none => rfl
  | some t' =>
    have : t' = t := by
      unfold Spec.TimeClip at hc; split at hc <;> simp at hc; omega
    subst this
    exact accessors t'

example : DivExact 1419993358860123 := by decide +kernel
example : DivExact (-8639999999999999) := by decide +kernel
example : DivExact (-1) := by decide +kernel

/-- one call of any of the eight setters (setTime included) with 1..limit integral arguments, from ANY state
    (valid or invalid): the new object and the return value are the ES5 ones, TimeClip included — except in
    Dev `huge_field_cancel` (the too-large guard trips although the exact recomposition is in range). -/
theorem setUTC_step (k : Setter) (tv : Spec.TV) (hok : TVok tv) (vs : List Int) (h1 : 1 ≤ vs.length) (h2 : vs.length ≤ k.limit)
    (hsm : ∀ v ∈ vs, v.natAbs < 2^53)
    (hdiv : ∀ t', Spec.setUTCRaw (toSpec k) tv (vs.map ofInt) = some t' → t'.natAbs ≤ 8640000000000000 → DivExact t')
    (hnc : ¬ (setterHuge k (tv.getD 0) vs = true ∧ (Spec.setUTC (toSpec k) tv (vs.map ofInt)).isSome = true)) :
    setUTC k (stateOf tv) (vs.map ofInt) =
      (stateOf (Spec.setUTC (toSpec k) tv (vs.map ofInt)), Spec.setUTC (toSpec k) tv (vs.map ofInt)) :=
  Lem.setUTC_step k tv hok vs h1 h2 hsm hdiv hnc

/-- all histories of setUTC*/setTime calls with integral arguments, by induction on the history, from any
    state: otto's object state and every return value are the ES5 ones (values leaving ±8.64e15 become NaN on
    both sides; setTime / setUTCFullYear revive an invalid date on both sides). -/
theorem setter_histories (hist : List (Setter × List Int)) (tv : Spec.TV) (hok : TVok tv) (hg : Good tv hist) :
    runSetters (stateOf tv) (hist.map liftM) =
      (stateOf (Spec.runSetters tv (hist.map liftS)).1, (Spec.runSetters tv (hist.map liftS)).2) :=
  Lem.setter_histories hist tv hok hg

/-- `Good` is satisfiable by a history that leaves the range, is revived by setUTCFullYear and by setTime:
    d = new Date(8.64e15); d.setUTCMilliseconds(1) (→ NaN); d.setUTCFullYear(2000, 13, -3); d.setTime(1000) -/
example : Good (some 8640000000000000) [(.ms, [1]), (.year, [2000, 13, -3]), (.time, [1000])] :=
  ⟨by decide, by decide, by decide, fun t' h hr => by
      have : t' = 8640000000000001 := by
        have e : Spec.setUTCRaw (toSpec .ms) (some 8640000000000000) ([1].map ofInt) = some 8640000000000001 := by decide +kernel
        rw [e] at h; injection h with h; exact h.symm
      subst this; omega,
   by decide +kernel,
   by decide, by decide, by decide, fun t' h _ => by
      have e : Spec.setUTCRaw (toSpec .year) (Spec.setUTC (toSpec .ms) (some 8640000000000000) ([1].map ofInt)) ([2000, 13, -3].map ofInt) = some 980640000000 := by decide +kernel
      rw [e] at h; injection h with h; subst h; decide +kernel,
   by decide +kernel,
   by decide, by decide, by decide, fun t' h _ => by
      have e : Spec.setUTCRaw (toSpec .time) (Spec.setUTC (toSpec .year) (Spec.setUTC (toSpec .ms) (some 8640000000000000) ([1].map ofInt)) ([2000, 13, -3].map ofInt)) ([1000].map ofInt) = some 1000 := by decide +kernel
      rw [e] at h; injection h with h; subst h; decide +kernel,
   by decide +kernel,
   trivial⟩

/-- a field too large for any integer type: d = new Date(0); d.setUTCDate(2^1000) invalidates the date on both sides -/
example : setUTC .date (newDate zero) [.fin false 1 1000] = (invalidDateObject, none) ∧
    Spec.setUTC .date (some 0) [.fin false 1 1000] = none := by decide +kernel

-- ================================================================ invalid dates

/-- §15.9.5: an invalid date answers NaN to valueOf/getTime and every getUTC*, null to toJSON, and toISOString
    throws RangeError (§15.9.5.43); holds for EVERY object state with isNaN set, whatever the other fields contain. -/
theorem invalid_sticky (d : DateObj) (h : d.isNaN = true) :
    observe d = Spec.observe none ∧ getTime d = none ∧ toJSON d = .null ∧ toISOString d = .rangeError := by
  simp [observe, Spec.observe, getTime, toJSON, toISOString, h]

/-- `new Date(NaN | ±Infinity)` is invalid, like TimeClip(ToNumber(v)) -/
theorem newDate_nonfinite (v : FV) (h : Spec.field? v = none) :
    newDate v = invalidDateObject ∧ observe (newDate v) = Spec.observe (Spec.clipNumber v) := by
  have hs : newDate v = invalidDateObject := Lem.set_nonfinite _ v h
  refine ⟨hs, ?_⟩
  rw [hs]; simp [Spec.clipNumber, h, observe, invalidDateObject, Spec.observe]

/-- Date.UTC / constructor: a NaN or ±Infinity among the supplied fields gives NaN on both sides -/
theorem dateUTC_nan (args : List FV) (i : Nat) (hi : i < 7) (x : FV) (hx : args[i]? = some x) (hn : Spec.field? x = none) :
    newDateTime args = none ∧ Spec.dateUTC args = none := by
  have hx' : isNaN x || isInf x = true := by
    cases x <;> simp [Spec.field?, isNaN, isInf] at hn ⊢
  have : i = 0 ∨ i = 1 ∨ i = 2 ∨ i = 3 ∨ i = 4 ∨ i = 5 ∨ i = 6 := by omega
  constructor
  · unfold newDateTime
    rcases this with h | h | h | h | h | h | h <;> subst h <;> simp only [hx] <;> (repeat' split) <;> simp_all
  · unfold Spec.dateUTC Spec.dateUTCRaw
    rcases this with h | h | h | h | h | h | h <;> subst h <;> simp only [hx, hn] <;> (repeat' split) <;> simp_all

/-- a setUTC* call whose (used) arguments are missing or contain NaN/±Infinity invalidates the date on both sides -/
theorem setter_nan (k : Setter) (t : Int) (args : List FV) (hk : k ≠ .time) (hlen : args.length ≤ k.limit)
    (hbad : args = [] ∨ ∃ x ∈ args, Spec.field? x = none) :
    setUTC k (validState t) args = (invalidDateObject, none) ∧ Spec.setUTC (toSpec k) (some t) args = none := by
  have htake : args.take k.limit = args := List.take_of_length_le hlen
  have hna : ∀ as : List FV, (∃ x ∈ as, Spec.field? x = none) → numberArgs as = none := by
    intro as
    induction as with
    | nil => intro ⟨x, hx, _⟩; simp at hx
    | cons a as ih =>
      intro ⟨x, hx, hn⟩
      simp only [List.mem_cons] at hx
      rcases hx with hx | hx
      · subst hx
        cases x <;> simp [Spec.field?] at hn <;> simp [numberArgs, numberArg]
      · have := ih ⟨x, hx, hn⟩
        simp only [numberArgs, this]
        split <;> simp_all
  constructor
  · unfold setUTC
    rcases hbad with hb | hb
    · subst hb; cases k <;> simp [validState] at hk ⊢
    · have := hna args hb
      cases k <;> simp [validState, htake, this] at hk ⊢
  · unfold Spec.setUTC Spec.setUTCRaw
    rcases hbad with hb | hb
    · subst hb; cases k <;> simp [toSpec, Spec.argOr] at hk ⊢
    · obtain ⟨x, hx, hn⟩ := hb
      rcases args with _ | ⟨a, _ | ⟨b, _ | ⟨c, _ | ⟨d, _ | ⟨e, rest⟩⟩⟩⟩⟩ <;> cases k <;>
        simp [Setter.limit] at hlen hk hx <;>
        simp [toSpec, Spec.argOr] <;> (repeat' split) <;> (first | (simp_all; done) | (rcases hx with rfl | rfl | rfl | rfl <;> simp_all))



-- ================================================================ ISO-8601 strings

/-- toISOString / toJSON of every valid date in the ES5 range is the §15.9.1.15 string — four-digit years and
    the expanded ±YYYYYY form of §15.9.1.15.1 alike. -/
theorem iso_format_eq (t : Int) (h : t.natAbs ≤ 8640000000000000) :
    toISOString (validState t) = .ok (Spec.isoString t) ∧ toJSON (validState t) = .ok (Spec.isoString t) := by
  have hy := Lem.year_bound t h
  have := Lem.iso_format_eq t (by omega)
  simp [toISOString, toJSON, validState, this]

/-- Date.parse(d.toISOString()) = d.getTime() for EVERY valid date in the ES5 range -/
theorem iso_roundtrip (t : Int) (h : t.natAbs ≤ 8640000000000000) :
    parseOfISO (validState t) = Spec.parseOfISO t := by
  have := Lem.iso_roundtrip t h
  simp [parseOfISO, toISOString, validState, this, Spec.parseOfISO]

/-- new Date(253402300800000).toISOString() = "+010000-01-01T00:00:00.000Z", and it parses back -/
example : toISOString (newDate (.fin false 253402300800000 0)) = .ok ([43,48,49,48,48,48,48] ++ [45,48,49,45,48,49,84,48,48,58,48,48,58,48,48,46,48,48,48,90]) ∧
    parseOfISO (newDate (.fin false 253402300800000 0)) = some 253402300800000 := by decide +kernel

-- ================================================================ scripted arguments (ToNumber side effects)

/-- ToNumber is applied to the same arguments, in the same order, with the same valueOf log, as §15.9.5.27–.41 say
    (every argument up to the arity, whatever the state of the date and whatever earlier arguments were) -/
theorem scripted_conversions (k : Setter) (as : List Arg) :
    convArgs (as.take k.limit) 0 = Spec.convAll ((as.map toSpecArg).take (toSpec k).arity) 0 :=
  Lem.scripted_conversions k as

/-- a throwing valueOf: same log, the exception propagates on both sides, and the object is what the re-entrant
    setTime calls of earlier valueOfs left (the outer call has written nothing) -/
theorem scripted_throw (k : Setter) (d : DateObj) (tv : Spec.TV) (as : List Arg) (l : List Nat)
    (h : Spec.convAll ((as.map toSpecArg).take (toSpec k).arity) 0 = (l, none)) :
    setUTCS k d as = (curAfter d (as.take k.limit), .threw, l) ∧
    Spec.setUTCS (toSpec k) tv (as.map toSpecArg) = (Spec.curAfter tv ((as.map toSpecArg).take (toSpec k).arity), .threw, l) :=
  Lem.scripted_throw k d tv as l h

/-- the re-entrant setTime calls are the same on both sides -/
theorem scripted_reentry (k : Setter) (as : List Arg) :
    lastMut (as.take k.limit) = Spec.lastMut ((as.map toSpecArg).take (toSpec k).arity) := Lem.curM_curS k as

/-- no exception: same log, and both sides continue with the unscripted call (`setUTC_step`) on the same numbers,
    computed from the time value read at ENTRY — §15.9.5.27–.41 step 1 comes before the conversions, a valueOf that
    re-enters setTime on the same Date does not change t — and stored (a NaN result too) over whatever the
    re-entrant calls wrote. -/
theorem scripted_values (k : Setter) (d : DateObj) (tv : Spec.TV) (as : List Arg) (l : List Nat) (vs : List FV)
    (h : Spec.convAll ((as.map toSpecArg).take (toSpec k).arity) 0 = (l, some vs)) :
    setUTCS k d as = ((setUTC k d vs).1, .ret (setUTC k d vs).2, l) ∧
    Spec.setUTCS (toSpec k) tv (as.map toSpecArg) = (Spec.setUTC (toSpec k) tv vs, .ret (Spec.setUTC (toSpec k) tv vs), l) :=
  Lem.scripted_values k d tv as l vs h

/-- Date.UTC / constructor: the first seven arguments are all converted, in order -/
theorem scripted_utc (as : List Arg) (l : List Nat) (r : Option (List FV))
    (h : Spec.convAll ((as.map toSpecArg).take 7) 0 = (l, r)) :
    (newDateTimeS as).2 = l ∧ (Spec.dateUTCS (as.map toSpecArg)).2 = l ∧
    (r = none → (newDateTimeS as).1 = .threw ∧ (Spec.dateUTCS (as.map toSpecArg)).1 = .threw) ∧
    (∀ vs, r = some vs → (newDateTimeS as).1 = .ret (newDateTime vs) ∧ (Spec.dateUTCS (as.map toSpecArg)).1 = .ret (Spec.dateUTC vs)) :=
  Lem.scripted_utc as l r h

/-- the three situations that used to differ: conversions on an invalid date, after a NaN, and a throwing valueOf
    under setUTCFullYear on an invalid date -/
example : (setUTCS .hour (newDate .nan) [.obj one]).2.2 = [0] ∧ (setUTCS .hour (newDate zero) [.num .nan, .obj one]).2.2 = [1] ∧
    (newDateTimeS [.num (.fin false 2000 0), .num .nan, .obj one]).2 = [2] ∧
    getTime (setUTCS .year (newDate .nan) [.thrower]).1 = none := by decide +kernel

-- ================================================================ deviation region: kernel-checked witness

/-- Dev huge_field_cancel: Date.UTC(2500001, 0, -900000000): the year trips the too-large guard (otto NaN), the exact
    recomposition is the valid time value 1070244316800000 -/
example : newDateTime [.fin false 2500001 0, zero, .fin true 900000000 0] = none ∧
    Spec.dateUTC [.fin false 2500001 0, zero, .fin true 900000000 0] = some 1070244316800000 := by decide +kernel

-- ================================================================ the host zone; Annex B; Date.parse; toJSON on generic objects

/-- The UTC entry points of the model — `newDate`, `observe`, `getTime`, `setUTC`, `setUTCS`, `newDateTime`, `toISOString`,
    `toJSON`, `parseOfISO` — take no `Zone` argument, so nothing proved about them can depend on time.Local; the requests
    that exercise them are interpreted after the zone token is dropped (`Driver.handleUTC`).  What does depend on the zone
    is modelled separately (`observeLocal z`, `setLocal z`, `newDateTimeIn z`), and for a zero offset it coincides: -/
theorem local_zero_is_utc (k : LSetter) (hk : k ≠ .year2) (d : DateObj) (args : List FV) :
    setLocal (.fixed 0) k d args = setUTC k.base d args := Lem.local_zero_is_utc k hk d args

/-- §15.9.1.7–.9 under any fixed whole-minute offset: the local getters, getYear and getTimezoneOffset are the §15.9.1
    functions of LocalTime(t), for every integer t -/
theorem local_getters_fixed (o t : Int) (ho : o % 60 = 0) :
    observeLocal (.fixed o) (validState t) = Spec.observeLocal (.fixed o) (some t) := Lem.local_getters_fixed o t ho

/-- … every local setter body is "split LocalTime(t), recompose, UTC(·)", for every integer t, offset and arguments -/
theorem local_setter_core_fixed (o : Int) (k : Setter) (t : Int) (vs : List Int) (hk : k ≠ .time)
    (h1 : 1 ≤ vs.length) (h2 : vs.length ≤ k.limit) :
    let w := (applySetter k (newEcmaTime (Zone.wall (.fixed o) (stateTime t))) vs).goTimeCore
    some (goUnixMilli ⟨Zone.dateToUnix (.fixed o) w.sec, w.nsec⟩) =
      (Spec.setUTCRaw (toSpec k) (some (Spec.LocalTime (.fixed o) t)) (vs.map fvInt)).map (Spec.UTC (.fixed o)) :=
  Lem.local_setter_core_fixed o k t vs hk h1 h2

/-- … and the multi-argument constructor is UTC(MakeDate(MakeDay, MakeTime)) on ℤ^7 -/
theorem local_ctor_core_fixed (o y m d h mi s ms : Int) :
    let w := goDateMs y (m + 1) d h mi s ms
    goUnixMilli ⟨Zone.dateToUnix (.fixed o) w.sec, w.nsec⟩ =
      Spec.UTC (.fixed o) (Spec.MakeDate (Spec.MakeDay y m d) (Spec.MakeTime h mi s ms)) :=
  Lem.local_ctor_core_fixed o y m d h mi s ms

/-- B.2.5: d = new Date(NaN); d.setYear(99) is 1999-01-01T00:00 local, on both sides -/
example : (setLocal (.fixed 0) .year2 (newDate .nan) [.fin false 99 0]).2 = some 915148800000 ∧
    Spec.setLocal (.fixed 0) .year2 none [.fin false 99 0] = some 915148800000 := by decide +kernel
/-- Dev local_transition_hour: Europe/London, new Date(2015, 2, 29, 1, 30) (the hour skipped on 29 March 2015) -/
example : newDateTimeIn .lon [.fin false 2015 0, .fin false 2 0, .fin false 29 0, one, .fin false 30 0] = some 1427592600000 ∧
    Spec.dateLocal .eu1996 [.fin false 2015 0, .fin false 2 0, .fin false 29 0, one, .fin false 30 0] = some 1427589000000 := by decide +kernel
/-- … and America/New_York, new Date(2015, 10, 1, 1, 30) (the hour repeated on 1 November 2015): Go takes the first (EDT) reading -/
example : newDateTimeIn .ny [.fin false 2015 0, .fin false 10 0, one, one, .fin false 30 0] = some 1446355800000 ∧
    Spec.dateLocal .us2007 [.fin false 2015 0, .fin false 10 0, one, one, .fin false 30 0] = some 1446359400000 := by decide +kernel
/-- outside the transition hour both daylight rules agree with Go's zone tables as modelled: 2015-07-01T12:00 local -/
example : newDateTimeIn .ny [.fin false 2015 0, .fin false 6 0, one, .fin false 12 0] = Spec.dateLocal .us2007 [.fin false 2015 0, .fin false 6 0, one, .fin false 12 0] ∧
    newDateTimeIn .lon [.fin false 2015 0, .fin false 6 0, one, .fin false 12 0] = Spec.dateLocal .eu1996 [.fin false 2015 0, .fin false 6 0, one, .fin false 12 0] := by decide +kernel
/-- Dev rfc1123_year_range: Date.parse(new Date(253402300800000).toUTCString()) -/
example : parseOfUTCString (newDate (.fin false 253402300800000 0)) = none ∧ Spec.parseOfUTCString (some 253402300800000) = some 253402300800000 := by decide +kernel
/-- toJSON on a generic object is §15.9.5.44 for every kind of primitive value and both kinds of toISOString
    (finite domain, exhaustive) -/
theorem toJSON_generic (c : Bool) :
    toJSONGeneric .numFinite c = (match Spec.toJSONGeneric .numFinite c with | .null => .null | .called => .called | .typeError => .typeError) ∧
    (∀ p sp, (p, sp) ∈ [(Prim.numFinite, Spec.Prim.numFinite), (.numNaN, .numNaN), (.numInf, .numInf), (.strNonNumeric, .strNonNumeric),
        (.strNumeric, .strNumeric), (.undef, .undef), (.boolTrue, .boolTrue)] →
      (toJSONGeneric p c = .null ↔ Spec.toJSONGeneric sp c = .null) ∧ (toJSONGeneric p c = .called ↔ Spec.toJSONGeneric sp c = .called) ∧
      (toJSONGeneric p c = .typeError ↔ Spec.toJSONGeneric sp c = .typeError)) := by
  constructor
  · cases c <;> rfl
  · intro p sp h
    simp only [List.mem_cons, List.mem_nil_iff, or_false, Prod.mk.injEq] at h
    rcases h with ⟨rfl, rfl⟩ | ⟨rfl, rfl⟩ | ⟨rfl, rfl⟩ | ⟨rfl, rfl⟩ | ⟨rfl, rfl⟩ | ⟨rfl, rfl⟩ | ⟨rfl, rfl⟩ <;> cases c <;> decide
/-- Date.parse("2000-01-01T24:00:00Z") = 946771200000 and Date.parse("2000-01-01T00:00+00:60") = NaN on both sides -/
example : dateParseFamily [50,48,48,48,45,48,49,45,48,49,84,50,52,58,48,48,58,48,48,90] = some (some 946771200000) ∧
    Spec.parseFields 2000 1 1 24 0 0 0 1 0 0 = some 946771200000 ∧
    dateParseFamily [50,48,48,48,45,48,49,45,48,49,84,48,48,58,48,48,43,48,48,58,54,48] = some none ∧
    Spec.parseFields 2000 1 1 0 0 0 0 1 0 60 = none := by decide +kernel

/-- re-entrant valueOf: d = new Date(0); d.setUTCMinutes({valueOf(){ d.setTime(86400000); return 5 }}) is 300000 on both
    sides (t is read at entry) -/
example : getTime (setUTCS .min (newDate zero) [.mut (.fin false 5 0) (.fin false 86400000 0)]).1 = some 300000 ∧
    (Spec.setUTCS .min (some 0) [.mut (.fin false 5 0) (.fin false 86400000 0)]).1 = some 300000 := by decide +kernel
/-- d = new Date(NaN); d.setUTCSeconds({valueOf(){ d.setTime(0); return 7 }}) returns NaN and leaves the date invalid,
    on both sides -/
example : (setUTCS .sec (newDate .nan) [.mut (.fin false 7 0) zero]).2.1 = .ret none ∧
    getTime (setUTCS .sec (newDate .nan) [.mut (.fin false 7 0) zero]).1 = none ∧
    (Spec.setUTCS .sec none [.mut (.fin false 7 0) zero]).1 = none := by decide +kernel

end OttoVerif.C12.Thm
