/-  C12/Theorems — the ledger for property C12 (every theorem here is audited). -/
import OttoVerif.C12.Spec
import OttoVerif.C12.Model
namespace OttoVerif.C12.Thm
open OttoVerif.C12

theorem dayFromYear_step (y : Int) : Spec.DayFromYear (y + 1) - Spec.DayFromYear y = Spec.DaysInYear y := by
  unfold Spec.DayFromYear Spec.DaysInYear
  split <;> (try split) <;> (try split) <;> omega

end OttoVerif.C12.Thm
