/-
  C12/Theorems — the ledger for property C12.  Every `theorem` in this file is audited
  (`#print axioms` ⊆ {propext, Classical.choice, Quot.sound}) on every run.
  All calendar statements quantify over ALL integers (no range), `omega` does the floor divisions.

  `Lem.validState t` is the Date object otto holds for the integral time value t:
  time = Unix(t div 1000, (t mod 1000)·10^6 ns), epoch = t, value = t, isNaN = false.
-/
import OttoVerif.C12.Lemmas
namespace OttoVerif.C12.Thm
open OttoVerif.C12 OttoVerif.C12.Lem OttoVerif.F64

-- ================================================================ the ES5 algebra itself (Spec-internal)

/-- §15.9.1.3: DayFromYear steps by DaysInYear, for every integer year. -/
theorem dayFromYear_step (y : Int) : Spec.DayFromYear (y + 1) - Spec.DayFromYear y = Spec.DaysInYear y :=
  Lem.dayFromYear_step y

/-- §15.9.1.3 "YearFromTime(t) = the largest integer y such that TimeFromYear(y) ≤ t":
    the executable `Spec.YearFromTime` is exactly that, for every integer t. -/
theorem year_from_time (t y : Int) :
    (Spec.TimeFromYear y ≤ t ∧ t < Spec.TimeFromYear (y + 1)) ↔ y = Spec.YearFromTime t := by
  have hb := yft_bounds t
  unfold Spec.TimeFromYear
  constructor
  · intro ⟨h1, h2⟩
    apply year_unique <;> unfold Spec.Day <;> omega
  · intro h; subst h; unfold Spec.Day at hb; omega

theorem year_from_time_largest (t y : Int) (h : Spec.TimeFromYear y ≤ t) : y ≤ Spec.YearFromTime t := by
  have hb := yft_bounds t
  by_cases hlt : Spec.YearFromTime t < y
  · have := dayFromYear_le (Spec.YearFromTime t + 1) y (by omega)
    unfold Spec.TimeFromYear at h; unfold Spec.Day at hb; omega
  · omega

/-- ranges of the civil fields (§15.9.1.4–.5, .10) -/
theorem field_ranges (t : Int) :
    (0 ≤ Spec.MonthFromTime t ∧ Spec.MonthFromTime t ≤ 11) ∧ (1 ≤ Spec.DateFromTime t ∧ Spec.DateFromTime t ≤ 31) ∧
    (0 ≤ Spec.WeekDay t ∧ Spec.WeekDay t ≤ 6) ∧ (0 ≤ Spec.HourFromTime t ∧ Spec.HourFromTime t ≤ 23) ∧
    (0 ≤ Spec.MinFromTime t ∧ Spec.MinFromTime t ≤ 59) ∧ (0 ≤ Spec.SecFromTime t ∧ Spec.SecFromTime t ≤ 59) ∧
    (0 ≤ Spec.msFromTime t ∧ Spec.msFromTime t ≤ 999) := by
  have hm := monthFromTime_range t
  have hr := dayWithinYear_range t
  have hl := inLeapYear_01 t
  refine ⟨hm, ?_, ?_, ?_, ?_, ?_, ?_⟩
  · rw [dateFromTime_eq]
    have hmo : Spec.MonthFromTime t = monthOf (Spec.DayWithinYear t) (Spec.InLeapYear t) := rfl
    generalize Spec.MonthFromTime t = m at *
    generalize Spec.DayWithinYear t = d at *
    generalize Spec.InLeapYear t = l at *
    subst hmo
    unfold monthOf
    repeat' split
    all_goals (simp only [Spec.monthStart]; omega)
  all_goals (simp only [Spec.WeekDay, Spec.HourFromTime, Spec.MinFromTime, Spec.SecFromTime, Spec.msFromTime]; omega)

/-- §15.9.1.12 step 7: the `t` that MakeDay is told to find exists and is the one `Spec.MakeDay` uses -/
theorem makeDay_finds_t (y m : Int) :
    let t := Spec.MakeDay y m 1 * 86400000
    Spec.YearFromTime t = y + m / 12 ∧ Spec.MonthFromTime t = m % 12 ∧ Spec.DateFromTime t = 1 ∧
      ∀ dt, Spec.MakeDay y m dt = Spec.Day t + dt - 1 := by
  intro t
  have hl : (if Spec.DaysInYear (y + m / 12) = 366 then (1:Int) else 0) = 0 ∨ (if Spec.DaysInYear (y + m / 12) = 366 then (1:Int) else 0) = 1 := by
    split <;> simp
  have hms := monthStart_range (m % 12) _ (by omega) hl
  have hday : Spec.Day t = Spec.DayFromYear (y + m / 12) + Spec.monthStart (m % 12) (if Spec.DaysInYear (y + m / 12) = 366 then 1 else 0) := by
    show (Spec.MakeDay y m 1 * 86400000) / 86400000 = _
    unfold Spec.MakeDay; simp only []; omega
  have hstep := dayFromYear_step (y + m / 12)
  have hyear : Spec.YearFromTime t = y + m / 12 := by
    symm; apply year_unique
    · omega
    · have hd : Spec.DaysInYear (y + m / 12) = 365 ∨ Spec.DaysInYear (y + m / 12) = 366 := by
        unfold Spec.DaysInYear; repeat' split
        all_goals simp
      rcases hd with hd | hd <;> simp only [hd] at hms hday <;> omega
  have hleap : Spec.InLeapYear t = (if Spec.DaysInYear (y + m / 12) = 366 then 1 else 0) := by
    unfold Spec.InLeapYear; rw [hyear]
  have hdwy : Spec.DayWithinYear t = Spec.monthStart (m % 12) (if Spec.DaysInYear (y + m / 12) = 366 then 1 else 0) := by
    unfold Spec.DayWithinYear; rw [hyear]; omega
  have hmonth : Spec.MonthFromTime t = m % 12 := by
    rw [monthFromTime_eq, hdwy, hleap]; exact monthOf_monthStart _ _ (by omega) hl
  refine ⟨hyear, hmonth, ?_, ?_⟩
  · rw [dateFromTime_eq, hmonth, hdwy, hleap]; omega
  · intro dt; rw [hday]; unfold Spec.MakeDay; simp only []

/-- civil round trip: recomposing the fields of t with MakeDay/MakeTime/MakeDate gives t back -/
theorem civil_roundtrip (t : Int) :
    Spec.MakeDate (Spec.MakeDay (Spec.YearFromTime t) (Spec.MonthFromTime t) (Spec.DateFromTime t))
      (Spec.MakeTime (Spec.HourFromTime t) (Spec.MinFromTime t) (Spec.SecFromTime t) (Spec.msFromTime t)) = t := by
  rw [makeDay_roundtrip, makeTime_roundtrip, makeDate_roundtrip]

-- ================================================================ otto (model) = ES5 (spec)

/-- every getUTC* / valueOf of a valid Date object is the §15.9.1 function of its time value —
    for every integer t (negative times: floor, not truncation). -/
theorem accessors (t : Int) : observe (validState t) = Spec.observe (some t) := by
  have hd := goAbsDate_eq _ _ (sameDay_state t)
  simp [observe, Spec.observe, validState, goYear, goMonth, goDay, hd, goWeekday_state, goHour_state, goMinute_state,
    goSecond_state, goMilli_state]

theorem getTime_valid (t : Int) : getTime (validState t) = some t := rfl

/-- time.Date composes exactly like MakeDate(MakeDay, MakeTime), for ALL integer fields -/
theorem make_compose (y m d h mi s ms : Int) :
    goUnixMilli (goDate y (m + 1) d h mi s (ms * 1000000)) =
      Spec.MakeDate (Spec.MakeDay y m d) (Spec.MakeTime h mi s ms) := by
  unfold goDate
  simp only [goNorm12, goNorm60, goNorm24, goNorm1e9, Int.add_sub_cancel]
  have hb := daysBefore_monthStart (m % 12) (y + m / 12) (by omega)
  unfold goUnixMilli Spec.MakeDate Spec.MakeDay Spec.MakeTime absToUnix goDiv
  simp only [goDaysSinceEpoch_eq]
  simp only [Int.add_sub_cancel] at hb
  generalize Spec.monthStart (m % 12) (if Spec.DaysInYear (y + m / 12) = 366 then 1 else 0) = MS at *
  generalize Spec.DayFromYear (y + m / 12) = DY at *
  have e1 : ms * 1000000 / 1000000000 = ms / 1000 := by omega
  have e2 : ms * 1000000 % 1000000000 / 1000000 = ms % 1000 := by omega
  have e3 : ms * 1000000 % 1000000000 ≥ 0 := by omega
  rw [if_pos e3, e1, e2]
  generalize goDaysBefore (m % 12) = GB at *
  split at hb <;> rename_i hc
  · simp only [hc, if_true]; omega
  · simp only [hc, Bool.false_eq_true, if_false]; omega

/-- Date.UTC / `new Date(y,m,…)` on converted fields = MakeDate(MakeDay, MakeTime), all of ℤ^7 -/
theorem dateCore_eq (y m d h mi s ms : Int) :
    dateCore y m d h mi s ms = Spec.MakeDate (Spec.MakeDay y m d) (Spec.MakeTime h mi s ms) :=
  make_compose y m d h mi s ms

end OttoVerif.C12.Thm
