/-
  C12/Lemmas — calendar arithmetic shared by the ledger: ES5 year/month/date functions versus
  Go's absDate / daysSinceEpoch / Date normalisation, all over unbounded integers.
-/
import OttoVerif.C12.Spec
import OttoVerif.C12.Model
namespace OttoVerif.C12.Lem
open OttoVerif.C12

section Cal
open OttoVerif.C12.Spec

-- ---------------------------------------------------------------- ES5 side

theorem dayFromYear_step (y : Int) : DayFromYear (y + 1) - DayFromYear y = DaysInYear y := by
  unfold DayFromYear DaysInYear
  split <;> (try split) <;> (try split) <;> omega

theorem dayFromYear_lt (y y' : Int) (h : y < y') : DayFromYear y < DayFromYear y' := by
  unfold DayFromYear; omega

theorem dayFromYear_le (y y' : Int) (h : y ≤ y') : DayFromYear y ≤ DayFromYear y' := by
  unfold DayFromYear; omega

theorem dfy_era (e k : Int) : DayFromYear (2000 + 400 * e + k) =
    10957 + 146097 * e + (365 * k + (k + 3) / 4 - (k + 99) / 100 + (k + 399) / 400) := by
  unfold DayFromYear; omega

theorem yft_bounds (t : Int) : DayFromYear (YearFromTime t) ≤ Day t ∧ Day t < DayFromYear (YearFromTime t + 1) := by
  have key : ∀ r : Int, 0 ≤ r → r < 146097 → ∀ k', k' = (if 365 * (r / 365) + (r / 365 + 3) / 4 - (r / 365 + 99) / 100 + (r / 365 + 399) / 400 > r then r / 365 - 1 else r / 365) →
      365 * k' + (k' + 3) / 4 - (k' + 99) / 100 + (k' + 399) / 400 ≤ r ∧
      r < 365 * (k' + 1) + (k' + 1 + 3) / 4 - (k' + 1 + 99) / 100 + (k' + 1 + 399) / 400 := by
    intro r h0 h1 k' hk
    split at hk
    · subst hk; simp only [Int.sub_add_cancel]; omega
    · subst hk; omega
  have hb := key ((Day t - 10957) % 146097) (by omega) (by omega) _ rfl
  have e1 : YearFromTime t = 2000 + 400 * ((Day t - 10957) / 146097) + (if 365 * ((Day t - 10957) % 146097 / 365) + ((Day t - 10957) % 146097 / 365 + 3) / 4 - ((Day t - 10957) % 146097 / 365 + 99) / 100 + ((Day t - 10957) % 146097 / 365 + 399) / 400 > (Day t - 10957) % 146097 then (Day t - 10957) % 146097 / 365 - 1 else (Day t - 10957) % 146097 / 365) := by
    unfold YearFromTime; simp only []
  generalize (if 365 * ((Day t - 10957) % 146097 / 365) + ((Day t - 10957) % 146097 / 365 + 3) / 4 - ((Day t - 10957) % 146097 / 365 + 99) / 100 + ((Day t - 10957) % 146097 / 365 + 399) / 400 > (Day t - 10957) % 146097 then (Day t - 10957) % 146097 / 365 - 1 else (Day t - 10957) % 146097 / 365) = k' at *
  rw [e1, show 2000 + 400 * ((Day t - 10957) / 146097) + k' + 1 = 2000 + 400 * ((Day t - 10957) / 146097) + (k' + 1) by omega, dfy_era, dfy_era]
  omega

theorem year_unique (t y : Int) (h1 : DayFromYear y ≤ Day t) (h2 : Day t < DayFromYear (y + 1)) : y = YearFromTime t := by
  have hb := yft_bounds t
  rcases Int.lt_trichotomy y (YearFromTime t) with h | h | h
  · have := dayFromYear_le (y + 1) (YearFromTime t) (by omega)
    omega
  · exact h
  · have := dayFromYear_le (YearFromTime t + 1) y (by omega)
    omega

theorem inLeapYear_01 (t : Int) : InLeapYear t = 0 ∨ InLeapYear t = 1 := by
  unfold InLeapYear; split <;> simp

theorem dayWithinYear_range (t : Int) : 0 ≤ DayWithinYear t ∧ DayWithinYear t < 365 + InLeapYear t := by
  have hb := yft_bounds t
  have hs := dayFromYear_step (YearFromTime t)
  unfold DayWithinYear InLeapYear
  unfold DaysInYear at *
  repeat' split
  all_goals (first | omega | (split at hs <;> omega) | (split at hs <;> split at hs <;> omega) | (split at hs <;> split at hs <;> split at hs <;> omega))

/-- ES5 month table as a pure function of (day within year, leap flag) -/
def monthOf (d l : Int) : Int :=
  if d < 31 then 0 else if d < 59 + l then 1 else if d < 90 + l then 2 else if d < 120 + l then 3
  else if d < 151 + l then 4 else if d < 181 + l then 5 else if d < 212 + l then 6 else if d < 243 + l then 7
  else if d < 273 + l then 8 else if d < 304 + l then 9 else if d < 334 + l then 10 else 11

theorem monthFromTime_eq (t : Int) : MonthFromTime t = monthOf (DayWithinYear t) (InLeapYear t) := rfl

theorem monthOf_range (d l : Int) : 0 ≤ monthOf d l ∧ monthOf d l ≤ 11 := by
  unfold monthOf; repeat' split
  all_goals omega

theorem dateFromTime_eq (t : Int) :
    DateFromTime t = DayWithinYear t - monthStart (MonthFromTime t) (InLeapYear t) + 1 := by
  have hm := monthOf_range (DayWithinYear t) (InLeapYear t)
  rw [← monthFromTime_eq] at hm
  unfold DateFromTime
  generalize MonthFromTime t = m at *
  have : m = 0 ∨ m = 1 ∨ m = 2 ∨ m = 3 ∨ m = 4 ∨ m = 5 ∨ m = 6 ∨ m = 7 ∨ m = 8 ∨ m = 9 ∨ m = 10 ∨ m = 11 := by omega
  rcases this with h | h | h | h | h | h | h | h | h | h | h | h <;> subst h <;> simp only [monthStart] <;> omega

-- ---------------------------------------------------------------- Go side

theorem goIsLeap_iff (y : Int) : goIsLeap y = true ↔ DaysInYear y = 366 := by
  unfold goIsLeap DaysInYear goMod goDiv
  simp only [Bool.and_eq_true, Bool.or_eq_true, beq_iff_eq, bne_iff_ne, ne_eq]
  split <;> split <;> (try split) <;> (try split) <;> (try split) <;> omega

/-- daysSinceEpoch agrees with ES5 DayFromYear up to the constant offset of the absolute epoch -/
theorem goDaysSinceEpoch_eq (y : Int) : goDaysSinceEpoch y = DayFromYear y + 106751991073094 := by
  unfold goDaysSinceEpoch DayFromYear absoluteZeroYear
  simp only []
  omega

theorem gdse_digits (n a b c : Int) (ha : 0 ≤ a ∧ a ≤ 3) (hb : 0 ≤ b ∧ b ≤ 24) (hc : 0 ≤ c ∧ c ≤ 3) :
    goDaysSinceEpoch (400 * n + 100 * a + 4 * b + c + absoluteZeroYear) = 146097 * n + 36524 * a + 1461 * b + 365 * c := by
  unfold goDaysSinceEpoch absoluteZeroYear
  simp only []
  omega

theorem diy_digits (n a b c : Int) (ha : 0 ≤ a ∧ a ≤ 3) (hb : 0 ≤ b ∧ b ≤ 24) (hc : 0 ≤ c ∧ c ≤ 3) :
    DaysInYear (400 * n + 100 * a + 4 * b + c + absoluteZeroYear) = if c = 3 ∧ (b ≠ 24 ∨ a = 3) then 366 else 365 := by
  unfold DaysInYear absoluteZeroYear
  repeat' split
  all_goals omega

/-- absDate's cycle peeling written as mixed-radix digits of the day number -/
theorem goYearDay_digits (abs : Int) : ∃ n a b c yd : Int,
    goYearDay abs = (400 * n + 100 * a + 4 * b + c + absoluteZeroYear, yd) ∧
    (0 ≤ a ∧ a ≤ 3) ∧ (0 ≤ b ∧ b ≤ 24) ∧ (0 ≤ c ∧ c ≤ 3) ∧
    abs / 86400 = 146097 * n + 36524 * a + 1461 * b + 365 * c + yd ∧
    0 ≤ yd ∧ yd ≤ 365 ∧ (yd = 365 → c = 3 ∧ (b ≠ 24 ∨ a = 3)) := by
  unfold goYearDay
  simp only []
  generalize abs / 86400 = D
  generalize hn : D / 146097 = n
  have h1 : 0 ≤ D - 146097 * n ∧ D - 146097 * n < 146097 := by omega
  generalize hd1 : D - 146097 * n = d1 at *
  generalize hq1 : d1 / 36524 = q1
  have ha : 0 ≤ q1 - q1 / 4 ∧ q1 - q1 / 4 ≤ 3 := by omega
  have h2 : 0 ≤ d1 - 36524 * (q1 - q1 / 4) ∧ d1 - 36524 * (q1 - q1 / 4) ≤ 36524 ∧ (d1 - 36524 * (q1 - q1 / 4) = 36524 → q1 - q1 / 4 = 3) := by omega
  generalize ha' : q1 - q1 / 4 = a at *
  generalize hd2 : d1 - 36524 * a = d2 at *
  generalize hb' : d2 / 1461 = b
  have hb : 0 ≤ b ∧ b ≤ 24 := by omega
  have h3 : 0 ≤ d2 - 1461 * b ∧ d2 - 1461 * b ≤ 1460 ∧ (d2 - 1461 * b = 1460 → (b ≠ 24 ∨ a = 3)) := by omega
  generalize hd3 : d2 - 1461 * b = d3 at *
  generalize hq3 : d3 / 365 = q3
  have hc : 0 ≤ q3 - q3 / 4 ∧ q3 - q3 / 4 ≤ 3 := by omega
  have h4 : 0 ≤ d3 - 365 * (q3 - q3 / 4) ∧ d3 - 365 * (q3 - q3 / 4) ≤ 365 ∧ (d3 - 365 * (q3 - q3 / 4) = 365 → q3 - q3 / 4 = 3 ∧ d3 = 1460) := by omega
  generalize hc' : q3 - q3 / 4 = c at *
  refine ⟨n, a, b, c, d3 - 365 * c, rfl, ha, hb, hc, by omega, h4.1, h4.2.1, ?_⟩
  intro h
  have := h4.2.2 h
  omega

/-- a Go absolute second count that lies on the same UTC day as time value t -/
def SameDay (abs t : Int) : Prop := abs / 86400 = Day t + 106751991073094

theorem goYearDay_eq (abs t : Int) (h : SameDay abs t) :
    goYearDay abs = (YearFromTime t, DayWithinYear t) := by
  obtain ⟨n, a, b, c, yd, he, ha, hb, hc, hD, hy0, hy1, hy2⟩ := goYearDay_digits abs
  have hg := gdse_digits n a b c ha hb hc
  have hl := diy_digits n a b c ha hb hc
  rw [goDaysSinceEpoch_eq] at hg
  have hstep := dayFromYear_step (400 * n + 100 * a + 4 * b + c + absoluteZeroYear)
  unfold SameDay at h
  have hy : 400 * n + 100 * a + 4 * b + c + absoluteZeroYear = YearFromTime t := by
    apply year_unique
    · omega
    · split at hl <;> omega
  rw [he]
  unfold DayWithinYear
  rw [← hy]
  congr 1
  omega

set_option maxRecDepth 100000 in
theorem goMonthDay_fin : ∀ n : Fin 366, ∀ l : Fin 2, (n.val < 365 + l.val) →
    goMonthDay (decide ((l.val : Int) = 1)) (n.val : Int) =
      (monthOf n.val l.val + 1, (n.val : Int) - monthStart (monthOf n.val l.val) l.val + 1) := by
  decide +kernel

theorem goMonthDay_eq (d l : Int) (hl : l = 0 ∨ l = 1) (h0 : 0 ≤ d) (h1 : d < 365 + l) :
    goMonthDay (decide (l = 1)) d = (monthOf d l + 1, d - monthStart (monthOf d l) l + 1) := by
  have hd : d = ((⟨d.toNat, by omega⟩ : Fin 366).val : Int) := by simp; omega
  have hl' : l = ((⟨l.toNat, by omega⟩ : Fin 2).val : Int) := by simp; omega
  have := goMonthDay_fin ⟨d.toNat, by omega⟩ ⟨l.toNat, by omega⟩ (by simp; omega)
  rw [← hd, ← hl'] at this
  exact this

theorem goAbsDate_eq (abs t : Int) (h : SameDay abs t) :
    goAbsDate abs = (YearFromTime t, MonthFromTime t + 1, DateFromTime t) := by
  unfold goAbsDate
  rw [goYearDay_eq abs t h]
  simp only []
  have hleap : goIsLeap (YearFromTime t) = decide (InLeapYear t = 1) := by
    unfold InLeapYear
    by_cases hc : DaysInYear (YearFromTime t) = 366
    · simp [hc, (goIsLeap_iff _).2 hc]
    · have : goIsLeap (YearFromTime t) = false := by
        cases hh : goIsLeap (YearFromTime t) with
        | false => rfl
        | true => exact absurd ((goIsLeap_iff _).1 hh) hc
      simp [hc, this]
  have hr := dayWithinYear_range t
  rw [hleap, goMonthDay_eq _ _ (inLeapYear_01 t) hr.1 hr.2, dateFromTime_eq, monthFromTime_eq]

end Cal
open OttoVerif.F64

-- ---------------------------------------------------------------- the valid object state


def stateTime (t : Int) : GoTime := ⟨t / 1000, (t % 1000) * 1000000⟩
def validState (t : Int) : DateObj := { time := stateTime t, value := some t, epoch := t, isNaN := false }

theorem sameDay_state (t : Int) : SameDay (goAbs (stateTime t)) t := by
  unfold SameDay goAbs stateTime Spec.Day; simp only []; omega

theorem goWeekday_state (t : Int) : goWeekday (stateTime t) = Spec.WeekDay t := by
  unfold goWeekday goAbs stateTime Spec.WeekDay Spec.Day; simp only []; omega
theorem goHour_state (t : Int) : goHour (stateTime t) = Spec.HourFromTime t := by
  unfold goHour goAbs stateTime Spec.HourFromTime; simp only []; omega
theorem goMinute_state (t : Int) : goMinute (stateTime t) = Spec.MinFromTime t := by
  unfold goMinute goAbs stateTime Spec.MinFromTime; simp only []; omega
theorem goSecond_state (t : Int) : goSecond (stateTime t) = Spec.SecFromTime t := by
  unfold goSecond goAbs stateTime Spec.SecFromTime; simp only []; omega
theorem goMilli_state (t : Int) : goDiv (stateTime t).nsec 1000000 = Spec.msFromTime t := by
  unfold goDiv stateTime Spec.msFromTime; simp only []; split <;> omega


-- ---------------------------------------------------------------- time.Date normalisation


theorem goNorm12 (hi lo : Int) : goNorm hi lo 12 = (hi + lo / 12, lo % 12) := by
  unfold goNorm
  by_cases h : lo < 0
  · have e : goDiv (-lo - 1) 12 = (-lo - 1) / 12 := by unfold goDiv; rw [if_pos (by omega)]
    simp only [h, if_true, e]
    rw [if_neg (by omega)]; simp only [Prod.mk.injEq]; (constructor <;> (first | trivial | omega))
  · simp only [h, if_false]
    by_cases h2 : lo ≥ 12
    · have e : goDiv lo 12 = lo / 12 := by unfold goDiv; rw [if_pos (by omega)]
      rw [if_pos h2]; simp only [e, Prod.mk.injEq]; (constructor <;> (first | trivial | omega))
    · rw [if_neg h2]; simp only [Prod.mk.injEq]; (constructor <;> (first | trivial | omega))
theorem goNorm60 (hi lo : Int) : goNorm hi lo 60 = (hi + lo / 60, lo % 60) := by
  unfold goNorm
  by_cases h : lo < 0
  · have e : goDiv (-lo - 1) 60 = (-lo - 1) / 60 := by unfold goDiv; rw [if_pos (by omega)]
    simp only [h, if_true, e]
    rw [if_neg (by omega)]; simp only [Prod.mk.injEq]; (constructor <;> (first | trivial | omega))
  · simp only [h, if_false]
    by_cases h2 : lo ≥ 60
    · have e : goDiv lo 60 = lo / 60 := by unfold goDiv; rw [if_pos (by omega)]
      rw [if_pos h2]; simp only [e, Prod.mk.injEq]; (constructor <;> (first | trivial | omega))
    · rw [if_neg h2]; simp only [Prod.mk.injEq]; (constructor <;> (first | trivial | omega))
theorem goNorm24 (hi lo : Int) : goNorm hi lo 24 = (hi + lo / 24, lo % 24) := by
  unfold goNorm
  by_cases h : lo < 0
  · have e : goDiv (-lo - 1) 24 = (-lo - 1) / 24 := by unfold goDiv; rw [if_pos (by omega)]
    simp only [h, if_true, e]
    rw [if_neg (by omega)]; simp only [Prod.mk.injEq]; (constructor <;> (first | trivial | omega))
  · simp only [h, if_false]
    by_cases h2 : lo ≥ 24
    · have e : goDiv lo 24 = lo / 24 := by unfold goDiv; rw [if_pos (by omega)]
      rw [if_pos h2]; simp only [e, Prod.mk.injEq]; (constructor <;> (first | trivial | omega))
    · rw [if_neg h2]; simp only [Prod.mk.injEq]; (constructor <;> (first | trivial | omega))
theorem goNorm1e9 (hi lo : Int) : goNorm hi lo 1000000000 = (hi + lo / 1000000000, lo % 1000000000) := by
  unfold goNorm
  by_cases h : lo < 0
  · have e : goDiv (-lo - 1) 1000000000 = (-lo - 1) / 1000000000 := by unfold goDiv; rw [if_pos (by omega)]
    simp only [h, if_true, e]
    rw [if_neg (by omega)]; simp only [Prod.mk.injEq]; (constructor <;> (first | trivial | omega))
  · simp only [h, if_false]
    by_cases h2 : lo ≥ 1000000000
    · have e : goDiv lo 1000000000 = lo / 1000000000 := by unfold goDiv; rw [if_pos (by omega)]
      rw [if_pos h2]; simp only [e, Prod.mk.injEq]; (constructor <;> (first | trivial | omega))
    · rw [if_neg h2]; simp only [Prod.mk.injEq]; (constructor <;> (first | trivial | omega))

theorem daysBefore_monthStart (mn y : Int) (h : 0 ≤ mn ∧ mn ≤ 11) :
    (if (goIsLeap y && decide (mn + 1 ≥ 3)) = true then goDaysBefore (mn + 1 - 1) + 1 else goDaysBefore (mn + 1 - 1)) =
      Spec.monthStart mn (if Spec.DaysInYear y = 366 then 1 else 0) := by
  have hl := goIsLeap_iff y
  have : mn = 0 ∨ mn = 1 ∨ mn = 2 ∨ mn = 3 ∨ mn = 4 ∨ mn = 5 ∨ mn = 6 ∨ mn = 7 ∨ mn = 8 ∨ mn = 9 ∨ mn = 10 ∨ mn = 11 := by omega
  by_cases hc : Spec.DaysInYear y = 366
  · have hg := hl.2 hc
    rcases this with h | h | h | h | h | h | h | h | h | h | h | h <;> subst h <;> simp [hg, hc, goDaysBefore, Spec.monthStart]
  · have hg : goIsLeap y = false := by
      cases hh : goIsLeap y with
      | false => rfl
      | true => exact absurd (hl.1 hh) hc
    rcases this with h | h | h | h | h | h | h | h | h | h | h | h <;> subst h <;> simp [hg, hc, goDaysBefore, Spec.monthStart]


-- ---------------------------------------------------------------- civil round trip


theorem leapFlag_eq (t : Int) : (if Spec.DaysInYear (Spec.YearFromTime t) = 366 then (1:Int) else 0) = Spec.InLeapYear t := rfl

theorem monthFromTime_range (t : Int) : 0 ≤ Spec.MonthFromTime t ∧ Spec.MonthFromTime t ≤ 11 := by
  rw [monthFromTime_eq]; exact monthOf_range _ _

/-- §15.9.1.12 read backwards: the civil fields of t recompose to Day t -/
theorem makeDay_roundtrip (t : Int) :
    Spec.MakeDay (Spec.YearFromTime t) (Spec.MonthFromTime t) (Spec.DateFromTime t) = Spec.Day t := by
  have hm := monthFromTime_range t
  unfold Spec.MakeDay
  have e1 : Spec.MonthFromTime t / 12 = 0 := by omega
  have e2 : Spec.MonthFromTime t % 12 = Spec.MonthFromTime t := by omega
  simp only [e1, e2, Int.add_zero, leapFlag_eq]
  rw [dateFromTime_eq]
  unfold Spec.DayWithinYear
  omega

theorem makeTime_roundtrip (t : Int) :
    Spec.MakeTime (Spec.HourFromTime t) (Spec.MinFromTime t) (Spec.SecFromTime t) (Spec.msFromTime t) = Spec.TimeWithinDay t := by
  unfold Spec.MakeTime Spec.HourFromTime Spec.MinFromTime Spec.SecFromTime Spec.msFromTime Spec.TimeWithinDay
  omega

theorem makeDate_roundtrip (t : Int) : Spec.MakeDate (Spec.Day t) (Spec.TimeWithinDay t) = t := by
  unfold Spec.MakeDate Spec.Day Spec.TimeWithinDay; omega

theorem monthOf_monthStart (mn l : Int) (hm : 0 ≤ mn ∧ mn ≤ 11) (hl : l = 0 ∨ l = 1) :
    monthOf (Spec.monthStart mn l) l = mn := by
  have : mn = 0 ∨ mn = 1 ∨ mn = 2 ∨ mn = 3 ∨ mn = 4 ∨ mn = 5 ∨ mn = 6 ∨ mn = 7 ∨ mn = 8 ∨ mn = 9 ∨ mn = 10 ∨ mn = 11 := by omega
  rcases hl with hl | hl <;> subst hl <;>
  rcases this with h | h | h | h | h | h | h | h | h | h | h | h <;> subst h <;> decide

theorem monthStart_range (mn l : Int) (hm : 0 ≤ mn ∧ mn ≤ 11) (hl : l = 0 ∨ l = 1) :
    0 ≤ Spec.monthStart mn l ∧ Spec.monthStart mn l < 365 := by
  have : mn = 0 ∨ mn = 1 ∨ mn = 2 ∨ mn = 3 ∨ mn = 4 ∨ mn = 5 ∨ mn = 6 ∨ mn = 7 ∨ mn = 8 ∨ mn = 9 ∨ mn = 10 ∨ mn = 11 := by omega
  rcases hl with hl | hl <;> subst hl <;>
  rcases this with h | h | h | h | h | h | h | h | h | h | h | h <;> subst h <;> decide


-- ---------------------------------------------------------------- composition

/-- time.Date composes exactly like MakeDate(MakeDay, MakeTime), for ALL integer fields -/
theorem make_compose (y m d h mi s ms : Int) :
    goUnixMilli (goDate y (m + 1) d h mi s (ms * 1000000)) =
      Spec.MakeDate (Spec.MakeDay y m d) (Spec.MakeTime h mi s ms) := by
  unfold goDate
  simp only [goNorm12, goNorm60, goNorm24, goNorm1e9, Int.add_sub_cancel]
  have hb := daysBefore_monthStart (m % 12) (y + m / 12) (by omega)
  unfold goUnixMilli Spec.MakeDate Spec.MakeDay Spec.MakeTime absToUnix goDiv
  simp only [goDaysSinceEpoch_eq]
  simp only [Int.add_sub_cancel] at hb
  generalize Spec.monthStart (m % 12) (if Spec.DaysInYear (y + m / 12) = 366 then 1 else 0) = MS at *
  generalize Spec.DayFromYear (y + m / 12) = DY at *
  have e1 : ms * 1000000 / 1000000000 = ms / 1000 := by omega
  have e2 : ms * 1000000 % 1000000000 / 1000000 = ms % 1000 := by omega
  have e3 : ms * 1000000 % 1000000000 ≥ 0 := by omega
  rw [if_pos e3, e1, e2]
  generalize goDaysBefore (m % 12) = GB at *
  split at hb <;> rename_i hc
  · simp only [hc, if_true]; omega
  · simp only [hc, Bool.false_eq_true, if_false]; omega


theorem make_compose_ms (y m d h mi s ms : Int) :
    goUnixMilli (goDateMs y (m + 1) d h mi s ms) =
      Spec.MakeDate (Spec.MakeDay y m d) (Spec.MakeTime h mi s ms) := by
  unfold goDateMs
  rw [make_compose]
  unfold Spec.MakeDate Spec.MakeTime goMod
  generalize goDiv ms 1000 = q
  omega

-- ---------------------------------------------------------------- setters

def toSpec : Setter → Spec.Setter
  | .ms => .ms | .sec => .sec | .min => .min | .hour => .hour | .date => .date | .month => .month | .year => .year | .time => .time

/-- an integer as an (un-normalised) double view; equals `ofInt i` below 2^53 -/
def fvInt (i : Int) : FV := .fin (decide (i < 0)) i.natAbs 0

theorem field_fvInt (i : Int) : Spec.field? (fvInt i) = some i := by
  unfold fvInt Spec.field? truncInt truncAbs
  by_cases h : i < 0 <;> simp [h] <;> omega

theorem newEcmaTime_state (t : Int) : newEcmaTime (stateTime t) =
    { year := Spec.YearFromTime t, month := Spec.MonthFromTime t, day := Spec.DateFromTime t, hour := Spec.HourFromTime t,
      minute := Spec.MinFromTime t, second := Spec.SecFromTime t, millisecond := Spec.msFromTime t } := by
  have hd := goAbsDate_eq _ _ (sameDay_state t)
  simp [newEcmaTime, goYear, goMonth, goDay, hd, goHour_state, goMinute_state, goSecond_state, goMilli_state]

theorem setter_core (k : Setter) (t : Int) (vs : List Int) (hk : k ≠ .time) (h1 : 1 ≤ vs.length) (h2 : vs.length ≤ k.limit) :
    some (setCoreU k (stateTime t) vs) = Spec.setUTCRaw (toSpec k) (some t) (vs.map fvInt) := by
  have hD := makeDay_roundtrip t
  have hT := makeTime_roundtrip t
  rcases vs with _ | ⟨a, _ | ⟨b, _ | ⟨c, _ | ⟨d, _ | ⟨e, rest⟩⟩⟩⟩⟩ <;> cases k <;>
    simp [Setter.limit] at h1 h2 hk <;>
    simp [setCoreU, applySetter, newEcmaTime_state, EcmaTime.goTimeCore, make_compose_ms, toSpec, Spec.setUTCRaw, Spec.argOr, field_fvInt, hD, hT]

-- ---------------------------------------------------------------- the float64 gate (dateObject.Set)

theorem goUnix_state (t : Int) : goUnix (goDiv t 1000) (goMod t 1000 * 1000000) = stateTime t := by
  unfold goMod
  by_cases h : t ≥ 0
  · have e : goDiv t 1000 = t / 1000 := by unfold goDiv; rw [if_pos h]
    rw [e]; unfold goUnix stateTime
    rw [if_neg (by omega)]
    congr 1 <;> omega
  · have e : goDiv t 1000 = -(-t / 1000) := by unfold goDiv; rw [if_neg h]
    rw [e]
    generalize hq : -t / 1000 = q
    have hm : -999 ≤ t - 1000 * -q ∧ t - 1000 * -q ≤ 0 := by omega
    have hq' : t / 1000 = if t - 1000 * -q = 0 then -q else -q - 1 := by split <;> omega
    have hr' : t % 1000 = if t - 1000 * -q = 0 then 0 else 1000 + (t - 1000 * -q) := by split <;> omega
    unfold stateTime
    rw [hq', hr']
    generalize t - 1000 * -q = m at *
    unfold goUnix
    by_cases h2 : m = 0
    · subst h2; simp
    · simp only [h2, if_false]
      have e2 : goDiv (m * 1000000) 1000000000 = 0 := by
        unfold goDiv; rw [if_neg (by omega)]; omega
      rw [if_pos (by omega), e2]
      simp only [Int.add_zero, Int.zero_mul, Int.sub_zero]
      rw [if_pos (by omega)]
      congr 1; omega

/-- the float division in epochToTime is exact enough: trunc(RNE(t/1000)) = t quo 1000 -/
def DivExact (t : Int) : Prop := OttoVerif.C05.goInt64 (div (ofInt t) thousand) = goDiv t 1000

instance (t : Int) : Decidable (DivExact t) := by unfold DivExact; infer_instance

theorem goInt64_small (t : Int) (hr : t.natAbs < 2^53) : OttoVerif.C05.goInt64 (.fin (decide (t < 0)) t.natAbs 0) = t := by
  unfold OttoVerif.C05.goInt64 truncInt truncAbs
  by_cases h : t < 0 <;> simp [h] <;> omega

theorem ofInt_small (v : Int) (hr : v.natAbs < 2^53) : ofInt v = fvInt v := by simp [ofInt, fvInt, hr]

-- ---------------------------------------------------------------- comparisons on integral doubles, TimeClip test


theorem cmp_fvInt (a b : Int) : cmpReal (fvInt a) (fvInt b) = some (if a < b then .lt else if a = b then .eq else .gt) := by
  unfold fvInt cmpReal alignInt
  have ea : (if decide (a < 0) = true then -((a.natAbs * 2 ^ ((0:Int) - (if (0:Int) ≤ 0 then 0 else 0)).toNat : Nat) : Int) else ((a.natAbs * 2 ^ ((0:Int) - (if (0:Int) ≤ 0 then 0 else 0)).toNat : Nat) : Int)) = a := by
    by_cases h : a < 0 <;> simp [h] <;> omega
  have eb : (if decide (b < 0) = true then -((b.natAbs * 2 ^ ((0:Int) - (if (0:Int) ≤ 0 then 0 else 0)).toNat : Nat) : Int) else ((b.natAbs * 2 ^ ((0:Int) - (if (0:Int) ≤ 0 then 0 else 0)).toNat : Nat) : Int)) = b := by
    by_cases h : b < 0 <;> simp [h] <;> omega
  simp only [ea, eb]

theorem lt_fvInt (a b : Int) : lt (fvInt a) (fvInt b) = decide (a < b) := by
  unfold lt
  rw [cmp_fvInt]
  by_cases h1 : a < b
  · simp [h1]
  · by_cases h2 : a = b
    · simp [h2]
    · simp [h1, h2]

theorem abs_fvInt (i : Int) : abs (fvInt i) = fvInt (i.natAbs : Int) := by
  unfold fvInt abs
  have : ¬ ((i.natAbs : Int) < 0) := by omega
  simp [this]

theorem beyondMax_fvInt (i : Int) : beyondMax (fvInt i) = decide (i.natAbs > 8640000000000000) := by
  unfold beyondMax
  rw [abs_fvInt, show maxTimeValue = fvInt 8640000000000000 from rfl, lt_fvInt]
  by_cases h : i.natAbs > 8640000000000000
  · simp [h]; omega
  · simp [h]; omega

theorem divRNE_ge (a b : Nat) : a / b ≤ divRNE a b := by
  unfold divRNE; simp only []; split
  · exact Nat.le_refl _
  · split
    · omega
    · split <;> omega

theorem roundPos_big (n : Nat) (hn : 2^53 ≤ n) (m : Nat) (e : Int) (h : roundPos n 1 = some (m, e)) :
    2^52 ≤ m ∧ 1 ≤ e := by
  have hn0 : n ≠ 0 := by omega
  have hL : 53 ≤ n.log2 := (Nat.le_log2 hn0).2 hn
  have hpow : 2 ^ n.log2 ≤ n := Nat.log2_self_le hn0
  obtain ⟨k, hk⟩ : ∃ k, n.log2 = k + 53 := ⟨n.log2 - 53, by omega⟩
  unfold roundPos at h
  have l1 : Nat.log2 1 = 0 := by decide
  simp only [l1, hk] at h
  have e0 : ((k + 53 : Nat) : Int) - ((0 : Nat) : Int) - 52 = (k : Int) + 1 := by omega
  simp only [e0] at h
  have hge : (k : Int) + 1 ≥ 0 := by omega
  have htn : ((k : Int) + 1).toNat = k + 1 := by omega
  simp only [hge, if_true, htn, Nat.one_mul] at h
  have hnotlt : ¬ (n < 2 ^ (k + 1) * 2 ^ 52) := by
    rw [← Nat.pow_add, show k + 1 + 52 = k + 53 by omega, ← hk]; omega
  simp only [hnotlt, decide_false, Bool.false_eq_true, if_false] at h
  have hc : ¬ ((k : Int) + 1 < -1074) := by omega
  simp only [hc, if_false, hge, if_true, htn] at h
  have hm0 : 2 ^ 52 ≤ divRNE n (2 ^ (k + 1)) := by
    refine Nat.le_trans ?_ (divRNE_ge _ _)
    rw [Nat.le_div_iff_mul_le (Nat.pow_pos (by decide))]
    rw [← Nat.pow_add, show 52 + (k + 1) = k + 53 by omega, ← hk]; exact hpow
  generalize divRNE n (2 ^ (k + 1)) = m0 at *
  by_cases hcar : m0 = 2 ^ 53
  · simp only [hcar, if_true] at h
    split at h
    · simp at h
    · simp only [Option.some.injEq, Prod.mk.injEq] at h
      obtain ⟨h1, h2⟩ := h
      subst h1; subst h2
      constructor <;> omega
  · simp only [hcar, if_false] at h
    split at h
    · simp at h
    · simp only [Option.some.injEq, Prod.mk.injEq] at h
      obtain ⟨h1, h2⟩ := h
      subst h1; subst h2
      constructor <;> omega

theorem beyondMax_big (s : Bool) (n : Nat) (hn : 2^53 ≤ n) : beyondMax (ofRatParts s n 1) = true := by
  unfold ofRatParts
  have hn0 : ¬ n = 0 := by omega
  simp only [hn0, if_false]
  cases hr : roundPos n 1 with
  | none => simp [beyondMax, abs, lt, cmpReal, maxTimeValue]
  | some p =>
    obtain ⟨m, e⟩ := p
    obtain ⟨hm, he⟩ := roundPos_big n hn m e hr
    simp only [beyondMax, abs, lt, cmpReal, maxTimeValue, alignInt]
    have h0e : (0 : Int) ≤ e := by omega
    simp only [h0e, if_true]
    obtain ⟨k, hk⟩ : ∃ k : Nat, e = (k : Int) + 1 := ⟨(e - 1).toNat, by omega⟩
    subst hk
    have : ((k : Int) + 1 - 0).toNat = k + 1 := by omega
    simp only [this, Int.sub_self, Int.toNat_zero, Nat.pow_zero, Nat.mul_one]
    have hk2 : 2 ≤ 2 ^ (k + 1) := by
      rw [Nat.pow_succ]; have := Nat.pow_pos (a := 2) (n := k) (by decide); omega
    have hb : 2 ^ 53 ≤ m * 2 ^ (k + 1) := by
      calc 2 ^ 53 = 2 ^ 52 * 2 := by decide
        _ ≤ m * 2 ^ (k + 1) := Nat.mul_le_mul hm hk2
    generalize m * 2 ^ (k + 1) = B at *
    simp
    omega

theorem beyondMax_ofInt (i : Int) : beyondMax (ofInt i) = decide (i.natAbs > 8640000000000000) := by
  by_cases h : i.natAbs < 2^53
  · rw [ofInt_small i h, beyondMax_fvInt]
  · have hbig : (2:Nat)^53 ≤ i.natAbs := by omega
    unfold ofInt
    simp only [h, if_false]
    have : i.natAbs > 8640000000000000 := by omega
    split <;> simp [beyondMax_big _ _ hbig, this]

-- ---------------------------------------------------------------- the float64 gate (dateObject.Set) and the setters


/-- the Date object otto holds for an ES5 time value: NaN ↦ invalidDateObject -/
def stateOf : Spec.TV → DateObj
  | some t => validState t
  | none => invalidDateObject

/-- dateObject.Set(float64(t)) for ANY integer t = the object for TimeClip(t).  Inside the range the float
    division hypothesis `DivExact t` is needed; beyond ±8.64e15 the date becomes invalid unconditionally. -/
theorem set_ofInt (d : DateObj) (t : Int) (hdiv : t.natAbs ≤ 8640000000000000 → DivExact t) :
    d.set (ofInt t) = stateOf (Spec.TimeClip t) := by
  by_cases hr : t.natAbs ≤ 8640000000000000
  · have hdiv := hdiv hr
    unfold DivExact at hdiv
    have hr53 : t.natAbs < 2^53 := by omega
    have hv : ofInt t = .fin (decide (t < 0)) t.natAbs 0 := by simp [ofInt, hr53]
    have hb : beyondMax (ofInt t) = false := by rw [beyondMax_ofInt]; simp; omega
    have he : epochToInteger (ofInt t) = t := by
      unfold epochToInteger
      rw [hv]
      simp only [floor, ceil, isIntegral]
      simp [goInt64_small t hr53]
    have ht : epochToTime (ofInt t) = some (stateTime t) := by
      unfold epochToTime
      rw [hb, hdiv, hv, goInt64_small t hr53]
      simp [isNaN, isInf, goUnix_state]
    have hc : Spec.TimeClip t = some t := by unfold Spec.TimeClip; rw [if_neg (by omega)]
    unfold DateObj.set
    simp only [he, ht, hc, stateOf, validState]
  · have hb : beyondMax (ofInt t) = true := by rw [beyondMax_ofInt]; simp; omega
    have ht : epochToTime (ofInt t) = none := by
      unfold epochToTime; rw [hb]; simp
    have hc : Spec.TimeClip t = none := by unfold Spec.TimeClip; rw [if_pos (by omega)]
    unfold DateObj.set
    simp only [ht, hc, stateOf, invalidDateObject]

theorem set_nonfinite (d : DateObj) (v : FV) (h : Spec.field? v = none) : d.set v = invalidDateObject := by
  cases v with
  | nan => simp [DateObj.set, epochToTime, isNaN, invalidDateObject]
  | inf s => simp [DateObj.set, epochToTime, isNaN, isInf, invalidDateObject]
  | fin s m e => simp [Spec.field?] at h

theorem ofInt_p63 : ofInt (2^63) = .fin false 4503599627370496 11 := by decide +kernel
theorem ofInt_m63 : ofInt (-(2^63)) = .fin true 4503599627370496 11 := by decide +kernel

theorem numberArg_small (v : Int) (hr : v.natAbs < 2^53) : numberArg (.fin (decide (v < 0)) v.natAbs 0) = some v := by
  unfold numberArg
  by_cases h0 : v.natAbs = 0
  · simp [h0]; omega
  · simp only [h0, if_false, ofInt_p63, ofInt_m63]
    have a1 : ¬ ((9223372036854775808:Int) = -↑v.natAbs) := by omega
    have a2 : ¬ ((9223372036854775808:Int) < -↑v.natAbs) := by omega
    have a3 : ¬ ((9223372036854775808:Int) = ↑v.natAbs) := by omega
    have a4 : ¬ ((9223372036854775808:Int) < ↑v.natAbs) := by omega
    have a5 : ¬ (-(↑v.natAbs : Int) = -9223372036854775808) := by omega
    have a6 : ¬ (-(↑v.natAbs : Int) < -9223372036854775808) := by omega
    have a7 : ¬ ((↑v.natAbs : Int) = -9223372036854775808) := by omega
    have a8 : ¬ ((↑v.natAbs : Int) < -9223372036854775808) := by omega
    have e1 : le (.fin false 4503599627370496 11) (.fin (decide (v < 0)) v.natAbs 0) = false := by
      by_cases h : v < 0 <;> simp [h, le, cmpReal, alignInt, a1, a2, a3, a4]
    have e2 : le (.fin (decide (v < 0)) v.natAbs 0) (.fin true 4503599627370496 11) = false := by
      by_cases h : v < 0 <;> simp [h, le, cmpReal, alignInt, a5, a6, a7, a8]
    simp only [e1, e2, goInt64_small v hr]
    simp


theorem map_ofInt_small (vs : List Int) (hsm : ∀ v ∈ vs, v.natAbs < 2^53) : vs.map ofInt = vs.map fvInt := by
  induction vs with
  | nil => rfl
  | cons a as ih =>
    simp only [List.map_cons]
    rw [ofInt_small a (hsm a (by simp)), ih (fun v hv => hsm v (by simp [hv]))]

theorem numberArgs_small (vs : List Int) (hsm : ∀ v ∈ vs, v.natAbs < 2^53) : numberArgs (vs.map fvInt) = some vs := by
  induction vs with
  | nil => rfl
  | cons a as ih =>
    simp only [List.map_cons, numberArgs]
    rw [ih (fun v hv => hsm v (by simp [hv]))]
    have := numberArg_small a (hsm a (by simp))
    unfold fvInt; rw [this]


theorem stateOf_value (tv : Spec.TV) : (stateOf tv).value = tv := by cases tv <;> rfl

theorem newDate_zero : newDate zero = validState 0 := by decide +kernel


-- ---------------------------------------------------------------- ranges of the civil fields

theorem field_ranges (t : Int) :
    (0 ≤ Spec.MonthFromTime t ∧ Spec.MonthFromTime t ≤ 11) ∧ (1 ≤ Spec.DateFromTime t ∧ Spec.DateFromTime t ≤ 31) ∧
    (0 ≤ Spec.WeekDay t ∧ Spec.WeekDay t ≤ 6) ∧ (0 ≤ Spec.HourFromTime t ∧ Spec.HourFromTime t ≤ 23) ∧
    (0 ≤ Spec.MinFromTime t ∧ Spec.MinFromTime t ≤ 59) ∧ (0 ≤ Spec.SecFromTime t ∧ Spec.SecFromTime t ≤ 59) ∧
    (0 ≤ Spec.msFromTime t ∧ Spec.msFromTime t ≤ 999) := by
  have hm := monthFromTime_range t
  have hr := dayWithinYear_range t
  have hl := inLeapYear_01 t
  refine ⟨hm, ?_, ?_, ?_, ?_, ?_, ?_⟩
  · rw [dateFromTime_eq]
    have hmo : Spec.MonthFromTime t = monthOf (Spec.DayWithinYear t) (Spec.InLeapYear t) := rfl
    generalize Spec.MonthFromTime t = m at *
    generalize Spec.DayWithinYear t = d at *
    generalize Spec.InLeapYear t = l at *
    subst hmo
    unfold monthOf
    repeat' split
    all_goals (simp only [Spec.monthStart]; omega)
  all_goals (simp only [Spec.WeekDay, Spec.HourFromTime, Spec.MinFromTime, Spec.SecFromTime, Spec.msFromTime]; omega)



/-- the year of a time value in the ES5 range -/
theorem year_bound (t : Int) (h : t.natAbs ≤ 8640000000000000) :
    -271821 ≤ Spec.YearFromTime t ∧ Spec.YearFromTime t ≤ 275760 := by
  have hb := yft_bounds t
  have hd : -100000000 ≤ Spec.Day t ∧ Spec.Day t ≤ 100000000 := by unfold Spec.Day; omega
  have e1 : Spec.DayFromYear 275761 = 100000110 := by decide
  have e2 : Spec.DayFromYear (-271821) = -100000109 := by decide
  constructor
  · by_cases hc : Spec.YearFromTime t + 1 ≤ -271821
    · have := dayFromYear_le _ _ hc; omega
    · omega
  · by_cases hc : 275761 ≤ Spec.YearFromTime t
    · have := dayFromYear_le _ _ hc; omega
    · omega


-- ---------------------------------------------------------------- the too-large guard, setters, histories


/-- dateFieldsTooLarge on integers -/
def hugeInt (y m d h mi s ms : Int) : Bool :=
  decide (y.natAbs > 2500000 ∨ m.natAbs > 25000000 ∨ d.natAbs > 1000000000 ∨ h.natAbs > 24000000000 ∨
    mi.natAbs > 1440000000000 ∨ s.natAbs > 86400000000000 ∨ ms.natAbs > 86400000000000000)

theorem lt_fvC_abs (n : Nat) (i : Int) : lt (fvC n) (abs (fvInt i)) = decide (i.natAbs > n) := by
  rw [abs_fvInt, show fvC n = fvInt (n : Int) by simp [fvC, fvInt], lt_fvInt]
  by_cases h : i.natAbs > n
  · simp [h]
  · simp [h]

theorem tooLarge_fvInt (y m d h mi s ms : Int) :
    tooLarge (fvInt y) (fvInt m) (fvInt d) (fvInt h) (fvInt mi) (fvInt s) (fvInt ms) = hugeInt y m d h mi s ms := by
  unfold tooLarge hugeInt
  simp only [lt_fvC_abs]
  simp [Bool.or_assoc]

/-- the civil fields of a time value, as newEcmaTime reads them -/
def ecmaOf (t : Int) : EcmaTime :=
  { year := Spec.YearFromTime t, month := Spec.MonthFromTime t, day := Spec.DateFromTime t, hour := Spec.HourFromTime t,
    minute := Spec.MinFromTime t, second := Spec.SecFromTime t, millisecond := Spec.msFromTime t }

/-- the too-large guard trips for this call -/
def setterHuge (k : Setter) (t : Int) (vs : List Int) : Bool :=
  let e := applySetter k (ecmaOf t) vs
  hugeInt e.year e.month e.day e.hour e.minute e.second e.millisecond

theorem ecma_small (k : Setter) (t : Int) (ht : t.natAbs ≤ 8640000000000000) (vs : List Int) (hsm : ∀ v ∈ vs, v.natAbs < 2^53) :
    let e := applySetter k (ecmaOf t) vs
    e.year.natAbs < 2^53 ∧ e.month.natAbs < 2^53 ∧ e.day.natAbs < 2^53 ∧ e.hour.natAbs < 2^53 ∧ e.minute.natAbs < 2^53 ∧
    e.second.natAbs < 2^53 ∧ e.millisecond.natAbs < 2^53 := by
  obtain ⟨hm, hdt, _, hh, hmi, hs, hms⟩ := field_ranges t
  obtain ⟨hy0, hy1⟩ := year_bound t ht
  rcases vs with _ | ⟨a, _ | ⟨b, _ | ⟨c, _ | ⟨d, _ | ⟨e, rest⟩⟩⟩⟩⟩ <;> cases k <;>
    simp only [applySetter, ecmaOf, List.mem_cons, List.mem_nil_iff, or_false, forall_eq_or_imp, forall_eq] at hsm ⊢ <;>
    (try obtain ⟨h1, h2, h3, h4⟩ := hsm) <;> (try obtain ⟨h1, h2, h3⟩ := hsm) <;> (try obtain ⟨h1, h2⟩ := hsm) <;>
    (refine ⟨?_, ?_, ?_, ?_, ?_, ?_, ?_⟩ <;> omega)

theorem newEcmaTime_ecmaOf (t : Int) : newEcmaTime (stateTime t) = ecmaOf t := newEcmaTime_state t

theorem goTime_guard (e : EcmaTime)
    (hs : e.year.natAbs < 2^53 ∧ e.month.natAbs < 2^53 ∧ e.day.natAbs < 2^53 ∧ e.hour.natAbs < 2^53 ∧ e.minute.natAbs < 2^53 ∧
      e.second.natAbs < 2^53 ∧ e.millisecond.natAbs < 2^53) :
    e.goTime = if hugeInt e.year e.month e.day e.hour e.minute e.second e.millisecond then ⟨17280000000000, 0⟩ else e.goTimeCore := by
  obtain ⟨h1, h2, h3, h4, h5, h6, h7⟩ := hs
  unfold EcmaTime.goTime
  rw [ofInt_small _ h1, ofInt_small _ h2, ofInt_small _ h3, ofInt_small _ h4, ofInt_small _ h5, ofInt_small _ h6, ofInt_small _ h7,
    tooLarge_fvInt]

theorem spec_setUTC_range (k : Spec.Setter) (tv : Spec.TV) (args : List FV) (t' : Int) (h : Spec.setUTC k tv args = some t') :
    t'.natAbs ≤ 8640000000000000 := by
  unfold Spec.setUTC at h
  cases hr : Spec.setUTCRaw k tv args with
  | none => simp [hr] at h
  | some r =>
    simp only [hr, Option.bind_some, Spec.TimeClip] at h
    split at h
    · simp at h
    · injection h with h; subst h; omega

/-- one setUTC* call on a valid date: unless the too-large guard trips while ES5 still gets a valid date
    (`huge_field_cancel`), new state and return value are the ES5 ones -/
theorem setUTC_valid (k : Setter) (t : Int) (ht : t.natAbs ≤ 8640000000000000) (vs : List Int) (hk : k ≠ .time)
    (h1 : 1 ≤ vs.length) (h2 : vs.length ≤ k.limit) (hsm : ∀ v ∈ vs, v.natAbs < 2^53)
    (hdiv : ∀ t', Spec.setUTCRaw (toSpec k) (some t) (vs.map ofInt) = some t' → t'.natAbs ≤ 8640000000000000 → DivExact t')
    (hnc : ¬ (setterHuge k t vs = true ∧ (Spec.setUTC (toSpec k) (some t) (vs.map ofInt)).isSome = true)) :
    setUTC k (validState t) (vs.map ofInt) =
      (stateOf (Spec.setUTC (toSpec k) (some t) (vs.map ofInt)), Spec.setUTC (toSpec k) (some t) (vs.map ofInt)) := by
  rw [map_ofInt_small vs hsm] at hdiv hnc ⊢
  have hc := setter_core k t vs hk h1 h2
  have hspec : Spec.setUTC (toSpec k) (some t) (vs.map fvInt) = Spec.TimeClip (setCoreU k (stateTime t) vs) := by
    unfold Spec.setUTC; rw [← hc]; rfl
  have htake : (vs.map fvInt).take k.limit = vs.map fvInt := by
    apply List.take_of_length_le; simp; exact h2
  have hne : (vs.map fvInt).isEmpty = false := by
    cases vs with
    | nil => simp at h1
    | cons a as => rfl
  have hsmall := ecma_small k t ht vs hsm
  simp only [] at hsmall
  have hg := goTime_guard (applySetter k (ecmaOf t) vs) hsmall
  have hcore : setCore k (stateTime t) vs =
      if setterHuge k t vs then 17280000000000000 else setCoreU k (stateTime t) vs := by
    unfold setCore setCoreU setterHuge
    rw [newEcmaTime_ecmaOf, hg]
    split <;> rfl
  have hset : (validState t).set (ofInt (setCore k (stateTime t) vs)) = stateOf (Spec.setUTC (toSpec k) (some t) (vs.map fvInt)) := by
    rw [hcore]
    by_cases hh : setterHuge k t vs = true
    · simp only [hh, if_true]
      have hn : Spec.setUTC (toSpec k) (some t) (vs.map fvInt) = none := by
        cases hs : Spec.setUTC (toSpec k) (some t) (vs.map fvInt) with
        | none => rfl
        | some x => exact absurd ⟨hh, by simp [hs]⟩ hnc
      rw [hn, set_ofInt _ _ (by intro h; omega)]
      rfl
    · simp only [hh, if_false]
      rw [hspec]
      exact set_ofInt _ _ (hdiv _ hc.symm)
  unfold setUTC
  cases k <;> first | exact absurd rfl hk | (
    simp only [validState, Bool.false_eq_true, if_false, false_and, htake, hne] at hset ⊢
    simp only [numberArgs_small vs hsm]
    rw [show stateTime t = (validState t).time from rfl] at hset
    simp only [validState] at hset
    rw [hset, stateOf_value])

/-- a time value as TimeClip leaves it -/
def TVok : Spec.TV → Prop
  | some t => t.natAbs ≤ 8640000000000000
  | none => True

theorem TVok_setUTC (k : Spec.Setter) (tv : Spec.TV) (args : List FV) : TVok (Spec.setUTC k tv args) := by
  cases h : Spec.setUTC k tv args with
  | none => trivial
  | some t' => exact spec_setUTC_range k tv args t' h

/-- one call of any of the eight setters (setTime included) with 1..limit integral arguments, from ANY object state
    (valid or invalid): new state and return value are the ES5 ones, outside `huge_field_cancel`. -/
theorem setUTC_step (k : Setter) (tv : Spec.TV) (hok : TVok tv) (vs : List Int) (h1 : 1 ≤ vs.length) (h2 : vs.length ≤ k.limit)
    (hsm : ∀ v ∈ vs, v.natAbs < 2^53)
    (hdiv : ∀ t', Spec.setUTCRaw (toSpec k) tv (vs.map ofInt) = some t' → t'.natAbs ≤ 8640000000000000 → DivExact t')
    (hnc : ¬ (setterHuge k (tv.getD 0) vs = true ∧ (Spec.setUTC (toSpec k) tv (vs.map ofInt)).isSome = true)) :
    setUTC k (stateOf tv) (vs.map ofInt) =
      (stateOf (Spec.setUTC (toSpec k) tv (vs.map ofInt)), Spec.setUTC (toSpec k) tv (vs.map ofInt)) := by
  by_cases hk : k = .time
  · subst hk
    rcases vs with _ | ⟨v, _ | ⟨w, rest⟩⟩
    · simp at h1
    · have hv := hsm v (by simp)
      have hraw : Spec.setUTCRaw (toSpec .time) tv ([v].map ofInt) = some v := by
        simp [toSpec, Spec.setUTCRaw, ofInt_small v hv, field_fvInt]
      have hspec : Spec.setUTC (toSpec .time) tv ([v].map ofInt) = Spec.TimeClip v := by
        unfold Spec.setUTC; rw [hraw]; rfl
      rw [hspec]
      simp only [setUTC, List.map_cons, List.map_nil, List.headD_cons]
      rw [set_ofInt _ v (hdiv v hraw), stateOf_value]
    · simp [Setter.limit] at h2
  · cases tv with
    | some t => exact setUTC_valid k t hok vs hk h1 h2 hsm hdiv hnc
    | none =>
      by_cases hy : k = .year
      · subst hy
        have hraw : Spec.setUTCRaw (toSpec .year) none (vs.map ofInt) = Spec.setUTCRaw (toSpec .year) (some 0) (vs.map ofInt) := rfl
        have hspec : Spec.setUTC (toSpec .year) none (vs.map ofInt) = Spec.setUTC (toSpec .year) (some 0) (vs.map ofInt) := rfl
        rw [hspec, ← setUTC_valid .year 0 (by decide) vs hk h1 h2 hsm (by rw [← hraw]; exact hdiv) (by rw [← hspec]; exact hnc)]
        simp [setUTC, stateOf, invalidDateObject, newDate_zero, validState]
      · have hspec : Spec.setUTC (toSpec k) none (vs.map ofInt) = none := by
          cases k <;> first | exact absurd rfl hk | exact absurd rfl hy | rfl
        rw [hspec]
        cases k <;> first | exact absurd rfl hk | exact absurd rfl hy | simp [setUTC, stateOf, invalidDateObject]

def liftM (s : Setter × List Int) : Setter × List FV := (s.1, s.2.map ofInt)
def liftS (s : Setter × List Int) : Spec.Setter × List FV := (toSpec s.1, s.2.map ofInt)

/-- side conditions of a history: every call has 1..limit integral arguments (below 2^53), every in-range
    intermediate value passes the float64 division gate, and no call falls into `huge_field_cancel`. -/
def Good : Spec.TV → List (Setter × List Int) → Prop
  | _, [] => True
  | tv, (k, vs) :: rest => 1 ≤ vs.length ∧ vs.length ≤ k.limit ∧ (∀ v ∈ vs, v.natAbs < 2^53) ∧
      (∀ t', Spec.setUTCRaw (toSpec k) tv (vs.map ofInt) = some t' → t'.natAbs ≤ 8640000000000000 → DivExact t') ∧
      ¬ (setterHuge k (tv.getD 0) vs = true ∧ (Spec.setUTC (toSpec k) tv (vs.map ofInt)).isSome = true) ∧
      Good (Spec.setUTC (toSpec k) tv (vs.map ofInt)) rest

theorem setter_histories (hist : List (Setter × List Int)) : ∀ tv : Spec.TV, TVok tv → Good tv hist →
    runSetters (stateOf tv) (hist.map liftM) =
      (stateOf (Spec.runSetters tv (hist.map liftS)).1, (Spec.runSetters tv (hist.map liftS)).2) := by
  induction hist with
  | nil => intro tv _ _; rfl
  | cons s rest ih =>
    intro tv hok hg
    obtain ⟨k, vs⟩ := s
    obtain ⟨h1, h2, hsm, hdiv, hnc, hrest⟩ := hg
    have hstep := setUTC_step k tv hok vs h1 h2 hsm hdiv hnc
    have := ih _ (TVok_setUTC _ _ _) hrest
    simp only [List.map_cons, liftS, liftM, Spec.runSetters, runSetters, hstep]
    rw [this]

-- ---------------------------------------------------------------- scripted arguments

def toSpecArg : Arg → Spec.Arg
  | .num x => .num x | .obj x => .obj x | .thrower => .thrower | .mut x m => .mut x m

theorem lastMut_eq (as : List Arg) : lastMut as = Spec.lastMut (as.map toSpecArg) := by
  induction as with
  | nil => rfl
  | cons a rest ih => cases a <;> simp [lastMut, Spec.lastMut, toSpecArg, ih]

theorem conv_eq (as : List Arg) : ∀ i, convArgs as i = Spec.convAll (as.map toSpecArg) i := by
  induction as with
  | nil => intro i; rfl
  | cons a rest ih =>
    intro i
    cases a with
    | num x =>
      simp only [convArgs, Arg.logs, Arg.val?, List.map_cons, toSpecArg, Spec.convAll, ih (i + 1)]
      cases h : Spec.convAll (rest.map toSpecArg) (i + 1) with
      | mk l r => cases r <;> simp
    | obj x =>
      simp only [convArgs, Arg.logs, Arg.val?, List.map_cons, toSpecArg, Spec.convAll, ih (i + 1)]
      cases h : Spec.convAll (rest.map toSpecArg) (i + 1) with
      | mk l r => cases r <;> simp
    | thrower => simp [convArgs, Arg.logs, Arg.val?, toSpecArg, Spec.convAll]
    | «mut» x m =>
      simp only [convArgs, Arg.logs, Arg.val?, List.map_cons, toSpecArg, Spec.convAll, ih (i + 1)]
      cases h : Spec.convAll (rest.map toSpecArg) (i + 1) with
      | mk l r => cases r <;> simp

theorem limit_arity (k : Setter) : k.limit = (toSpec k).arity := by cases k <;> rfl

/-- ToNumber is applied to the same arguments, in the same order, with the same log, as §15.9.5.27–.41 say -/
theorem scripted_conversions (k : Setter) (as : List Arg) :
    convArgs (as.take k.limit) 0 = Spec.convAll ((as.map toSpecArg).take (toSpec k).arity) 0 := by
  rw [conv_eq, limit_arity, List.map_take]

/-- a throwing valueOf: same log, exception on both sides, and the object is what the re-entrant calls left
    (the same setTime arguments on both sides; the outer call has written nothing) -/
theorem scripted_throw (k : Setter) (d : DateObj) (tv : Spec.TV) (as : List Arg) (l : List Nat)
    (h : Spec.convAll ((as.map toSpecArg).take (toSpec k).arity) 0 = (l, none)) :
    setUTCS k d as = (curAfter d (as.take k.limit), .threw, l) ∧
    Spec.setUTCS (toSpec k) tv (as.map toSpecArg) = (Spec.curAfter tv ((as.map toSpecArg).take (toSpec k).arity), .threw, l) := by
  have hm := scripted_conversions k as
  rw [h] at hm
  simp [setUTCS, Spec.setUTCS, hm, h]

theorem curM_curS (k : Setter) (as : List Arg) :
    lastMut (as.take k.limit) = Spec.lastMut ((as.map toSpecArg).take (toSpec k).arity) := by
  rw [lastMut_eq, limit_arity, List.map_take]

/-- no exception: same log, and both sides continue with the unscripted call on the same numbers, computed from the
    time value read at ENTRY (re-entrant setTime calls do not change it) and stored over whatever they wrote -/
theorem scripted_values (k : Setter) (d : DateObj) (tv : Spec.TV) (as : List Arg) (l : List Nat) (vs : List FV)
    (h : Spec.convAll ((as.map toSpecArg).take (toSpec k).arity) 0 = (l, some vs)) :
    setUTCS k d as = ((setUTC k d vs).1, .ret (setUTC k d vs).2, l) ∧
    Spec.setUTCS (toSpec k) tv (as.map toSpecArg) = (Spec.setUTC (toSpec k) tv vs, .ret (Spec.setUTC (toSpec k) tv vs), l) := by
  have hm := scripted_conversions k as
  rw [h] at hm
  simp [setUTCS, Spec.setUTCS, hm, h]

/-- Date.UTC: the first seven arguments are converted, all of them, in order; an exception propagates with the
    same log; otherwise both sides compute on the same numbers -/
theorem scripted_utc (as : List Arg) (l : List Nat) (r : Option (List FV))
    (h : Spec.convAll ((as.map toSpecArg).take 7) 0 = (l, r)) :
    (newDateTimeS as).2 = l ∧ (Spec.dateUTCS (as.map toSpecArg)).2 = l ∧
    (r = none → (newDateTimeS as).1 = .threw ∧ (Spec.dateUTCS (as.map toSpecArg)).1 = .threw) ∧
    (∀ vs, r = some vs → (newDateTimeS as).1 = .ret (newDateTime vs) ∧ (Spec.dateUTCS (as.map toSpecArg)).1 = .ret (Spec.dateUTC vs)) := by
  have hm : convArgs (as.take 7) 0 = (l, r) := by rw [conv_eq, List.map_take]; exact h
  cases r with
  | none => simp [newDateTimeS, Spec.dateUTCS, hm, h]
  | some vs => simp [newDateTimeS, Spec.dateUTCS, hm, h]



-- ---------------------------------------------------------------- Date.UTC wrapper on integral doubles


theorem add1900_fin : ∀ y : Fin 100, OttoVerif.C05.goInt64 (add (.fin false 1900 0) (.fin false y.val 0)) = (y.val : Int) + 1900 := by
  decide +kernel

theorem le_fvInt (a b : Int) : le (fvInt a) (fvInt b) = decide (a ≤ b) := by
  unfold le
  rw [cmp_fvInt]
  by_cases h1 : a < b
  · simp [h1]; omega
  · by_cases h2 : a = b
    · simp [h2]
    · simp [h1, h2]; omega

theorem pick_fvInt (v : Int) : (isNaN (fvInt v) || isInf (fvInt v)) = false := rfl

theorem trunc_fvInt (v : Int) : trunc (fvInt v) = fvInt v := by simp [fvInt, trunc, isIntegral]

theorem clip_eq (um : Int) : (if beyondMax (ofInt um) = true then none else some um) = Spec.TimeClip um := by
  rw [beyondMax_ofInt]; unfold Spec.TimeClip
  by_cases h : um.natAbs > 8640000000000000 <;> simp [h]

theorem yearAdj_cases (y : Int) (_hr : y.natAbs < 2^53) :
    (if (le zero (trunc (fvInt y)) && le (trunc (fvInt y)) (.fin false 99 0)) = true then add (.fin false 1900 0) (trunc (fvInt y)) else fvInt y) =
      (if 0 ≤ y ∧ y ≤ 99 then add (.fin false 1900 0) (.fin false y.toNat 0) else fvInt y) := by
  have e0 : zero = fvInt 0 := rfl
  have e99 : (FV.fin false 99 0) = fvInt 99 := rfl
  rw [trunc_fvInt, e0, e99, le_fvInt, le_fvInt]
  by_cases h : 0 ≤ y ∧ y ≤ 99
  · have h1 := h.1; have h2 := h.2
    have ey : fvInt y = .fin false y.toNat 0 := by
      unfold fvInt; congr 1
      · simp; omega
      · omega
    simp only [h1, h2, decide_true, Bool.and_self, if_true, and_self, ey]
  · have : ¬ (decide (0 ≤ y) && decide (y ≤ 99)) = true := by simp; omega
    simp only [this, h, if_false, Bool.false_eq_true]

theorem yearTest_fin : ∀ y : Fin 100, lt (fvC 2500000) (abs (add (.fin false 1900 0) (.fin false y.val 0))) = false := by
  decide +kernel

theorem tooLarge_year (Y : FV) (m d h mi s ms : Int) (hy : lt (fvC 2500000) (abs Y) = false) :
    tooLarge Y (fvInt m) (fvInt d) (fvInt h) (fvInt mi) (fvInt s) (fvInt ms) = hugeInt 0 m d h mi s ms := by
  unfold tooLarge hugeInt
  simp only [lt_fvC_abs, hy]
  simp [Bool.or_assoc]

/-- the tail of newDateTime on integral doubles: the guard, then exactly §15.9.4.3 with TimeClip -/
theorem ndt_fields (y m d h mi s ms : Int) (hy : y.natAbs < 2^53) (hm : m.natAbs < 2^53) (hd : d.natAbs < 2^53)
    (hh : h.natAbs < 2^53) (hmi : mi.natAbs < 2^53) (hs : s.natAbs < 2^53) (hms : ms.natAbs < 2^53) :
    newDateTimeFields (fvInt y) (fvInt m) (fvInt d) (fvInt h) (fvInt mi) (fvInt s) (fvInt ms) =
      if hugeInt (Spec.fullYear y) m d h mi s ms then none
      else Spec.TimeClip (Spec.MakeDate (Spec.MakeDay (Spec.fullYear y) m d) (Spec.MakeTime h mi s ms)) := by
  unfold newDateTimeFields
  simp only []
  rw [yearAdj_cases y hy]
  have gm := goInt64_small m hm
  have gd := goInt64_small d hd
  have gh := goInt64_small h hh
  have gmi := goInt64_small mi hmi
  have gs := goInt64_small s hs
  have gms := goInt64_small ms hms
  have gy := goInt64_small y hy
  have ge : ∀ v : Int, OttoVerif.C05.goInt64 (fvInt v) = OttoVerif.C05.goInt64 (.fin (decide (v < 0)) v.natAbs 0) := fun _ => rfl
  simp only [ge, gm, gd, gh, gmi, gs, gms]
  by_cases hc : 0 ≤ y ∧ y ≤ 99
  · simp only [hc, and_self, if_true]
    have h1 := yearTest_fin ⟨y.toNat, by omega⟩
    have h2 := add1900_fin ⟨y.toNat, by omega⟩
    simp only [] at h1 h2
    rw [tooLarge_year _ m d h mi s ms h1, h2]
    have hf : Spec.fullYear y = 1900 + y := by unfold Spec.fullYear; rw [if_pos hc]
    have hhuge : hugeInt (Spec.fullYear y) m d h mi s ms = hugeInt 0 m d h mi s ms := by
      rw [hf]; unfold hugeInt
      have : ¬ ((1900 + y).natAbs > 2500000) := by omega
      simp [this]
    rw [hhuge, hf, show ((y.toNat : Nat) : Int) + 1900 = 1900 + y by omega, dateCore, make_compose_ms, clip_eq]
  · simp only [hc, if_false]
    have hf : Spec.fullYear y = y := by unfold Spec.fullYear; rw [if_neg hc]
    rw [tooLarge_fvInt, hf, ge, gy, dateCore, make_compose_ms, clip_eq]

/-- the guard of Date.UTC on a list of 2..7 integers -/
def utcHuge (vs : List Int) : Bool :=
  hugeInt (Spec.fullYear (vs.getD 0 0)) (vs.getD 1 0) (vs.getD 2 1) (vs.getD 3 0) (vs.getD 4 0) (vs.getD 5 0) (vs.getD 6 0)

/-- Date.UTC(y, m, …) with 2..7 integral arguments, through the float64 wrapper, guard and TimeClip included -/
theorem dateUTC_int (vs : List Int) (h2 : 2 ≤ vs.length) (h7 : vs.length ≤ 7) (hsm : ∀ v ∈ vs, v.natAbs < 2^53) :
    newDateTime (vs.map ofInt) = if utcHuge vs then none else Spec.dateUTC (vs.map ofInt) := by
  rw [map_ofInt_small vs hsm]
  have hz : zero = fvInt 0 := rfl
  have ho : one = fvInt 1 := rfl
  have s0 : (0:Int).natAbs < 2^53 := by decide
  have s1 : (1:Int).natAbs < 2^53 := by decide
  rcases vs with _ | ⟨a, _ | ⟨b, _ | ⟨c, _ | ⟨d, _ | ⟨e, _ | ⟨f, _ | ⟨g', _ | ⟨x, rest⟩⟩⟩⟩⟩⟩⟩⟩ <;> simp at h2 h7
  all_goals
    simp only [List.mem_cons, List.mem_nil_iff, or_false, forall_eq_or_imp, forall_eq] at hsm
    simp only [newDateTime, List.map_cons, List.map_nil, List.getElem?_cons_zero, List.getElem?_cons_succ, List.getElem?_nil,
      Option.getD_some, Option.getD_none, hz, ho, List.any_cons, List.any_nil, pick_fvInt, Bool.or_self, Bool.false_eq_true, if_false]
    rw [ndt_fields _ _ _ _ _ _ _ (by omega) (by omega) (by omega) (by omega) (by omega) (by omega) (by omega)]
    simp [utcHuge, Spec.dateUTC, Spec.dateUTCRaw, field_fvInt]

-- ---------------------------------------------------------------- ISO-8601 strings


theorem digits_zero (w : Nat) : Spec.digits w 0 = List.replicate w 48 := by
  induction w with
  | zero => rfl
  | succ w ih => simp [Spec.digits, ih, List.replicate_succ']

theorem digits_length (w n : Nat) : (Spec.digits w n).length = w := by
  induction w generalizing n with
  | zero => rfl
  | succ w ih => simp [Spec.digits, ih]

theorem natDigits_length_pos (f n : Nat) : 1 ≤ (natDigits (f + 1) n).length := by
  unfold natDigits; split <;> simp

theorem pad_natDigits (w : Nat) : ∀ (f n : Nat), 1 ≤ w → w ≤ f → n < 10 ^ w →
    List.replicate (w - (natDigits f n).length) 48 ++ natDigits f n = Spec.digits w n := by
  induction w with
  | zero => intro f n h; omega
  | succ w ih =>
    intro f n _ hf hn
    obtain ⟨f', rfl⟩ : ∃ f', f = f' + 1 := ⟨f - 1, by omega⟩
    by_cases h10 : n < 10
    · have e1 : n / 10 = 0 := by omega
      have e2 : n % 10 = n := by omega
      simp [natDigits, h10, Spec.digits, e1, e2, digits_zero]
    · have hlen : (natDigits (f' + 1) n).length = (natDigits f' (n / 10)).length + 1 := by
        simp [natDigits, h10]
      have hw : 1 ≤ w := by
        rcases Nat.eq_zero_or_pos w with h | h
        · subst h; simp at hn; omega
        · exact h
      have hn' : n / 10 < 10 ^ w := by
        rw [Nat.pow_succ] at hn; omega
      have := ih f' (n / 10) hw (by omega) hn'
      rw [hlen, show w + 1 - ((natDigits f' (n / 10)).length + 1) = w - (natDigits f' (n / 10)).length by omega]
      simp only [natDigits, h10, if_false, Spec.digits]
      rw [← List.append_assoc, this]

theorem goAppendInt_nonneg (x : Int) (w : Nat) (h0 : 0 ≤ x) (hw : 1 ≤ w) (hw25 : w ≤ 25) (h1 : x.toNat < 10 ^ w) :
    goAppendInt x w = Spec.digits w x.toNat := by
  unfold goAppendInt
  have : ¬ x < 0 := by omega
  simp only [this, if_false, List.nil_append]
  rw [show x.natAbs = x.toNat by omega]
  exact pad_natDigits w 25 x.toNat hw hw25 h1

theorem digits_mul10 (w n : Nat) : Spec.digits (w + 1) (10 * n) = Spec.digits w n ++ [48] := by
  simp [Spec.digits]

theorem app9 (x : Int) (h0 : 0 ≤ x) (h1 : x ≤ 999) : (goAppendInt (x * 1000000) 9).take 3 = Spec.digits 3 x.toNat := by
  rw [goAppendInt_nonneg (x * 1000000) 9 (by omega) (by omega) (by omega) (by omega)]
  rw [show (x * 1000000).toNat = 10 * (10 * (10 * (10 * (10 * (10 * x.toNat))))) by omega]
  simp only [digits_mul10, List.append_assoc]
  rw [List.take_append_of_le_length (by simp [digits_length])]
  exact List.take_of_length_le (by simp [digits_length])

theorem isLeap_flag (t : Int) : goIsLeap (Spec.YearFromTime t) = decide (Spec.InLeapYear t = 1) := by
  unfold Spec.InLeapYear
  by_cases hc : Spec.DaysInYear (Spec.YearFromTime t) = 366
  · simp [hc, (goIsLeap_iff _).2 hc]
  · have : goIsLeap (Spec.YearFromTime t) = false := by
      cases hh : goIsLeap (Spec.YearFromTime t) with
      | false => rfl
      | true => exact absurd ((goIsLeap_iff _).1 hh) hc
    simp [hc, this]

theorem sprintf_eq (x : Int) (h : x.natAbs < 10 ^ 6) :
    goSprintfPlus07 x = (if x < 0 then 45 else 43) :: Spec.digits 6 x.natAbs := by
  unfold goSprintfPlus07
  have := pad_natDigits 6 25 x.natAbs (by omega) (by omega) h
  simp only []
  rw [List.append_assoc, this]
  split <;> rfl

/-- toISOString of a valid date is the §15.9.1.15 string, expanded years included (|year| < 10^6) -/
theorem iso_format_eq (t : Int) (hy : (Spec.YearFromTime t).natAbs < 10 ^ 6) :
    goFormatISO (stateTime t) = Spec.isoString t := by
  have hd := goAbsDate_eq _ _ (sameDay_state t)
  unfold goFormatISO Spec.isoString
  simp only [goYear, goMonth, goDay, hd, goHour_state, goMinute_state, goSecond_state]
  obtain ⟨hm, hdt, _, hh, hmi, hs, hms⟩ := field_ranges t
  have ens : (stateTime t).nsec = Spec.msFromTime t * 1000000 := rfl
  rw [goAppendInt_nonneg (Spec.MonthFromTime t + 1) 2 (by omega) (by omega) (by omega) (by omega),
      goAppendInt_nonneg (Spec.DateFromTime t) 2 (by omega) (by omega) (by omega) (by omega),
      goAppendInt_nonneg (Spec.HourFromTime t) 2 (by omega) (by omega) (by omega) (by omega),
      goAppendInt_nonneg (Spec.MinFromTime t) 2 (by omega) (by omega) (by omega) (by omega),
      goAppendInt_nonneg (Spec.SecFromTime t) 2 (by omega) (by omega) (by omega) (by omega),
      ens, app9 _ hms.1 hms.2]
  by_cases h4 : 0 ≤ Spec.YearFromTime t ∧ Spec.YearFromTime t ≤ 9999
  · have hn : ¬ (Spec.YearFromTime t < 0 ∨ Spec.YearFromTime t > 9999) := by omega
    rw [if_neg hn, if_pos h4, goAppendInt_nonneg _ 4 h4.1 (by omega) (by omega) (by omega)]
  · have hn : Spec.YearFromTime t < 0 ∨ Spec.YearFromTime t > 9999 := by omega
    rw [if_pos hn, if_neg h4, sprintf_eq _ hy]
    by_cases hneg : Spec.YearFromTime t < 0
    · simp only [hneg, if_true]
      rw [show (Spec.YearFromTime t).natAbs = (-Spec.YearFromTime t).toNat by omega]
    · simp only [hneg, if_false]
      rw [show (Spec.YearFromTime t).natAbs = (Spec.YearFromTime t).toNat by omega]

theorem digitVal_ok (a : Nat) (h : a < 10) : digitVal? (48 + a) = some (a : Int) := by
  unfold digitVal?
  rw [if_pos (by omega)]
  congr 1; omega

theorem num2_ok (a b : Nat) (ha : a < 10) (hb : b < 10) : num2? (48 + a) (48 + b) = some ((a : Int) * 10 + b) := by
  simp [num2?, digitVal_ok, ha, hb]


theorem parseTail_ok (mo d h mi s ms : Nat) (hmo : mo < 100) (hd : d < 100) (hh : h < 100) (hmi : mi < 100) (hs : s < 100) (hms : ms < 1000) :
    parseTail ([45] ++ Spec.digits 2 mo ++ [45] ++ Spec.digits 2 d ++ [84] ++ Spec.digits 2 h ++ [58] ++ Spec.digits 2 mi ++ [58]
        ++ Spec.digits 2 s ++ [46] ++ Spec.digits 3 ms ++ [90]) = some ((mo : Int), (d : Int), (h : Int), (mi : Int), (s : Int), (ms : Int)) := by
  simp only [Spec.digits, List.nil_append, List.cons_append]
  unfold parseTail
  simp only []
  rw [num2_ok _ _ (by omega) (by omega), num2_ok _ _ (by omega) (by omega), num2_ok _ _ (by omega) (by omega), num2_ok _ _ (by omega) (by omega),
      num2_ok _ _ (by omega) (by omega), num2_ok _ _ (by omega) (by omega), digitVal_ok _ (by omega)]
  simp only []
  have e2 : ∀ n : Nat, n < 100 → ((n / 10 % 10 : Nat) : Int) * 10 + ((n % 10 : Nat) : Int) = (n : Int) := by intro n h; omega
  have ems : ((ms / 10 / 10 % 10 : Nat) : Int) * 100 + (((ms / 10 % 10 : Nat) : Int) * 10 + ((ms % 10 : Nat) : Int)) = (ms : Int) := by omega
  rw [e2 mo hmo, e2 d hd, e2 h hh, e2 mi hmi, e2 s hs, ems]

set_option maxRecDepth 100000 in
theorem date_le_fin : ∀ n : Fin 366, ∀ l : Fin 2, (n.val < 365 + l.val) →
    (n.val : Int) - Spec.monthStart (monthOf n.val l.val) l.val + 1 ≤
      (if monthOf n.val l.val + 1 = 2 then (if decide ((l.val : Int) = 1) = true then 29 else 28)
       else goDaysBefore (monthOf n.val l.val + 1) - goDaysBefore (monthOf n.val l.val + 1 - 1)) := by
  decide +kernel

theorem date_le_daysIn (t : Int) : Spec.DateFromTime t ≤ goDaysIn (Spec.MonthFromTime t + 1) (Spec.YearFromTime t) := by
  have hr := dayWithinYear_range t
  have hl := inLeapYear_01 t
  rw [dateFromTime_eq, monthFromTime_eq]
  unfold goDaysIn
  rw [isLeap_flag]
  generalize Spec.DayWithinYear t = d at *
  generalize Spec.InLeapYear t = l at *
  have hd : d = ((⟨d.toNat, by omega⟩ : Fin 366).val : Int) := by simp; omega
  have hl' : l = ((⟨l.toNat, by omega⟩ : Fin 2).val : Int) := by simp; omega
  have := date_le_fin ⟨d.toNat, by omega⟩ ⟨l.toNat, by omega⟩ (by simp; omega)
  rw [← hd, ← hl'] at this
  exact this


theorem parseFields_ok (t : Int) (h : t.natAbs ≤ 8640000000000000) (year shift : Int)
    (hys : year + shift = Spec.YearFromTime t) (hleap : goIsLeap year = goIsLeap (Spec.YearFromTime t)) :
    parseFields year shift (Spec.MonthFromTime t + 1) (Spec.DateFromTime t) (Spec.HourFromTime t) (Spec.MinFromTime t)
      (Spec.SecFromTime t) (Spec.msFromTime t) = some t := by
  obtain ⟨hm, hdt, _, hh, hmi, hs, hms⟩ := field_ranges t
  have hdi := date_le_daysIn t
  have hdi' : Spec.DateFromTime t ≤ goDaysIn (Spec.MonthFromTime t + 1) year := by
    unfold goDaysIn at hdi ⊢; rw [hleap]; exact hdi
  unfold parseFields
  rw [if_neg (by omega), hys, make_compose, makeDay_roundtrip, makeTime_roundtrip, makeDate_roundtrip]
  have hb : beyondMax (ofInt t) = false := by rw [beyondMax_ofInt]; simp; omega
  simp [hb]

theorem isLeap_cycle (y : Int) : goIsLeap (2000 + goMod (goMod y 400 + 400) 400) = goIsLeap y := by
  have h1 := goIsLeap_iff (2000 + goMod (goMod y 400 + 400) 400)
  have h2 := goIsLeap_iff y
  have hd : Spec.DaysInYear (2000 + goMod (goMod y 400 + 400) 400) = Spec.DaysInYear y := by
    unfold Spec.DaysInYear goMod goDiv
    repeat' split
    all_goals omega
  cases ha : goIsLeap (2000 + goMod (goMod y 400 + 400) 400) <;> cases hb : goIsLeap y <;> simp_all

/-- Date.parse(d.toISOString()) = d.getTime() for EVERY valid date (four-digit and expanded years) -/
theorem iso_roundtrip (t : Int) (h : t.natAbs ≤ 8640000000000000) :
    dateParseISO (goFormatISO (stateTime t)) = some (some t) := by
  obtain ⟨hy0, hy1⟩ := year_bound t h
  rw [iso_format_eq t (by omega)]
  obtain ⟨hm, hdt, _, hh, hmi, hs, hms⟩ := field_ranges t
  have pt := parseTail_ok (Spec.MonthFromTime t + 1).toNat (Spec.DateFromTime t).toNat (Spec.HourFromTime t).toNat
    (Spec.MinFromTime t).toNat (Spec.SecFromTime t).toNat (Spec.msFromTime t).toNat
    (by omega) (by omega) (by omega) (by omega) (by omega) (by omega)
  rw [show (((Spec.MonthFromTime t + 1).toNat : Nat) : Int) = Spec.MonthFromTime t + 1 by omega,
      show ((Spec.DateFromTime t).toNat : Int) = Spec.DateFromTime t by omega,
      show ((Spec.HourFromTime t).toNat : Int) = Spec.HourFromTime t by omega,
      show ((Spec.MinFromTime t).toNat : Int) = Spec.MinFromTime t by omega,
      show ((Spec.SecFromTime t).toNat : Int) = Spec.SecFromTime t by omega,
      show ((Spec.msFromTime t).toNat : Int) = Spec.msFromTime t by omega] at pt
  simp only [Spec.digits, List.nil_append, List.cons_append] at pt
  unfold Spec.isoString
  by_cases h4 : 0 ≤ Spec.YearFromTime t ∧ Spec.YearFromTime t ≤ 9999
  · simp only [h4, and_self, if_true]
    simp only [Spec.digits, List.nil_append, List.cons_append]
    unfold dateParseISO
    simp only [pt]
    rw [num2_ok _ _ (by omega) (by omega), num2_ok _ _ (by omega) (by omega)]
    simp only []
    have ey : (((((Spec.YearFromTime t).toNat / 10 / 10 / 10 % 10 : Nat) : Int) * 10 + (((Spec.YearFromTime t).toNat / 10 / 10 % 10 : Nat) : Int)) * 100 + ((((Spec.YearFromTime t).toNat / 10 % 10 : Nat) : Int) * 10 + (((Spec.YearFromTime t).toNat % 10 : Nat) : Int))) = Spec.YearFromTime t := by omega
    rw [ey, parseFields_ok t h _ 0 (by omega) rfl]
  · have hn : Spec.YearFromTime t < 0 ∨ Spec.YearFromTime t > 9999 := by omega
    simp only [h4, if_false]
    by_cases hneg : Spec.YearFromTime t < 0
    · simp only [hneg, if_true]
      simp only [Spec.digits, List.nil_append, List.cons_append]
      unfold dateParseISO
      simp only [pt]
      rw [num2_ok _ _ (by omega) (by omega), num2_ok _ _ (by omega) (by omega), num2_ok _ _ (by omega) (by omega)]
      have eu : (((((-Spec.YearFromTime t).toNat / 10 / 10 / 10 / 10 / 10 % 10 : Nat) : Int) * 10 + (((-Spec.YearFromTime t).toNat / 10 / 10 / 10 / 10 % 10 : Nat) : Int)) * 10000
          + ((((-Spec.YearFromTime t).toNat / 10 / 10 / 10 % 10 : Nat) : Int) * 10 + (((-Spec.YearFromTime t).toNat / 10 / 10 % 10 : Nat) : Int)) * 100
          + ((((-Spec.YearFromTime t).toNat / 10 % 10 : Nat) : Int) * 10 + (((-Spec.YearFromTime t).toNat % 10 : Nat) : Int))) = -Spec.YearFromTime t := by omega
      simp only [eu, ne_eq, reduceCtorEq, not_true_eq_false, not_false_eq_true, and_false, and_true, false_and, if_false, if_true, Int.neg_neg, Nat.reduceEqDiff]
      rw [if_neg (by omega), parseFields_ok t h _ _ (by omega) (isLeap_cycle _)]
    · simp only [hneg, if_false]
      simp only [Spec.digits, List.nil_append, List.cons_append]
      unfold dateParseISO
      simp only [pt]
      rw [num2_ok _ _ (by omega) (by omega), num2_ok _ _ (by omega) (by omega), num2_ok _ _ (by omega) (by omega)]
      have eu : (((((Spec.YearFromTime t).toNat / 10 / 10 / 10 / 10 / 10 % 10 : Nat) : Int) * 10 + (((Spec.YearFromTime t).toNat / 10 / 10 / 10 / 10 % 10 : Nat) : Int)) * 10000
          + ((((Spec.YearFromTime t).toNat / 10 / 10 / 10 % 10 : Nat) : Int) * 10 + (((Spec.YearFromTime t).toNat / 10 / 10 % 10 : Nat) : Int)) * 100
          + ((((Spec.YearFromTime t).toNat / 10 % 10 : Nat) : Int) * 10 + (((Spec.YearFromTime t).toNat % 10 : Nat) : Int))) = Spec.YearFromTime t := by omega
      simp only [eu, ne_eq, reduceCtorEq, not_true_eq_false, not_false_eq_true, and_false, and_true, false_and, if_false, if_true, Int.neg_neg, Nat.reduceEqDiff]
      rw [parseFields_ok t h _ _ (by omega) (isLeap_cycle _)]

-- ---------------------------------------------------------------- the host zone: fixed offsets


theorem wall_fixed (o t : Int) : Zone.wall (.fixed o) (stateTime t) = stateTime (t + o * 1000) := by
  unfold Zone.wall Zone.offsetAt Zone.lookup stateTime
  simp only []
  congr 1 <;> omega

theorem dateToUnix_fixed (o u : Int) : Zone.dateToUnix (.fixed o) u = u - o := by
  unfold Zone.dateToUnix Zone.offsetAt Zone.lookup
  simp only []
  by_cases h : o = 0
  · subst h; simp
  · simp only [ne_eq, h, not_false_eq_true, if_true]
    split <;> rfl

theorem localTime_fixed (o t : Int) : Spec.LocalTime (.fixed o) t = t + o * 1000 := by
  simp [Spec.LocalTime, Spec.LocalTZA, Spec.DaylightSavingTA]
theorem utc_fixed (o x : Int) : Spec.UTC (.fixed o) x = x - o * 1000 := by
  simp [Spec.UTC, Spec.LocalTZA, Spec.DaylightSavingTA]

/-- the local getters (and getYear, getTimezoneOffset) under a fixed-offset zone are the §15.9.1 functions of
    LocalTime(t) = t + LocalTZA, for every integer t and every whole-minute offset -/
theorem local_getters_fixed (o t : Int) (ho : o % 60 = 0) :
    observeLocal (.fixed o) (validState t) = Spec.observeLocal (.fixed o) (some t) := by
  have hw := wall_fixed o t
  have hd := goAbsDate_eq _ _ (sameDay_state (t + o * 1000))
  have hoff : Zone.offsetAt (.fixed o) (stateTime t).sec = o := rfl
  have hq : goDiv (-o) 60 = (t - (t + o * 1000)) / 60000 := by
    unfold goDiv; split <;> omega
  simp only [observeLocal, Spec.observeLocal, validState, Bool.false_eq_true, if_false, hw, localTime_fixed]
  simp [goYear, goMonth, goDay, hd, goWeekday_state, goHour_state, goMinute_state, goSecond_state, goMilli_state, hoff, hq]

theorem unixMilli_shift (s n o : Int) : goUnixMilli ⟨s - o, n⟩ = goUnixMilli ⟨s, n⟩ - o * 1000 := by
  unfold goUnixMilli; simp only []; omega

/-- the body of a local setter under a fixed-offset zone: split LocalTime(t) into fields, recompose, convert back with
    UTC(·) — for every integer t, offset and integer arguments (before the too-large guard and TimeClip) -/
theorem local_setter_core_fixed (o : Int) (k : Setter) (t : Int) (vs : List Int) (hk : k ≠ .time)
    (h1 : 1 ≤ vs.length) (h2 : vs.length ≤ k.limit) :
    let w := (applySetter k (newEcmaTime (Zone.wall (.fixed o) (stateTime t))) vs).goTimeCore
    some (goUnixMilli ⟨Zone.dateToUnix (.fixed o) w.sec, w.nsec⟩) =
      (Spec.setUTCRaw (toSpec k) (some (Spec.LocalTime (.fixed o) t)) (vs.map fvInt)).map (Spec.UTC (.fixed o)) := by
  intro w
  have hc := setter_core k (t + o * 1000) vs hk h1 h2
  rw [localTime_fixed, ← hc]
  simp only [Option.map_some, utc_fixed, dateToUnix_fixed, unixMilli_shift]
  simp only [w, wall_fixed, setCoreU]

/-- the multi-argument constructor under a fixed-offset zone: UTC(MakeDate(MakeDay, MakeTime)) on ℤ^7 -/
theorem local_ctor_core_fixed (o y m d h mi s ms : Int) :
    let w := goDateMs y (m + 1) d h mi s ms
    goUnixMilli ⟨Zone.dateToUnix (.fixed o) w.sec, w.nsec⟩ =
      Spec.UTC (.fixed o) (Spec.MakeDate (Spec.MakeDay y m d) (Spec.MakeTime h mi s ms)) := by
  intro w
  rw [dateToUnix_fixed, unixMilli_shift, utc_fixed]
  have := make_compose_ms y m d h mi s ms
  simp only [w] at *
  rw [← this]

theorem wall_zero (t : GoTime) : Zone.wall (.fixed 0) t = t := by
  cases t; simp [Zone.wall, Zone.offsetAt, Zone.lookup]

theorem goTimeIn_zero (e : EcmaTime) : e.goTimeIn (.fixed 0) = e.goTime := by
  unfold EcmaTime.goTimeIn EcmaTime.goTime
  split
  · rfl
  · simp [dateToUnix_fixed]

/-- with time.Local = UTC the local setters ARE the UTC setters of the model (setYear aside, which has no UTC twin) -/
theorem local_zero_is_utc (k : LSetter) (hk : k ≠ .year2) (d : DateObj) (args : List FV) :
    setLocal (.fixed 0) k d args = setUTC k.base d args := by
  have hz : newDate (ofInt (Zone.dateToUnix (.fixed 0) 0 * 1000)) = newDate zero := by decide +kernel
  cases k <;> first | exact absurd rfl hk | (
    simp only [setLocal, setUTC, LSetter.base, LSetter.limit, wall_zero, goTimeIn_zero, hz, setCore, ne_eq, reduceCtorEq,
      not_false_eq_true, and_true, not_true_eq_false, and_false]
    try rfl)

end OttoVerif.C12.Lem
