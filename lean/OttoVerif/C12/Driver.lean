/-
  C12/Driver — line protocol front end (core-only).
  requests (doubles are 16-hex bit patterns):
    obs <v>                        new Date(v): valueOf,getTime,getUTCFullYear,Month,Date,Day,Hours,Minutes,Seconds,Milliseconds
    iso <v> | json <v>             new Date(v).toISOString() / .toJSON()
    rt <v>                         Date.parse(new Date(v).toISOString())
    utc <a1> … <an>   (2 ≤ n ≤ 8) Date.UTC(a1,…,an)
    ctor <a1> … <an>  (2 ≤ n ≤ 8) new Date(a1,…,an) with local time = UTC: the ten observations
    set <v> <step>…                d = new Date(v); each step `name:arg,arg…` is d.setUTC<name>(args) (time = setTime);
                                   reply: return values, then `|`, then the ten observations of the final object
  reply:  <model> <spec> <dev>
-/
import OttoVerif.Base.Proto
import OttoVerif.C12.Model
import OttoVerif.C12.Spec
namespace OttoVerif.C12.Driver
open OttoVerif.F64 OttoVerif.Proto OttoVerif.C12

/-- a number as the harness prints it: the exact integer value of the double the Value converts to -/
def numOut : Option Int → String
  | none => "NaN"
  | some i => toString (truncInt (ofInt i))

def join (xs : List String) : String := ",".intercalate xs

def strOut : OttoVerif.C12.Str → String
  | .ok b => "s:" ++ bytesOut b
  | .rangeError => "throw:RangeError"
  | .null => "null"

def strOutS : Spec.Str → String
  | .ok b => "s:" ++ bytesOut b
  | .rangeError => "throw:RangeError"
  | .null => "null"

def obsModel (d : DateObj) : String :=
  match observe d with
  | v :: rest => join ((v :: getTime d :: rest).map numOut)
  | [] => "?"

def obsSpec (tv : Spec.TV) : String :=
  match Spec.observe tv with
  | v :: rest => join ((v :: v :: rest).map numOut)
  | [] => "?"

def setterM? : String → Option Setter
  | "Milliseconds" => some .ms | "Seconds" => some .sec | "Minutes" => some .min | "Hours" => some .hour
  | "Date" => some .date | "Month" => some .month | "FullYear" => some .year | "time" => some .time | _ => none

def toSpecSetter : Setter → Spec.Setter
  | .ms => .ms | .sec => .sec | .min => .min | .hour => .hour | .date => .date | .month => .month | .year => .year | .time => .time

def step? (w : String) : Option (Setter × List FV) :=
  match w.splitOn ":" with
  | [k, a] => do
    let k ← setterM? k
    let as ← if a.isEmpty then some [] else (a.splitOn ",").mapM f64?
    pure (k, as)
  | _ => none

/-- No deviation region is left for this property: every request is expected to agree with the spec. -/
def noDev : String := "-"

def reply (m s : String) (dev : String) : String := m ++ " " ++ s ++ " " ++ dev

def handle (ws : List String) : String :=
  match ws with
  | ["obs", a] => match f64? a with
    | some v => reply (obsModel (newDate v)) (obsSpec (Spec.clipNumber v)) noDev
    | none => "bad-op"
  | ["iso", a] => match f64? a with
    | some v => reply (strOut (toISOString (newDate v))) (strOutS (Spec.toISOString (Spec.clipNumber v))) noDev
    | none => "bad-op"
  | ["json", a] => match f64? a with
    | some v => reply (strOut (toJSON (newDate v))) (strOutS (Spec.toJSON (Spec.clipNumber v))) noDev
    | none => "bad-op"
  | ["rt", a] => match f64? a with
    | some v =>
      -- Date.parse(new Date(v).toISOString()): toISOString throws first on an invalid date
      let m := match toISOString (newDate v) with
        | .ok _ => numOut (parseOfISO (newDate v))
        | other => strOut other
      let s := match Spec.clipNumber v with
        | some t => numOut (Spec.parseOfISO t)
        | none => strOutS (Spec.toISOString none)
      reply m s noDev
    | none => "bad-op"
  | "utc" :: as => match as.mapM f64? with
    | some args =>
      if args.length < 2 then "bad-op" else
      reply (numOut (newDateTime args)) (numOut (Spec.dateUTC args)) noDev
    | none => "bad-op"
  | "ctor" :: as => match as.mapM f64? with
    | some args =>
      if args.length < 2 then "bad-op" else
      let m := match newDateTime args with
        | some i => newDate (ofInt i)
        | none => newDate .nan
      reply (obsModel m) (obsSpec (Spec.dateUTC args)) noDev
    | none => "bad-op"
  | "set" :: a :: steps => match f64? a, steps.mapM step? with
    | some v, some hs =>
      let (df, rs) := runSetters (newDate v) hs
      let (tf, ss) := Spec.runSetters (Spec.clipNumber v) (hs.map (fun s => (toSpecSetter s.1, s.2)))
      reply (join (rs.map numOut) ++ "|" ++ obsModel df) (join (ss.map numOut) ++ "|" ++ obsSpec tf) noDev
    | _, _ => "bad-op"
  | _ => "bad-op"

end OttoVerif.C12.Driver
