/-
  C12/Driver — line protocol front end (core-only).
  requests (doubles are 16-hex bit patterns):
    obs <v>                        new Date(v): valueOf,getTime,getUTCFullYear,Month,Date,Day,Hours,Minutes,Seconds,Milliseconds
    iso <v> | json <v>             new Date(v).toISOString() / .toJSON()
    rt <v>                         Date.parse(new Date(v).toISOString())
    utc <a1> … <an>   (2 ≤ n ≤ 8) Date.UTC(a1,…,an)
    ctor <a1> … <an>  (2 ≤ n ≤ 8) new Date(a1,…,an) with local time = UTC: the ten observations
    set <v> <step>…                d = new Date(v); each step `name:arg,arg…` is d.setUTC<name>(args) (time = setTime);
                                   reply: return values, then `|`, then the ten observations of the final object
    sset <v> <step>…               the same with scripted arguments: `n<hex>` a number, `o<hex>` an object whose valueOf logs its
                                   index and returns the number, `t` an object whose valueOf logs and throws;
                                   reply: per step `<log>:<return value | throw>`, then `|`, then the observations
    sutc <arg> … (2..8)            Date.UTC with scripted arguments; reply `<log>:<value | throw>`
  reply:  <model> <spec> <dev>
-/
import OttoVerif.Base.Proto
import OttoVerif.C12.Model
import OttoVerif.C12.Spec
namespace OttoVerif.C12.Driver
open OttoVerif.F64 OttoVerif.Proto OttoVerif.C12

/-- a number as the harness prints it: the exact integer value of the double the Value converts to -/
def numOut : Option Int → String
  | none => "NaN"
  | some i => toString (truncInt (ofInt i))

def join (xs : List String) : String := ",".intercalate xs

def strOut : OttoVerif.C12.Str → String
  | .ok b => "s:" ++ bytesOut b
  | .rangeError => "throw:RangeError"
  | .null => "null"

def strOutS : Spec.Str → String
  | .ok b => "s:" ++ bytesOut b
  | .rangeError => "throw:RangeError"
  | .null => "null"

def obsModel (d : DateObj) : String :=
  match observe d with
  | v :: rest => join ((v :: getTime d :: rest).map numOut)
  | [] => "?"

def obsSpec (tv : Spec.TV) : String :=
  match Spec.observe tv with
  | v :: rest => join ((v :: v :: rest).map numOut)
  | [] => "?"

def setterM? : String → Option Setter
  | "Milliseconds" => some .ms | "Seconds" => some .sec | "Minutes" => some .min | "Hours" => some .hour
  | "Date" => some .date | "Month" => some .month | "FullYear" => some .year | "time" => some .time | _ => none

def toSpecSetter : Setter → Spec.Setter
  | .ms => .ms | .sec => .sec | .min => .min | .hour => .hour | .date => .date | .month => .month | .year => .year | .time => .time

def step? (w : String) : Option (Setter × List FV) :=
  match w.splitOn ":" with
  | [k, a] => do
    let k ← setterM? k
    let as ← if a.isEmpty then some [] else (a.splitOn ",").mapM f64?
    pure (k, as)
  | _ => none

/-- No deviation region is left for this property: every request is expected to agree with the spec. -/
def noDev : String := "-"

def arg? (w : String) : Option Arg :=
  if w = "t" then some .thrower
  else match w.toList with
    | 'n' :: h => (f64? (String.ofList h)).map .num
    | 'o' :: h => (f64? (String.ofList h)).map .obj
    | 'm' :: h => match (String.ofList h).splitOn "_" with
      | [x, m] => match f64? x, f64? m with
        | some x, some m => some (.mut x m)
        | _, _ => none
      | _ => none
    | _ => none

def toSpecArg : Arg → Spec.Arg
  | .num x => .num x | .obj x => .obj x | .thrower => .thrower | .mut x m => .mut x m

def sstep? (w : String) : Option (Setter × List Arg) :=
  match w.splitOn ":" with
  | [k, a] => do
    let k ← setterM? k
    let as ← if a.isEmpty then some [] else (a.splitOn ",").mapM arg?
    pure (k, as)
  | _ => none

def logOut (l : List Nat) : String := if l.isEmpty then "-" else ".".intercalate (l.map toString)
def outcomeOut : Outcome → String
  | .ret n => numOut n | .threw => "throw"
def outcomeOutS : Spec.Outcome → String
  | .ret n => numOut n | .threw => "throw"

/-- region huge_field_cancel: a field trips the too-large guard (otto: NaN) although the exact integer
    recomposition of §15.9.1.11–13 lands inside the range because other huge fields cancel it -/
def utcHuge (args : List FV) : Bool :=
  let get (i : Nat) (dflt : FV) : FV := (args[i]?).getD dflt
  let year := get 0 zero
  let integer := trunc year
  let year := if le zero integer && le integer (.fin false 99 0) then add (.fin false 1900 0) integer else year
  (args.take 7).all (fun x => (Spec.field? x).isSome) &&
  tooLarge year (get 1 zero) (get 2 one) (get 3 zero) (get 4 zero) (get 5 zero) (get 6 zero)

def setterHuge (k : Setter) (d : DateObj) (tv : Spec.TV) (args : List FV) : Bool :=
  if k = .time then false else
  let as := args.take k.limit
  match (if as.isEmpty then none else numberArgs as) with
  | none => false
  | some vs =>
    if d.isNaN ∧ k ≠ .year then false else
    let base := if d.isNaN then newDate zero else d
    let e := applySetter k (newEcmaTime base.time) vs
    tooLarge (ofInt e.year) (ofInt e.month) (ofInt e.day) (ofInt e.hour) (ofInt e.minute) (ofInt e.second) (ofInt e.millisecond) &&
    (Spec.setUTC (toSpecSetter k) tv args).isSome

def runDev (d : DateObj) (tv : Spec.TV) : List (Setter × List FV) → List String → List String
  | [], devs => devs
  | (k, a) :: rest, devs =>
    let devs := if setterHuge k d tv a then devs ++ ["huge_field_cancel"] else devs
    runDev (setUTC k d a).1 (Spec.setUTC (toSpecSetter k) tv a) rest devs

def argVals (as : List Arg) : List FV := as.filterMap Arg.val?

def runDevS (d : DateObj) (tv : Spec.TV) : List (Setter × List Arg) → List String → List String
  | [], devs => devs
  | (k, a) :: rest, devs =>
    let threw := (a.take k.limit).any (fun x => x.val?.isNone)
    let devs := if !threw && setterHuge k d tv (argVals a) then devs ++ ["huge_field_cancel"] else devs
    runDevS (setUTCS k d a).1 (Spec.setUTCS (toSpecSetter k) tv (a.map toSpecArg)).1 rest devs

def devList (ds : List String) : String :=
  let ds := ds.eraseDups
  if ds.isEmpty then "-" else ",".intercalate ds

def reply (m s : String) (dev : String) : String := m ++ " " ++ s ++ " " ++ dev

/-- the optional leading `z:<zone>` token names the host zone (time.Local) the request runs under -/
def splitZone (ws : List String) : String × List String :=
  match ws with
  | w :: rest => if w.startsWith "z:" then ((w.drop 2).toString, rest) else ("UTC", ws)
  | [] => ("UTC", [])

/-- requests whose meaning does not involve the host zone at all: the zone token is dropped before they are
    interpreted, so neither model nor spec can depend on it -/
def handleUTC (ws : List String) : String :=
  match ws with
  | ["obs", a] => match f64? a with
    | some v => reply (obsModel (newDate v)) (obsSpec (Spec.clipNumber v)) noDev
    | none => "bad-op"
  | ["iso", a] => match f64? a with
    | some v => reply (strOut (toISOString (newDate v))) (strOutS (Spec.toISOString (Spec.clipNumber v))) noDev
    | none => "bad-op"
  | ["json", a] => match f64? a with
    | some v => reply (strOut (toJSON (newDate v))) (strOutS (Spec.toJSON (Spec.clipNumber v))) noDev
    | none => "bad-op"
  | ["rt", a] => match f64? a with
    | some v =>
      -- Date.parse(new Date(v).toISOString()): toISOString throws first on an invalid date
      let m := match toISOString (newDate v) with
        | .ok _ => numOut (parseOfISO (newDate v))
        | other => strOut other
      let s := match Spec.clipNumber v with
        | some t => numOut (Spec.parseOfISO t)
        | none => strOutS (Spec.toISOString none)
      reply m s noDev
    | none => "bad-op"
  | "utc" :: as => match as.mapM f64? with
    | some args =>
      if args.length < 2 then "bad-op" else
      reply (numOut (newDateTime args)) (numOut (Spec.dateUTC args)) (if utcHuge args && (Spec.dateUTC args).isSome then "huge_field_cancel" else "-")
    | none => "bad-op"
  | "set" :: a :: steps => match f64? a, steps.mapM step? with
    | some v, some hs =>
      let (df, rs) := runSetters (newDate v) hs
      let (tf, ss) := Spec.runSetters (Spec.clipNumber v) (hs.map (fun s => (toSpecSetter s.1, s.2)))
      reply (join (rs.map numOut) ++ "|" ++ obsModel df) (join (ss.map numOut) ++ "|" ++ obsSpec tf)
        (devList (runDev (newDate v) (Spec.clipNumber v) hs []))
    | _, _ => "bad-op"
  | "sset" :: a :: steps => match f64? a, steps.mapM sstep? with
    | some v, some hs =>
      let (df, rs) := runSettersS (newDate v) hs
      let (tf, ss) := Spec.runSettersS (Spec.clipNumber v) (hs.map (fun s => (toSpecSetter s.1, s.2.map toSpecArg)))
      let devs := runDevS (newDate v) (Spec.clipNumber v) hs []
      reply (join (rs.map (fun r => logOut r.2 ++ ":" ++ outcomeOut r.1)) ++ "|" ++ obsModel df)
            (join (ss.map (fun r => logOut r.2 ++ ":" ++ outcomeOutS r.1)) ++ "|" ++ obsSpec tf) (devList devs)
    | _, _ => "bad-op"
  | "sutc" :: as => match as.mapM arg? with
    | some args =>
      if args.length < 2 then "bad-op" else
      let (mo, ml) := newDateTimeS args
      let (so, sl) := Spec.dateUTCS (args.map toSpecArg)
      let threw := (args.take 7).any (fun x => x.val?.isNone)
      let dev := if !threw && utcHuge (argVals args) && (Spec.dateUTC ((argVals args).take 7)).isSome then ["huge_field_cancel"] else []
      reply (logOut ml ++ ":" ++ outcomeOut mo) (logOut sl ++ ":" ++ outcomeOutS so) (devList dev)
    | none => "bad-op"
  | _ => "bad-op"

def zone? : String → Option (Zone × Spec.Zone)
  | "UTC" => some (.fixed 0, .fixed 0)
  | "F+0530" => some (.fixed 19800, .fixed 19800)
  | "F-0330" => some (.fixed (-12600), .fixed (-12600))
  | "F+1400" => some (.fixed 50400, .fixed 50400)
  | "F-1200" => some (.fixed (-43200), .fixed (-43200))
  | "F+0545" => some (.fixed 20700, .fixed 20700)
  | "FXYZ" => some (.fixed 19800, .fixed 19800)      -- FixedZone("XYZ", 19800): an abbreviation ending in Z
  | "NY" => some (.ny, .us2007)
  | "LON" => some (.lon, .eu1996)
  | _ => none

def lsetterM? : String → Option LSetter
  | "Milliseconds" => some .ms | "Seconds" => some .sec | "Minutes" => some .min | "Hours" => some .hour
  | "Date" => some .date | "Month" => some .month | "FullYear" => some .year | "Year" => some .year2 | _ => none

def toSpecLSetter : LSetter → Spec.LSetter
  | .ms => .ms | .sec => .sec | .min => .min | .hour => .hour | .date => .date | .month => .month | .year => .year | .year2 => .year2

def lstep? (w : String) : Option (LSetter × List FV) :=
  match w.splitOn ":" with
  | [k, a] => do
    let k ← lsetterM? k
    let as ← if a.isEmpty then some [] else (a.splitOn ",").mapM f64?
    pure (k, as)
  | _ => none

/-- region local_transition_hour: the local time value handed to UTC(·) lies within the hour after a daylight
    transition (in standard-time terms): the skipped or repeated hour, where Go's time.Date and §15.9.1.9 differ -/
def transitionHour (z : Spec.Zone) (tl : Int) : Bool :=
  let x := tl - Spec.LocalTZA z
  Spec.DaylightSavingTA z x != Spec.DaylightSavingTA z (x - 3600000)

def localRaw (z : Spec.Zone) (k : Spec.LSetter) (tv : Spec.TV) (args : List FV) : Option Int :=
  let args := args.take k.arity
  let loc : Spec.TV := match tv with
    | some t => some (Spec.LocalTime z t)
    | none => if k = .year ∨ k = .year2 then some 0 else none
  match k with
  | .year2 => match loc, Spec.argOr args 0 0 with
    | some t, some y => some (Spec.MakeDate (Spec.MakeDay (Spec.fullYear y) (Spec.MonthFromTime t) (Spec.DateFromTime t)) (Spec.TimeWithinDay t))
    | _, _ => none
  | _ => Spec.setUTCRaw k.base loc args

def localDev (z : Zone) (sz : Spec.Zone) (k : LSetter) (d : DateObj) (tv : Spec.TV) (args : List FV) : List String :=
  let raw := localRaw sz (toSpecLSetter k) tv args
  let d1 := match raw with
    | some tl => if transitionHour sz tl then ["local_transition_hour"] else []
    | none => []
  let d2 : List String := []
  let as := args.take k.limit
  let d3 := match (if as.isEmpty then none else numberArgs as) with
    | none => []
    | some vs =>
      if d.isNaN ∧ k ≠ .year ∧ k ≠ .year2 then [] else
      let base := if d.isNaN then newDate (ofInt (z.dateToUnix 0 * 1000)) else d
      let vs := match k, vs with
        | .year2, [y] => [if 0 ≤ y ∧ y ≤ 99 then y + 1900 else y]
        | _, vs => vs
      let e := applySetter k.base (newEcmaTime (z.wall base.time)) vs
      if tooLarge (ofInt e.year) (ofInt e.month) (ofInt e.day) (ofInt e.hour) (ofInt e.minute) (ofInt e.second) (ofInt e.millisecond)
         && (Spec.setLocal sz (toSpecLSetter k) tv args).isSome then ["huge_field_cancel"] else []
  d1 ++ d2 ++ d3

def runLocalDev (z : Zone) (sz : Spec.Zone) (d : DateObj) (tv : Spec.TV) : List (LSetter × List FV) → List String → List String
  | [], devs => devs
  | (k, a) :: rest, devs =>
    runLocalDev z sz (setLocal z k d a).1 (Spec.setLocal sz (toSpecLSetter k) tv a) rest (devs ++ localDev z sz k d tv a)

def lsstep? (w : String) : Option (LSetter × List Arg) :=
  match w.splitOn ":" with
  | [k, a] => do
    let k ← lsetterM? k
    let as ← if a.isEmpty then some [] else (a.splitOn ",").mapM arg?
    pure (k, as)
  | _ => none

def runLocalDevS (z : Zone) (sz : Spec.Zone) (d : DateObj) (tv : Spec.TV) : List (LSetter × List Arg) → List String → List String
  | [], devs => devs
  | (k, a) :: rest, devs =>
    let as := a.take k.limit
    let threw := as.any (fun x => x.val?.isNone)
    let devs := if !threw then devs ++ localDev z sz k d tv (argVals a) else devs
    runLocalDevS z sz (setLocalS z k d a).1 (Spec.setLocalS sz (toSpecLSetter k) tv (a.map toSpecArg)).1 rest devs

def obsLocalModel (z : Zone) (d : DateObj) : String := join ((observeLocal z d).map numOut)
def obsLocalSpec (z : Spec.Zone) (tv : Spec.TV) : String := join ((Spec.observeLocal z tv).map numOut)

def prim? : String → Option (Prim × Spec.Prim)
  | "num" => some (.numFinite, .numFinite) | "nan" => some (.numNaN, .numNaN) | "inf" => some (.numInf, .numInf)
  | "str" => some (.strNonNumeric, .strNonNumeric) | "strnum" => some (.strNumeric, .strNumeric)
  | "undef" => some (.undef, .undef) | "true" => some (.boolTrue, .boolTrue) | _ => none

def jsonOut : JsonOut → String | .null => "null" | .called => "called" | .typeError => "throw:TypeError"
def jsonOutS : Spec.JsonOut → String | .null => "null" | .called => "called" | .typeError => "throw:TypeError"

/-- the fields of `YYYY-MM-DDTHH:mm[:ss[.sss]](Z|±HH:mm)` (syntax only) -/
def familyFields (s : List Nat) : Option (Int × Int × Int × Int × Int × Int × Int × Int × Int × Int) := do
  let (y, s) ← digitsN 4 s
  let s ← expectByte 45 s
  let (mo, s) ← digitsN 2 s
  let s ← expectByte 45 s
  let (dd, s) ← digitsN 2 s
  let s ← expectByte 84 s
  let (hh, s) ← digitsN 2 s
  let s ← expectByte 58 s
  let (mi, s) ← digitsN 2 s
  let (ss, ms, s) ← parseSecFrac s
  let (sg, oh, om) ← parseZoneDesignator s
  pure (y, mo, dd, hh, mi, ss, ms, sg, oh, om)

/-- requests that involve local time: the zone is a parameter of model and spec -/
def boolTok (b : Bool) : String := if b then "true" else "false"

def handleLocal (z : Zone) (sz : Spec.Zone) (abbrevZ : Bool) (ws : List String) : Option String :=
  match ws with
  | ["lobs", a] => match f64? a with
    | some v => some (reply (obsLocalModel z (newDate v)) (obsLocalSpec sz (Spec.clipNumber v)) noDev)
    | none => some "bad-op"
  | "lset" :: a :: steps => match f64? a, steps.mapM lstep? with
    | some v, some hs =>
      let (df, rs) := runLocalSetters z (newDate v) hs
      let (tf, ss) := Spec.runLocalSetters sz (Spec.clipNumber v) (hs.map (fun s => (toSpecLSetter s.1, s.2)))
      let devs := runLocalDev z sz (newDate v) (Spec.clipNumber v) hs []
      some (reply (join (rs.map numOut) ++ "|" ++ obsModel df ++ "|" ++ obsLocalModel z df)
                  (join (ss.map numOut) ++ "|" ++ obsSpec tf ++ "|" ++ obsLocalSpec sz tf) (devList devs))
    | _, _ => some "bad-op"
  | "lsset" :: a :: steps => match f64? a, steps.mapM lsstep? with
    | some v, some hs =>
      let (df, rs) := runLocalSettersS z (newDate v) hs
      let (tf, ss) := Spec.runLocalSettersS sz (Spec.clipNumber v) (hs.map (fun s => (toSpecLSetter s.1, s.2.map toSpecArg)))
      let devs := runLocalDevS z sz (newDate v) (Spec.clipNumber v) hs []
      some (reply (join (rs.map (fun r => logOut r.2 ++ ":" ++ outcomeOut r.1)) ++ "|" ++ obsModel df)
                  (join (ss.map (fun r => logOut r.2 ++ ":" ++ outcomeOutS r.1)) ++ "|" ++ obsSpec tf) (devList devs))
    | _, _ => some "bad-op"
  | "ctor" :: as => match as.mapM f64? with
    | some args =>
      if args.length < 2 then some "bad-op" else
      let m := match newDateTimeIn z args with
        | some i => newDate (ofInt i)
        | none => newDate .nan
      let d1 := match Spec.dateUTCRaw args with
        | some tl => if transitionHour sz tl then ["local_transition_hour"] else []
        | none => []
      let d2 := if utcHuge args && (Spec.dateLocal sz args).isSome then ["huge_field_cancel"] else []
      some (reply (obsModel m) (obsSpec (Spec.dateLocal sz args)) (devList (d1 ++ d2)))
    | none => some "bad-op"
  | ["rts", a] => match f64? a with
    | some v =>
      let tv := Spec.clipNumber v
      let yr : Int := match tv with | some t => Spec.YearFromTime (Spec.LocalTime sz t) | none => 0
      let dev := (if tv.isSome ∧ ¬ (0 ≤ yr ∧ yr ≤ 9999) then ["rfc1123_year_range"] else [])
      some (reply (numOut (parseOfToString z abbrevZ (newDate v))) (numOut (Spec.parseOfUTCString tv)) (devList dev))
    | none => some "bad-op"
  | ["datefn"] =>
    some (reply (boolTok (dateFunctionAgrees false)) "true" noDev)
  | _ => none

def handleMisc (ws : List String) : Option String :=
  match ws with
  | ["rtu", a] => match f64? a with
    | some v =>
      let tv := Spec.clipNumber v
      let yr : Int := match tv with | some t => Spec.YearFromTime t | none => 0
      let dev := if tv.isSome ∧ ¬ (0 ≤ yr ∧ yr ≤ 9999) then ["rfc1123_year_range"] else []
      some (reply (numOut (parseOfUTCString (newDate v))) (numOut (Spec.parseOfUTCString tv)) (devList dev))
    | none => some "bad-op"
  | ["tojson", p, c] => match prim? p with
    | some (mp, sp) =>
      let callable := c = "1"
      some (reply (jsonOut (toJSONGeneric mp callable)) (jsonOutS (Spec.toJSONGeneric sp callable)) noDev)
    | none => some "bad-op"
  | ["parse", hx] => match bytes? hx with
    | some bs => match dateParseFamily bs, familyFields bs with
      | some m, some (y, mo, dd, hh, mi, ss, ms, sg, oh, om) =>
        let sp := Spec.parseFields y mo dd hh mi ss ms sg oh om
        some (reply (numOut m) (numOut sp) noDev)
      | _, _ => some "bad-op"
    | none => some "bad-op"
  | _ => none

def handle (ws : List String) : String :=
  let (zone, req) := splitZone ws
  match handleMisc req with
  | some r => r
  | none =>
  let abbrevZ := zone = "FXYZ"
  match zone? zone with
  | none => "bad-zone"
  | some (z, sz) => match handleLocal z sz abbrevZ req with
    | some r => r
    | none => handleUTC req

end OttoVerif.C12.Driver
