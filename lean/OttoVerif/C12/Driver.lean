/-
  C12/Driver — line protocol front end (core-only).
  requests (doubles are 16-hex bit patterns):
    obs <v>                        new Date(v): valueOf,getTime,getUTCFullYear,Month,Date,Day,Hours,Minutes,Seconds,Milliseconds
    iso <v> | json <v>             new Date(v).toISOString() / .toJSON()
    rt <v>                         Date.parse(new Date(v).toISOString())
    utc <a1> … <an>   (2 ≤ n ≤ 8) Date.UTC(a1,…,an)
    ctor <a1> … <an>  (2 ≤ n ≤ 8) new Date(a1,…,an) with local time = UTC: the ten observations
    set <v> <step>…                d = new Date(v); each step `name:arg,arg…` is d.setUTC<name>(args) (time = setTime);
                                   reply: return values, then `|`, then the ten observations of the final object
  reply:  <model> <spec> <dev>
-/
import OttoVerif.Base.Proto
import OttoVerif.C12.Model
import OttoVerif.C12.Spec
namespace OttoVerif.C12.Driver
open OttoVerif.F64 OttoVerif.Proto OttoVerif.C12

/-- a number as the harness prints it: the exact integer value of the double the Value converts to -/
def numOut : Option Int → String
  | none => "NaN"
  | some i => toString (truncInt (ofInt i))

def join (xs : List String) : String := ",".intercalate xs

def strOut : OttoVerif.C12.Str → String
  | .ok b => "s:" ++ bytesOut b
  | .rangeError => "throw:RangeError"
  | .null => "null"

def strOutS : Spec.Str → String
  | .ok b => "s:" ++ bytesOut b
  | .rangeError => "throw:RangeError"
  | .null => "null"

def obsModel (d : DateObj) : String :=
  match observe d with
  | v :: rest => join ((v :: getTime d :: rest).map numOut)
  | [] => "?"

def obsSpec (tv : Spec.TV) : String :=
  match Spec.observe tv with
  | v :: rest => join ((v :: v :: rest).map numOut)
  | [] => "?"

def outOfRange (t : Int) : Bool := t.natAbs > 8640000000000000

/-- region: the value reaching TimeClip is finite but beyond ±8.64e15 -/
def clipFires (raw : Option Int) : Bool :=
  match raw with
  | some t => outOfRange t
  | none => false

def devList (ds : List String) : String :=
  let ds := ds.eraseDups
  if ds.isEmpty then "-" else ",".intercalate ds

def setterM? : String → Option Setter
  | "Milliseconds" => some .ms | "Seconds" => some .sec | "Minutes" => some .min | "Hours" => some .hour
  | "Date" => some .date | "Month" => some .month | "FullYear" => some .year | "time" => some .time | _ => none

def toSpecSetter : Setter → Spec.Setter
  | .ms => .ms | .sec => .sec | .min => .min | .hour => .hour | .date => .date | .month => .month | .year => .year | .time => .time

def step? (w : String) : Option (Setter × List FV) :=
  match w.splitOn ":" with
  | [k, a] => do
    let k ← setterM? k
    let as ← if a.isEmpty then some [] else (a.splitOn ",").mapM f64?
    pure (k, as)
  | _ => none

/-- lock-step run of model and spec over a history, collecting deviation regions -/
def runBoth (d : DateObj) (tv : Spec.TV) : List (Setter × List FV) → List String → (DateObj × List Num) × (Spec.TV × List Spec.TV) × List String
  | [], devs => ((d, []), (tv, []), devs)
  | (k, a) :: rest, devs =>
    let raw := Spec.setUTCRaw (toSpecSetter k) tv a
    let devs := if clipFires raw then devs ++ ["no_timeclip"] else devs
    let devs := if k = .year ∧ tv.isNone ∧ raw.isSome then devs ++ ["setfullyear_invalid"] else devs
    let devs := if k = .time ∧ d.isNaN ∧ raw.isSome then devs ++ ["settime_sticky_invalid"] else devs
    let (d', r) := setUTC k d a
    let tv' := Spec.setUTC (toSpecSetter k) tv a
    let ((df, rs), (tf, ss), devs) := runBoth d' tv' rest devs
    ((df, r :: rs), (tf, tv' :: ss), devs)

def isoDev (v : FV) : List String :=
  match Spec.field? v with
  | none => []
  | some t =>
    if outOfRange t then ["no_timeclip"]
    else
      let y := Spec.YearFromTime t
      if 0 ≤ y ∧ y ≤ 9999 then [] else ["iso_expanded_year"]

def utcDev (args : List FV) : List String :=
  let d1 := if clipFires (Spec.dateUTCRaw args) then ["no_timeclip"] else []
  let d2 := match args.head? with
    | some y => match Spec.field? y with
      | some i => if 0 ≤ i ∧ i ≤ 99 ∧ !(le zero y && le y (.fin false 99 0)) ∧ (Spec.dateUTCRaw args).isSome then ["twodigit_fraction"] else []
      | none => []
    | none => []
  d1 ++ d2

def reply (m s : String) (dev : String) : String := m ++ " " ++ s ++ " " ++ dev

def handle (ws : List String) : String :=
  match ws with
  | ["obs", a] => match f64? a with
    | some v =>
      let dev := if clipFires (Spec.field? v) then ["no_timeclip"] else []
      reply (obsModel (newDate v)) (obsSpec (Spec.clipNumber v)) (devList dev)
    | none => "bad-op"
  | ["iso", a] => match f64? a with
    | some v =>
      let dev := isoDev v ++ (if (Spec.field? v).isNone then ["iso_invalid_no_throw"] else [])
      reply (strOut (toISOString (newDate v))) (strOutS (Spec.toISOString (Spec.clipNumber v))) (devList dev)
    | none => "bad-op"
  | ["json", a] => match f64? a with
    | some v => reply (strOut (toJSON (newDate v))) (strOutS (Spec.toJSON (Spec.clipNumber v))) (devList (isoDev v))
    | none => "bad-op"
  | ["rt", a] => match f64? a with
    | some v =>
      let s := match Spec.clipNumber v with
        | some t => Spec.parseOfISO t
        | none => none
      reply (numOut (parseOfISO (newDate v))) (numOut s) (devList (isoDev v))
    | none => "bad-op"
  | "utc" :: as => match as.mapM f64? with
    | some args =>
      if args.length < 2 then "bad-op" else
      reply (numOut (newDateTime args)) (numOut (Spec.dateUTC args)) (devList (utcDev args))
    | none => "bad-op"
  | "ctor" :: as => match as.mapM f64? with
    | some args =>
      if args.length < 2 then "bad-op" else
      let m := match newDateTime args with
        | some i => newDate (ofInt i)
        | none => newDate .nan
      reply (obsModel m) (obsSpec (Spec.dateUTC args)) (devList (utcDev args))
    | none => "bad-op"
  | "set" :: a :: steps => match f64? a, steps.mapM step? with
    | some v, some hs =>
      let dev0 := if clipFires (Spec.field? v) then ["no_timeclip"] else []
      let ((df, rs), (tf, ss), devs) := runBoth (newDate v) (Spec.clipNumber v) hs dev0
      reply (join (rs.map numOut) ++ "|" ++ obsModel df) (join (ss.map numOut) ++ "|" ++ obsSpec tf) (devList devs)
    | _, _ => "bad-op"
  | _ => "bad-op"

end OttoVerif.C12.Driver
