/-
  C12/Driver — line protocol front end (core-only).
  requests (doubles are 16-hex bit patterns):
    obs <v>                        new Date(v): valueOf,getTime,getUTCFullYear,Month,Date,Day,Hours,Minutes,Seconds,Milliseconds
    iso <v> | json <v>             new Date(v).toISOString() / .toJSON()
    rt <v>                         Date.parse(new Date(v).toISOString())
    utc <a1> … <an>   (2 ≤ n ≤ 8) Date.UTC(a1,…,an)
    ctor <a1> … <an>  (2 ≤ n ≤ 8) new Date(a1,…,an) with local time = UTC: the ten observations
    set <v> <step>…                d = new Date(v); each step `name:arg,arg…` is d.setUTC<name>(args) (time = setTime);
                                   reply: return values, then `|`, then the ten observations of the final object
    sset <v> <step>…               the same with scripted arguments: `n<hex>` a number, `o<hex>` an object whose valueOf logs its
                                   index and returns the number, `t` an object whose valueOf logs and throws;
                                   reply: per step `<log>:<return value | throw>`, then `|`, then the observations
    sutc <arg> … (2..8)            Date.UTC with scripted arguments; reply `<log>:<value | throw>`
  reply:  <model> <spec> <dev>
-/
import OttoVerif.Base.Proto
import OttoVerif.C12.Model
import OttoVerif.C12.Spec
namespace OttoVerif.C12.Driver
open OttoVerif.F64 OttoVerif.Proto OttoVerif.C12

/-- a number as the harness prints it: the exact integer value of the double the Value converts to -/
def numOut : Option Int → String
  | none => "NaN"
  | some i => toString (truncInt (ofInt i))

def join (xs : List String) : String := ",".intercalate xs

def strOut : OttoVerif.C12.Str → String
  | .ok b => "s:" ++ bytesOut b
  | .rangeError => "throw:RangeError"
  | .null => "null"

def strOutS : Spec.Str → String
  | .ok b => "s:" ++ bytesOut b
  | .rangeError => "throw:RangeError"
  | .null => "null"

def obsModel (d : DateObj) : String :=
  match observe d with
  | v :: rest => join ((v :: getTime d :: rest).map numOut)
  | [] => "?"

def obsSpec (tv : Spec.TV) : String :=
  match Spec.observe tv with
  | v :: rest => join ((v :: v :: rest).map numOut)
  | [] => "?"

def setterM? : String → Option Setter
  | "Milliseconds" => some .ms | "Seconds" => some .sec | "Minutes" => some .min | "Hours" => some .hour
  | "Date" => some .date | "Month" => some .month | "FullYear" => some .year | "time" => some .time | _ => none

def toSpecSetter : Setter → Spec.Setter
  | .ms => .ms | .sec => .sec | .min => .min | .hour => .hour | .date => .date | .month => .month | .year => .year | .time => .time

def step? (w : String) : Option (Setter × List FV) :=
  match w.splitOn ":" with
  | [k, a] => do
    let k ← setterM? k
    let as ← if a.isEmpty then some [] else (a.splitOn ",").mapM f64?
    pure (k, as)
  | _ => none

/-- No deviation region is left for this property: every request is expected to agree with the spec. -/
def noDev : String := "-"

def arg? (w : String) : Option Arg :=
  if w = "t" then some .thrower
  else match w.toList with
    | 'n' :: h => (f64? (String.ofList h)).map .num
    | 'o' :: h => (f64? (String.ofList h)).map .obj
    | _ => none

def toSpecArg : Arg → Spec.Arg
  | .num x => .num x | .obj x => .obj x | .thrower => .thrower

def sstep? (w : String) : Option (Setter × List Arg) :=
  match w.splitOn ":" with
  | [k, a] => do
    let k ← setterM? k
    let as ← if a.isEmpty then some [] else (a.splitOn ",").mapM arg?
    pure (k, as)
  | _ => none

def logOut (l : List Nat) : String := if l.isEmpty then "-" else ".".intercalate (l.map toString)
def outcomeOut : Outcome → String
  | .ret n => numOut n | .threw => "throw"
def outcomeOutS : Spec.Outcome → String
  | .ret n => numOut n | .threw => "throw"

/-- region huge_field_cancel: a field trips the too-large guard (otto: NaN) although the exact integer
    recomposition of §15.9.1.11–13 lands inside the range because other huge fields cancel it -/
def utcHuge (args : List FV) : Bool :=
  let get (i : Nat) (dflt : FV) : FV := (args[i]?).getD dflt
  let year := get 0 zero
  let integer := trunc year
  let year := if le zero integer && le integer (.fin false 99 0) then add (.fin false 1900 0) integer else year
  (args.take 7).all (fun x => (Spec.field? x).isSome) &&
  tooLarge year (get 1 zero) (get 2 one) (get 3 zero) (get 4 zero) (get 5 zero) (get 6 zero) &&
  (Spec.dateUTC args).isSome

def setterHuge (k : Setter) (d : DateObj) (tv : Spec.TV) (args : List FV) : Bool :=
  if k = .time then false else
  let as := args.take k.limit
  match (if as.isEmpty then none else numberArgs as) with
  | none => false
  | some vs =>
    if d.isNaN ∧ k ≠ .year then false else
    let base := if d.isNaN then newDate zero else d
    let e := applySetter k (newEcmaTime base.time) vs
    tooLarge (ofInt e.year) (ofInt e.month) (ofInt e.day) (ofInt e.hour) (ofInt e.minute) (ofInt e.second) (ofInt e.millisecond) &&
    (Spec.setUTC (toSpecSetter k) tv args).isSome

def runDev (d : DateObj) (tv : Spec.TV) : List (Setter × List FV) → List String → List String
  | [], devs => devs
  | (k, a) :: rest, devs =>
    let devs := if setterHuge k d tv a then devs ++ ["huge_field_cancel"] else devs
    runDev (setUTC k d a).1 (Spec.setUTC (toSpecSetter k) tv a) rest devs

def argVals (as : List Arg) : List FV := as.filterMap Arg.val?

def runDevS (d : DateObj) (tv : Spec.TV) : List (Setter × List Arg) → List String → List String
  | [], devs => devs
  | (k, a) :: rest, devs =>
    let threw := (a.take k.limit).any (fun x => x.val?.isNone)
    let devs := if !threw && setterHuge k d tv (argVals a) then devs ++ ["huge_field_cancel"] else devs
    runDevS (setUTCS k d a).1 (Spec.setUTCS (toSpecSetter k) tv (a.map toSpecArg)).1 rest devs

def devList (ds : List String) : String :=
  let ds := ds.eraseDups
  if ds.isEmpty then "-" else ",".intercalate ds

def reply (m s : String) (dev : String) : String := m ++ " " ++ s ++ " " ++ dev

def handle (ws : List String) : String :=
  match ws with
  | ["obs", a] => match f64? a with
    | some v => reply (obsModel (newDate v)) (obsSpec (Spec.clipNumber v)) noDev
    | none => "bad-op"
  | ["iso", a] => match f64? a with
    | some v => reply (strOut (toISOString (newDate v))) (strOutS (Spec.toISOString (Spec.clipNumber v))) noDev
    | none => "bad-op"
  | ["json", a] => match f64? a with
    | some v => reply (strOut (toJSON (newDate v))) (strOutS (Spec.toJSON (Spec.clipNumber v))) noDev
    | none => "bad-op"
  | ["rt", a] => match f64? a with
    | some v =>
      -- Date.parse(new Date(v).toISOString()): toISOString throws first on an invalid date
      let m := match toISOString (newDate v) with
        | .ok _ => numOut (parseOfISO (newDate v))
        | other => strOut other
      let s := match Spec.clipNumber v with
        | some t => numOut (Spec.parseOfISO t)
        | none => strOutS (Spec.toISOString none)
      reply m s noDev
    | none => "bad-op"
  | "utc" :: as => match as.mapM f64? with
    | some args =>
      if args.length < 2 then "bad-op" else
      reply (numOut (newDateTime args)) (numOut (Spec.dateUTC args)) (if utcHuge args then "huge_field_cancel" else "-")
    | none => "bad-op"
  | "ctor" :: as => match as.mapM f64? with
    | some args =>
      if args.length < 2 then "bad-op" else
      let m := match newDateTime args with
        | some i => newDate (ofInt i)
        | none => newDate .nan
      reply (obsModel m) (obsSpec (Spec.dateUTC args)) (if utcHuge args then "huge_field_cancel" else "-")
    | none => "bad-op"
  | "set" :: a :: steps => match f64? a, steps.mapM step? with
    | some v, some hs =>
      let (df, rs) := runSetters (newDate v) hs
      let (tf, ss) := Spec.runSetters (Spec.clipNumber v) (hs.map (fun s => (toSpecSetter s.1, s.2)))
      reply (join (rs.map numOut) ++ "|" ++ obsModel df) (join (ss.map numOut) ++ "|" ++ obsSpec tf)
        (devList (runDev (newDate v) (Spec.clipNumber v) hs []))
    | _, _ => "bad-op"
  | "sset" :: a :: steps => match f64? a, steps.mapM sstep? with
    | some v, some hs =>
      let (df, rs) := runSettersS (newDate v) hs
      let (tf, ss) := Spec.runSettersS (Spec.clipNumber v) (hs.map (fun s => (toSpecSetter s.1, s.2.map toSpecArg)))
      let devs := runDevS (newDate v) (Spec.clipNumber v) hs []
      reply (join (rs.map (fun r => logOut r.2 ++ ":" ++ outcomeOut r.1)) ++ "|" ++ obsModel df)
            (join (ss.map (fun r => logOut r.2 ++ ":" ++ outcomeOutS r.1)) ++ "|" ++ obsSpec tf) (devList devs)
    | _, _ => "bad-op"
  | "sutc" :: as => match as.mapM arg? with
    | some args =>
      if args.length < 2 then "bad-op" else
      let (mo, ml) := newDateTimeS args
      let (so, sl) := Spec.dateUTCS (args.map toSpecArg)
      let threw := (args.take 7).any (fun x => x.val?.isNone)
      let dev := if !threw && utcHuge (argVals args) then ["huge_field_cancel"] else []
      reply (logOut ml ++ ":" ++ outcomeOut mo) (logOut sl ++ ":" ++ outcomeOutS so) (devList dev)
    | none => "bad-op"
  | _ => "bad-op"

end OttoVerif.C12.Driver
