/-
  C12/Driver — line protocol front end (core-only).
  requests (doubles are 16-hex bit patterns):
    obs <v>                        new Date(v): valueOf,getTime,getUTCFullYear,Month,Date,Day,Hours,Minutes,Seconds,Milliseconds
    iso <v> | json <v>             new Date(v).toISOString() / .toJSON()
    rt <v>                         Date.parse(new Date(v).toISOString())
    utc <a1> … <an>   (2 ≤ n ≤ 8) Date.UTC(a1,…,an)
    ctor <a1> … <an>  (2 ≤ n ≤ 8) new Date(a1,…,an) with local time = UTC: the ten observations
    set <v> <step>…                d = new Date(v); each step `name:arg,arg…` is d.setUTC<name>(args) (time = setTime);
                                   reply: return values, then `|`, then the ten observations of the final object
    sset <v> <step>…               the same with scripted arguments: `n<hex>` a number, `o<hex>` an object whose valueOf logs its
                                   index and returns the number, `t` an object whose valueOf logs and throws;
                                   reply: per step `<log>:<return value | throw>`, then `|`, then the observations
    sutc <arg> … (2..8)            Date.UTC with scripted arguments; reply `<log>:<value | throw>`
  reply:  <model> <spec> <dev>
-/
import OttoVerif.Base.Proto
import OttoVerif.C12.Model
import OttoVerif.C12.Spec
namespace OttoVerif.C12.Driver
open OttoVerif.F64 OttoVerif.Proto OttoVerif.C12

/-- a number as the harness prints it: the exact integer value of the double the Value converts to -/
def numOut : Option Int → String
  | none => "NaN"
  | some i => toString (truncInt (ofInt i))

def join (xs : List String) : String := ",".intercalate xs

def strOut : OttoVerif.C12.Str → String
  | .ok b => "s:" ++ bytesOut b
  | .rangeError => "throw:RangeError"
  | .null => "null"

def strOutS : Spec.Str → String
  | .ok b => "s:" ++ bytesOut b
  | .rangeError => "throw:RangeError"
  | .null => "null"

def obsModel (d : DateObj) : String :=
  match observe d with
  | v :: rest => join ((v :: getTime d :: rest).map numOut)
  | [] => "?"

def obsSpec (tv : Spec.TV) : String :=
  match Spec.observe tv with
  | v :: rest => join ((v :: v :: rest).map numOut)
  | [] => "?"

def setterM? : String → Option Setter
  | "Milliseconds" => some .ms | "Seconds" => some .sec | "Minutes" => some .min | "Hours" => some .hour
  | "Date" => some .date | "Month" => some .month | "FullYear" => some .year | "time" => some .time | _ => none

def toSpecSetter : Setter → Spec.Setter
  | .ms => .ms | .sec => .sec | .min => .min | .hour => .hour | .date => .date | .month => .month | .year => .year | .time => .time

def step? (w : String) : Option (Setter × List FV) :=
  match w.splitOn ":" with
  | [k, a] => do
    let k ← setterM? k
    let as ← if a.isEmpty then some [] else (a.splitOn ",").mapM f64?
    pure (k, as)
  | _ => none

/-- No deviation region is left for this property: every request is expected to agree with the spec. -/
def noDev : String := "-"

def arg? (w : String) : Option Arg :=
  if w = "t" then some .thrower
  else match w.toList with
    | 'n' :: h => (f64? (String.ofList h)).map .num
    | 'o' :: h => (f64? (String.ofList h)).map .obj
    | _ => none

def toSpecArg : Arg → Spec.Arg
  | .num x => .num x | .obj x => .obj x | .thrower => .thrower

def sstep? (w : String) : Option (Setter × List Arg) :=
  match w.splitOn ":" with
  | [k, a] => do
    let k ← setterM? k
    let as ← if a.isEmpty then some [] else (a.splitOn ",").mapM arg?
    pure (k, as)
  | _ => none

def logOut (l : List Nat) : String := if l.isEmpty then "-" else ".".intercalate (l.map toString)
def outcomeOut : Outcome → String
  | .ret n => numOut n | .threw => "throw"
def outcomeOutS : Spec.Outcome → String
  | .ret n => numOut n | .threw => "throw"

/-- index of the first non-finite number (by `bad`) not preceded by a thrower, if a later argument logs -/
def stopsEarly (bad : FV → Bool) (as : List Arg) : Bool :=
  let rec go : List Arg → Bool
    | [] => false
    | a :: rest => match a.val? with
      | none => false
      | some x => if bad x then rest.any Arg.logs else go rest
  go as

/-- a thrower is reached by otto's loop (no non-finite number before it) -/
def reachesThrower (bad : FV → Bool) (as : List Arg) : Bool :=
  let rec go : List Arg → Bool
    | [] => false
    | a :: rest => match a.val? with
      | none => true
      | some x => if bad x then false else go rest
  go as

def setterDev (k : Setter) (d : DateObj) (args : List Arg) : List String :=
  let as := args.take k.limit
  let bad := fun x => (numberArg x).isNone
  if k = .time then []
  else if d.isNaN ∧ k ≠ .year then (if as.any Arg.logs then ["conv_skipped_on_invalid"] else [])
  else (if stopsEarly bad as then ["conv_stops_at_nonfinite"] else [])
       ++ (if k = .year ∧ d.isNaN ∧ reachesThrower bad as then ["fullyear_throw_resets"] else [])

def runBothS (d : DateObj) : List (Setter × List Arg) → List String → List String
  | [], devs => devs
  | (k, a) :: rest, devs =>
    let devs := devs ++ setterDev k d a
    let (d', _, _) := setUTCS k d a
    runBothS d' rest devs

def devList (ds : List String) : String :=
  let ds := ds.eraseDups
  if ds.isEmpty then "-" else ",".intercalate ds

def reply (m s : String) (dev : String) : String := m ++ " " ++ s ++ " " ++ dev

def handle (ws : List String) : String :=
  match ws with
  | ["obs", a] => match f64? a with
    | some v => reply (obsModel (newDate v)) (obsSpec (Spec.clipNumber v)) noDev
    | none => "bad-op"
  | ["iso", a] => match f64? a with
    | some v => reply (strOut (toISOString (newDate v))) (strOutS (Spec.toISOString (Spec.clipNumber v))) noDev
    | none => "bad-op"
  | ["json", a] => match f64? a with
    | some v => reply (strOut (toJSON (newDate v))) (strOutS (Spec.toJSON (Spec.clipNumber v))) noDev
    | none => "bad-op"
  | ["rt", a] => match f64? a with
    | some v =>
      -- Date.parse(new Date(v).toISOString()): toISOString throws first on an invalid date
      let m := match toISOString (newDate v) with
        | .ok _ => numOut (parseOfISO (newDate v))
        | other => strOut other
      let s := match Spec.clipNumber v with
        | some t => numOut (Spec.parseOfISO t)
        | none => strOutS (Spec.toISOString none)
      reply m s noDev
    | none => "bad-op"
  | "utc" :: as => match as.mapM f64? with
    | some args =>
      if args.length < 2 then "bad-op" else
      reply (numOut (newDateTime args)) (numOut (Spec.dateUTC args)) noDev
    | none => "bad-op"
  | "ctor" :: as => match as.mapM f64? with
    | some args =>
      if args.length < 2 then "bad-op" else
      let m := match newDateTime args with
        | some i => newDate (ofInt i)
        | none => newDate .nan
      reply (obsModel m) (obsSpec (Spec.dateUTC args)) noDev
    | none => "bad-op"
  | "set" :: a :: steps => match f64? a, steps.mapM step? with
    | some v, some hs =>
      let (df, rs) := runSetters (newDate v) hs
      let (tf, ss) := Spec.runSetters (Spec.clipNumber v) (hs.map (fun s => (toSpecSetter s.1, s.2)))
      reply (join (rs.map numOut) ++ "|" ++ obsModel df) (join (ss.map numOut) ++ "|" ++ obsSpec tf) noDev
    | _, _ => "bad-op"
  | "sset" :: a :: steps => match f64? a, steps.mapM sstep? with
    | some v, some hs =>
      let (df, rs) := runSettersS (newDate v) hs
      let (tf, ss) := Spec.runSettersS (Spec.clipNumber v) (hs.map (fun s => (toSpecSetter s.1, s.2.map toSpecArg)))
      let devs := runBothS (newDate v) hs []
      reply (join (rs.map (fun r => logOut r.2 ++ ":" ++ outcomeOut r.1)) ++ "|" ++ obsModel df)
            (join (ss.map (fun r => logOut r.2 ++ ":" ++ outcomeOutS r.1)) ++ "|" ++ obsSpec tf) (devList devs)
    | _, _ => "bad-op"
  | "sutc" :: as => match as.mapM arg? with
    | some args =>
      if args.length < 2 then "bad-op" else
      let (mo, ml) := newDateTimeS args
      let (so, sl) := Spec.dateUTCS (args.map toSpecArg)
      let dev := if stopsEarly (fun x => isNaN x || isInf x) (args.take 7) then ["conv_stops_at_nonfinite"] else []
      reply (logOut ml ++ ":" ++ outcomeOut mo) (logOut sl ++ ":" ++ outcomeOutS so) (devList dev)
    | none => "bad-op"
  | _ => "bad-op"

end OttoVerif.C12.Driver
