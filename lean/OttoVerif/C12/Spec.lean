/-
  C12/Spec — ES5 §15.9.1 (time values, Day/TimeWithinDay, year/month/date/weekday, hours…,
  MakeTime/MakeDay/MakeDate/TimeClip), §15.9.4.3 Date.UTC, §15.9.3.1 the multi-argument
  constructor (UTC zone), §15.9.5 getUTC*/setUTC*/setTime/valueOf, §15.9.5.43 toISOString,
  §15.9.5.44 toJSON, §15.9.1.15 the ISO date-time string format.  Written from the standard.

  A time value is `TV = Option Int`: `none` is NaN, `some t` a finite integral number of ms.
  Arithmetic: ES5 prescribes IEEE-754 double arithmetic inside MakeTime/MakeDay/MakeDate; this
  file uses exact integers.  The two coincide whenever every field has magnitude ≤ 10^6 (the
  quantifier of the property): then either every intermediate value is an integer below 2^53
  (exact in doubles) or |day·msPerDay| > 2^53 > 8.64e15 + |time| and both say NaN after TimeClip
  (rounding to nearest is monotone and 8.64e15+1 is representable).
  `/` and `%` on `Int` are floor division / non-negative remainder for the positive literals used
  here (ES5 `floor(x/y)` and `x modulo y`).
-/
import OttoVerif.Base.F64
namespace OttoVerif.C12.Spec
open OttoVerif.F64

abbrev TV := Option Int

-- §15.9.1.2
def msPerDay : Int := 86400000
def Day (t : Int) : Int := t / 86400000
def TimeWithinDay (t : Int) : Int := t % 86400000

-- §15.9.1.3
def DaysInYear (y : Int) : Int :=
  if y % 4 ≠ 0 then 365
  else if y % 100 ≠ 0 then 366
  else if y % 400 ≠ 0 then 365
  else 366

def DayFromYear (y : Int) : Int :=
  365 * (y - 1970) + (y - 1969) / 4 - (y - 1901) / 100 + (y - 1601) / 400

def TimeFromYear (y : Int) : Int := 86400000 * DayFromYear y

/-- §15.9.1.3 defines YearFromTime(t) as "the largest integer y such that TimeFromYear(y) ≤ t".
    This is an executable closed form; theorem `Thm.year_from_time` proves it IS that largest y,
    for every integer t.  (400-year era from 2000-01-01, estimate r/365, correct by at most one.) -/
def YearFromTime (t : Int) : Int :=
  let d := Day t - 10957                 -- days since 2000-01-01
  let era := d / 146097
  let r := d % 146097
  let k := r / 365
  let startK := 365 * k + (k + 3) / 4 - (k + 99) / 100 + (k + 399) / 400
  let k' := if startK > r then k - 1 else k
  2000 + 400 * era + k'

def InLeapYear (t : Int) : Int := if DaysInYear (YearFromTime t) = 366 then 1 else 0

-- §15.9.1.4
def DayWithinYear (t : Int) : Int := Day t - DayFromYear (YearFromTime t)

def MonthFromTime (t : Int) : Int :=
  let d := DayWithinYear t
  let l := InLeapYear t
  if d < 31 then 0
  else if d < 59 + l then 1
  else if d < 90 + l then 2
  else if d < 120 + l then 3
  else if d < 151 + l then 4
  else if d < 181 + l then 5
  else if d < 212 + l then 6
  else if d < 243 + l then 7
  else if d < 273 + l then 8
  else if d < 304 + l then 9
  else if d < 334 + l then 10
  else 11

-- §15.9.1.5
def DateFromTime (t : Int) : Int :=
  let d := DayWithinYear t
  let l := InLeapYear t
  match MonthFromTime t with
  | 0 => d + 1
  | 1 => d - 30
  | 2 => d - 58 - l
  | 3 => d - 89 - l
  | 4 => d - 119 - l
  | 5 => d - 150 - l
  | 6 => d - 180 - l
  | 7 => d - 211 - l
  | 8 => d - 242 - l
  | 9 => d - 272 - l
  | 10 => d - 303 - l
  | _ => d - 333 - l

-- §15.9.1.6
def WeekDay (t : Int) : Int := (Day t + 4) % 7

-- §15.9.1.10
def HourFromTime (t : Int) : Int := (t / 3600000) % 24
def MinFromTime (t : Int) : Int := (t / 60000) % 60
def SecFromTime (t : Int) : Int := (t / 1000) % 60
def msFromTime (t : Int) : Int := t % 1000

-- §15.9.1.11 (after ToInteger of each argument)
def MakeTime (h m s ms : Int) : Int := h * 3600000 + m * 60000 + s * 1000 + ms

/-- first day of month `mn` (0..11) within a year, `l` = 1 in a leap year -/
def monthStart (mn l : Int) : Int :=
  match mn with
  | 0 => 0 | 1 => 31 | 2 => 59 + l | 3 => 90 + l | 4 => 120 + l | 5 => 151 + l
  | 6 => 181 + l | 7 => 212 + l | 8 => 243 + l | 9 => 273 + l | 10 => 304 + l | _ => 334 + l

/-- §15.9.1.12 (after ToInteger): ym = y + floor(m/12), mn = m modulo 12, "find t such that
    YearFromTime(t) = ym, MonthFromTime(t) = mn, DateFromTime(t) = 1; return Day(t) + dt − 1".
    The `t` is exhibited here; theorem `Thm.makeDay_finds_t` proves it has the three properties. -/
def MakeDay (y m dt : Int) : Int :=
  let ym := y + m / 12
  let mn := m % 12
  DayFromYear ym + monthStart mn (if DaysInYear ym = 366 then 1 else 0) + dt - 1

-- §15.9.1.13
def MakeDate (day time : Int) : Int := day * 86400000 + time

-- §15.9.1.14 (on integral values)
def TimeClip (t : Int) : TV := if t.natAbs > 8640000000000000 then none else some t

/-- ToInteger of a Number used as a date field: `none` when not finite (the Make* functions
    return NaN then), else truncation toward zero (§9.4). -/
def field? (x : FV) : Option Int :=
  match x with
  | .fin .. => some (truncInt x)
  | _ => none

/-- TimeClip(ToNumber(v)) for `new Date(v)` / `setTime(v)` (§15.9.3.2, §15.9.5.27) -/
def clipNumber (v : FV) : TV :=
  match field? v with
  | none => none
  | some t => TimeClip t

/-- §15.9.4.3 step 8 / §15.9.3.1 step 8: two-digit years -/
def fullYear (y : Int) : Int := if 0 ≤ y ∧ y ≤ 99 then 1900 + y else y

/-- §15.9.4.3 Date.UTC(year, month [, date [, hours [, minutes [, seconds [, ms]]]]]) for
    2..7 supplied numbers (extra arguments are ignored); also `new Date(y, m, …)` when local
    time is UTC. -/
def dateUTCRaw (args : List FV) : Option Int :=
  let get (i : Nat) (dflt : Int) : Option Int :=
    match args[i]? with
    | none => some dflt
    | some x => field? x
  match get 0 0, get 1 0, get 2 1, get 3 0, get 4 0, get 5 0, get 6 0 with
  | some y, some m, some dt, some h, some mi, some s, some ms =>
    some (MakeDate (MakeDay (fullYear y) m dt) (MakeTime h mi s ms))
  | _, _, _, _, _, _, _ => none

def dateUTC (args : List FV) : TV := (dateUTCRaw args).bind TimeClip

/-- the nine observations of a Date object used by the check:
    valueOf/getTime, getUTCFullYear, Month, Date, Day, Hours, Minutes, Seconds, Milliseconds.
    Every one of them is NaN for an invalid date (§15.9.5.x step "If t is NaN, return NaN"). -/
def observe (tv : TV) : List TV :=
  match tv with
  | none => List.replicate 9 none
  | some t => [some t, some (YearFromTime t), some (MonthFromTime t), some (DateFromTime t), some (WeekDay t),
               some (HourFromTime t), some (MinFromTime t), some (SecFromTime t), some (msFromTime t)]

inductive Setter | ms | sec | min | hour | date | month | year | time
deriving DecidableEq, Repr

/-- argument i as a field; a missing FIRST argument is `undefined` → NaN; missing later ones are
    "not specified" and default to the current component. -/
def argOr (args : List FV) (i : Nat) (dflt : Int) : Option Int :=
  match args[i]? with
  | none => if i = 0 then none else some dflt
  | some x => field? x

/-- §15.9.5.27–.41 (UTC variants): the value handed to TimeClip in the last step (`none` = NaN). -/
def setUTCRaw (k : Setter) (tv : TV) (args : List FV) : Option Int :=
  match k with
  | .time => match args[0]? with
    | none => none
    | some v => field? v
  | .year =>
    let t : Int := tv.getD 0               -- §15.9.5.41 step 1: NaN → +0
    match argOr args 0 0, argOr args 1 (MonthFromTime t), argOr args 2 (DateFromTime t) with
    | some y, some m, some dt => some (MakeDate (MakeDay y m dt) (TimeWithinDay t))
    | _, _, _ => none
  | _ =>
  match tv with
  | none => none
  | some t =>
    match k with
    | .ms => match argOr args 0 0 with
      | some ms => some (MakeDate (Day t) (MakeTime (HourFromTime t) (MinFromTime t) (SecFromTime t) ms))
      | _ => none
    | .sec => match argOr args 0 0, argOr args 1 (msFromTime t) with
      | some s, some ms => some (MakeDate (Day t) (MakeTime (HourFromTime t) (MinFromTime t) s ms))
      | _, _ => none
    | .min => match argOr args 0 0, argOr args 1 (SecFromTime t), argOr args 2 (msFromTime t) with
      | some m, some s, some ms => some (MakeDate (Day t) (MakeTime (HourFromTime t) m s ms))
      | _, _, _ => none
    | .hour => match argOr args 0 0, argOr args 1 (MinFromTime t), argOr args 2 (SecFromTime t), argOr args 3 (msFromTime t) with
      | some h, some m, some s, some ms => some (MakeDate (Day t) (MakeTime h m s ms))
      | _, _, _, _ => none
    | .date => match argOr args 0 0 with
      | some dt => some (MakeDate (MakeDay (YearFromTime t) (MonthFromTime t) dt) (TimeWithinDay t))
      | _ => none
    | .month => match argOr args 0 0, argOr args 1 (DateFromTime t) with
      | some m, some dt => some (MakeDate (MakeDay (YearFromTime t) m dt) (TimeWithinDay t))
      | _, _ => none
    | _ => none

/-- new time value after the call = TimeClip of the above; it is also the return value. -/
def setUTC (k : Setter) (tv : TV) (args : List FV) : TV := (setUTCRaw k tv args).bind TimeClip

/-- a history: run the calls in order, collecting each return value -/
def runSetters (tv : TV) : List (Setter × List FV) → TV × List TV
  | [] => (tv, [])
  | (k, a) :: rest =>
    let tv' := setUTC k tv a
    let (fin, rs) := runSetters tv' rest
    (fin, tv' :: rs)

-- scripted arguments: ToNumber is applied to EVERY supplied argument the algorithm names, in order,
-- before anything is computed (§15.9.5.27–.41 steps "Let x be ToNumber(arg)", §15.9.4.3 steps 1–7)

inductive Arg where
  | num (x : FV)
  | obj (x : FV)          -- valueOf logs its index, returns x
  | thrower               -- valueOf logs its index, throws
deriving DecidableEq, Repr

inductive Outcome where
  | ret (tv : TV)
  | threw
deriving DecidableEq, Repr

/-- ToNumber on each argument in order: log of valueOf calls, and the numbers unless one threw -/
def convAll (as : List Arg) (i : Nat) : List Nat × Option (List FV) :=
  match as with
  | [] => ([], some [])
  | .num x :: rest => match convAll rest (i + 1) with
    | (l, some vs) => (l, some (x :: vs))
    | (l, none) => (l, none)
  | .obj x :: rest => match convAll rest (i + 1) with
    | (l, some vs) => (i :: l, some (x :: vs))
    | (l, none) => (i :: l, none)
  | .thrower :: _ => ([i], none)

def Setter.arity : Setter → Nat
  | .ms => 1 | .sec => 2 | .min => 3 | .hour => 4 | .date => 1 | .month => 2 | .year => 3 | .time => 1

/-- a setter call with scripted arguments: (new time value, outcome, log).  An exception leaves the
    time value unchanged. -/
def setUTCS (k : Setter) (tv : TV) (args : List Arg) : TV × Outcome × List Nat :=
  match convAll (args.take k.arity) 0 with
  | (l, none) => (tv, .threw, l)
  | (l, some vs) => let tv' := setUTC k tv vs; (tv', .ret tv', l)

def runSettersS (tv : TV) : List (Setter × List Arg) → TV × List (Outcome × List Nat)
  | [] => (tv, [])
  | (k, a) :: rest =>
    let (tv', o, l) := setUTCS k tv a
    let (fin, rs) := runSettersS tv' rest
    (fin, (o, l) :: rs)

def dateUTCS (args : List Arg) : Outcome × List Nat :=
  match convAll (args.take 7) 0 with
  | (l, none) => (.threw, l)
  | (l, some vs) => (.ret (dateUTC vs), l)

-- §15.9.1.15 / §15.9.5.43 -------------------------------------------------------------

/-- `w` decimal digits of n (most significant first), as ASCII bytes -/
def digits (w : Nat) (n : Nat) : List Nat :=
  match w with
  | 0 => []
  | w + 1 => digits w (n / 10) ++ [48 + n % 10]

inductive Str where
  | ok (bytes : List Nat)
  | rangeError
  | null
deriving DecidableEq, Repr

/-- §15.9.1.15 YYYY-MM-DDTHH:mm:ss.sssZ; years outside 0..9999 use the expanded form
    ±YYYYYY of §15.9.1.15.1. -/
def isoString (t : Int) : List Nat :=
  let y := YearFromTime t
  let yy : List Nat :=
    if 0 ≤ y ∧ y ≤ 9999 then digits 4 y.toNat
    else if y < 0 then 45 :: digits 6 (-y).toNat      -- '-'
    else 43 :: digits 6 y.toNat                        -- '+'
  yy ++ [45] ++ digits 2 (MonthFromTime t + 1).toNat ++ [45] ++ digits 2 (DateFromTime t).toNat ++ [84]
     ++ digits 2 (HourFromTime t).toNat ++ [58] ++ digits 2 (MinFromTime t).toNat ++ [58]
     ++ digits 2 (SecFromTime t).toNat ++ [46] ++ digits 3 (msFromTime t).toNat ++ [90]

/-- §15.9.5.43: a non-finite time value throws RangeError -/
def toISOString (tv : TV) : Str :=
  match tv with
  | none => .rangeError
  | some t => .ok (isoString t)

/-- §15.9.5.44 on an unmodified Date object: null for a non-finite time value, else toISOString -/
def toJSON (tv : TV) : Str :=
  match tv with
  | none => .null
  | some t => .ok (isoString t)

/-- Date.parse(x.toISOString()) = x.valueOf() (§15.9.4.2) -/
def parseOfISO (t : Int) : TV := some t

end OttoVerif.C12.Spec
