/-
  C12/Spec — ES5 §15.9.1 (time values, Day/TimeWithinDay, year/month/date/weekday, hours…,
  MakeTime/MakeDay/MakeDate/TimeClip), §15.9.4.3 Date.UTC, §15.9.3.1 the multi-argument
  constructor (UTC zone), §15.9.5 getUTC*/setUTC*/setTime/valueOf, §15.9.5.43 toISOString,
  §15.9.5.44 toJSON, §15.9.1.15 the ISO date-time string format.  Written from the standard.

  A time value is `TV = Option Int`: `none` is NaN, `some t` a finite integral number of ms.
  Arithmetic: ES5 prescribes IEEE-754 double arithmetic inside MakeTime/MakeDay/MakeDate; this
  file uses exact integers.  The two coincide whenever every field has magnitude ≤ 10^6 (the
  quantifier of the property): then either every intermediate value is an integer below 2^53
  (exact in doubles) or |day·msPerDay| > 2^53 > 8.64e15 + |time| and both say NaN after TimeClip
  (rounding to nearest is monotone and 8.64e15+1 is representable).
  `/` and `%` on `Int` are floor division / non-negative remainder for the positive literals used
  here (ES5 `floor(x/y)` and `x modulo y`).
-/
import OttoVerif.Base.F64
namespace OttoVerif.C12.Spec
open OttoVerif.F64

abbrev TV := Option Int

-- §15.9.1.2
def msPerDay : Int := 86400000
def Day (t : Int) : Int := t / 86400000
def TimeWithinDay (t : Int) : Int := t % 86400000

-- §15.9.1.3
def DaysInYear (y : Int) : Int :=
  if y % 4 ≠ 0 then 365
  else if y % 100 ≠ 0 then 366
  else if y % 400 ≠ 0 then 365
  else 366

def DayFromYear (y : Int) : Int :=
  365 * (y - 1970) + (y - 1969) / 4 - (y - 1901) / 100 + (y - 1601) / 400

def TimeFromYear (y : Int) : Int := 86400000 * DayFromYear y

/-- §15.9.1.3 defines YearFromTime(t) as "the largest integer y such that TimeFromYear(y) ≤ t".
    This is an executable closed form; theorem `Thm.year_from_time` proves it IS that largest y,
    for every integer t.  (400-year era from 2000-01-01, estimate r/365, correct by at most one.) -/
def YearFromTime (t : Int) : Int :=
  let d := Day t - 10957                 -- days since 2000-01-01
  let era := d / 146097
  let r := d % 146097
  let k := r / 365
  let startK := 365 * k + (k + 3) / 4 - (k + 99) / 100 + (k + 399) / 400
  let k' := if startK > r then k - 1 else k
  2000 + 400 * era + k'

def InLeapYear (t : Int) : Int := if DaysInYear (YearFromTime t) = 366 then 1 else 0

-- §15.9.1.4
def DayWithinYear (t : Int) : Int := Day t - DayFromYear (YearFromTime t)

def MonthFromTime (t : Int) : Int :=
  let d := DayWithinYear t
  let l := InLeapYear t
  if d < 31 then 0
  else if d < 59 + l then 1
  else if d < 90 + l then 2
  else if d < 120 + l then 3
  else if d < 151 + l then 4
  else if d < 181 + l then 5
  else if d < 212 + l then 6
  else if d < 243 + l then 7
  else if d < 273 + l then 8
  else if d < 304 + l then 9
  else if d < 334 + l then 10
  else 11

-- §15.9.1.5
def DateFromTime (t : Int) : Int :=
  let d := DayWithinYear t
  let l := InLeapYear t
  match MonthFromTime t with
  | 0 => d + 1
  | 1 => d - 30
  | 2 => d - 58 - l
  | 3 => d - 89 - l
  | 4 => d - 119 - l
  | 5 => d - 150 - l
  | 6 => d - 180 - l
  | 7 => d - 211 - l
  | 8 => d - 242 - l
  | 9 => d - 272 - l
  | 10 => d - 303 - l
  | _ => d - 333 - l

-- §15.9.1.6
def WeekDay (t : Int) : Int := (Day t + 4) % 7

-- §15.9.1.10
def HourFromTime (t : Int) : Int := (t / 3600000) % 24
def MinFromTime (t : Int) : Int := (t / 60000) % 60
def SecFromTime (t : Int) : Int := (t / 1000) % 60
def msFromTime (t : Int) : Int := t % 1000

-- §15.9.1.11 (after ToInteger of each argument)
def MakeTime (h m s ms : Int) : Int := h * 3600000 + m * 60000 + s * 1000 + ms

/-- first day of month `mn` (0..11) within a year, `l` = 1 in a leap year -/
def monthStart (mn l : Int) : Int :=
  match mn with
  | 0 => 0 | 1 => 31 | 2 => 59 + l | 3 => 90 + l | 4 => 120 + l | 5 => 151 + l
  | 6 => 181 + l | 7 => 212 + l | 8 => 243 + l | 9 => 273 + l | 10 => 304 + l | _ => 334 + l

/-- §15.9.1.12 (after ToInteger): ym = y + floor(m/12), mn = m modulo 12, "find t such that
    YearFromTime(t) = ym, MonthFromTime(t) = mn, DateFromTime(t) = 1; return Day(t) + dt − 1".
    The `t` is exhibited here; theorem `Thm.makeDay_finds_t` proves it has the three properties. -/
def MakeDay (y m dt : Int) : Int :=
  let ym := y + m / 12
  let mn := m % 12
  DayFromYear ym + monthStart mn (if DaysInYear ym = 366 then 1 else 0) + dt - 1

-- §15.9.1.13
def MakeDate (day time : Int) : Int := day * 86400000 + time

-- §15.9.1.14 (on integral values)
def TimeClip (t : Int) : TV := if t.natAbs > 8640000000000000 then none else some t

/-- ToInteger of a Number used as a date field: `none` when not finite (the Make* functions
    return NaN then), else truncation toward zero (§9.4). -/
def field? (x : FV) : Option Int :=
  match x with
  | .fin .. => some (truncInt x)
  | _ => none

/-- TimeClip(ToNumber(v)) for `new Date(v)` / `setTime(v)` (§15.9.3.2, §15.9.5.27) -/
def clipNumber (v : FV) : TV :=
  match field? v with
  | none => none
  | some t => TimeClip t

/-- §15.9.4.3 step 8 / §15.9.3.1 step 8: two-digit years -/
def fullYear (y : Int) : Int := if 0 ≤ y ∧ y ≤ 99 then 1900 + y else y

/-- §15.9.4.3 Date.UTC(year, month [, date [, hours [, minutes [, seconds [, ms]]]]]) for
    2..7 supplied numbers (extra arguments are ignored); also `new Date(y, m, …)` when local
    time is UTC. -/
def dateUTCRaw (args : List FV) : Option Int :=
  let get (i : Nat) (dflt : Int) : Option Int :=
    match args[i]? with
    | none => some dflt
    | some x => field? x
  match get 0 0, get 1 0, get 2 1, get 3 0, get 4 0, get 5 0, get 6 0 with
  | some y, some m, some dt, some h, some mi, some s, some ms =>
    some (MakeDate (MakeDay (fullYear y) m dt) (MakeTime h mi s ms))
  | _, _, _, _, _, _, _ => none

def dateUTC (args : List FV) : TV := (dateUTCRaw args).bind TimeClip

/-- the nine observations of a Date object used by the check:
    valueOf/getTime, getUTCFullYear, Month, Date, Day, Hours, Minutes, Seconds, Milliseconds.
    Every one of them is NaN for an invalid date (§15.9.5.x step "If t is NaN, return NaN"). -/
def observe (tv : TV) : List TV :=
  match tv with
  | none => List.replicate 9 none
  | some t => [some t, some (YearFromTime t), some (MonthFromTime t), some (DateFromTime t), some (WeekDay t),
               some (HourFromTime t), some (MinFromTime t), some (SecFromTime t), some (msFromTime t)]

inductive Setter | ms | sec | min | hour | date | month | year | time
deriving DecidableEq, Repr

/-- argument i as a field; a missing FIRST argument is `undefined` → NaN; missing later ones are
    "not specified" and default to the current component. -/
def argOr (args : List FV) (i : Nat) (dflt : Int) : Option Int :=
  match args[i]? with
  | none => if i = 0 then none else some dflt
  | some x => field? x

/-- §15.9.5.27–.41 (UTC variants): the value handed to TimeClip in the last step (`none` = NaN). -/
def setUTCRaw (k : Setter) (tv : TV) (args : List FV) : Option Int :=
  match k with
  | .time => match args[0]? with
    | none => none
    | some v => field? v
  | .year =>
    let t : Int := tv.getD 0               -- §15.9.5.41 step 1: NaN → +0
    match argOr args 0 0, argOr args 1 (MonthFromTime t), argOr args 2 (DateFromTime t) with
    | some y, some m, some dt => some (MakeDate (MakeDay y m dt) (TimeWithinDay t))
    | _, _, _ => none
  | _ =>
  match tv with
  | none => none
  | some t =>
    match k with
    | .ms => match argOr args 0 0 with
      | some ms => some (MakeDate (Day t) (MakeTime (HourFromTime t) (MinFromTime t) (SecFromTime t) ms))
      | _ => none
    | .sec => match argOr args 0 0, argOr args 1 (msFromTime t) with
      | some s, some ms => some (MakeDate (Day t) (MakeTime (HourFromTime t) (MinFromTime t) s ms))
      | _, _ => none
    | .min => match argOr args 0 0, argOr args 1 (SecFromTime t), argOr args 2 (msFromTime t) with
      | some m, some s, some ms => some (MakeDate (Day t) (MakeTime (HourFromTime t) m s ms))
      | _, _, _ => none
    | .hour => match argOr args 0 0, argOr args 1 (MinFromTime t), argOr args 2 (SecFromTime t), argOr args 3 (msFromTime t) with
      | some h, some m, some s, some ms => some (MakeDate (Day t) (MakeTime h m s ms))
      | _, _, _, _ => none
    | .date => match argOr args 0 0 with
      | some dt => some (MakeDate (MakeDay (YearFromTime t) (MonthFromTime t) dt) (TimeWithinDay t))
      | _ => none
    | .month => match argOr args 0 0, argOr args 1 (DateFromTime t) with
      | some m, some dt => some (MakeDate (MakeDay (YearFromTime t) m dt) (TimeWithinDay t))
      | _, _ => none
    | _ => none

/-- new time value after the call = TimeClip of the above; it is also the return value. -/
def setUTC (k : Setter) (tv : TV) (args : List FV) : TV := (setUTCRaw k tv args).bind TimeClip

/-- a history: run the calls in order, collecting each return value -/
def runSetters (tv : TV) : List (Setter × List FV) → TV × List TV
  | [] => (tv, [])
  | (k, a) :: rest =>
    let tv' := setUTC k tv a
    let (fin, rs) := runSetters tv' rest
    (fin, tv' :: rs)

-- scripted arguments: ToNumber is applied to EVERY supplied argument the algorithm names, in order,
-- before anything is computed (§15.9.5.27–.41 steps "Let x be ToNumber(arg)", §15.9.4.3 steps 1–7)

inductive Arg where
  | num (x : FV)
  | obj (x : FV)          -- valueOf logs its index, returns x
  | thrower               -- valueOf logs its index, throws
  | mut (x : FV) (m : FV) -- valueOf logs its index, calls setTime(m) on the same Date object, returns x
deriving DecidableEq, Repr

inductive Outcome where
  | ret (tv : TV)
  | threw
deriving DecidableEq, Repr

/-- ToNumber on each argument in order: log of valueOf calls, and the numbers unless one threw -/
def convAll (as : List Arg) (i : Nat) : List Nat × Option (List FV) :=
  match as with
  | [] => ([], some [])
  | .num x :: rest => match convAll rest (i + 1) with
    | (l, some vs) => (l, some (x :: vs))
    | (l, none) => (l, none)
  | .obj x :: rest => match convAll rest (i + 1) with
    | (l, some vs) => (i :: l, some (x :: vs))
    | (l, none) => (i :: l, none)
  | .mut x _ :: rest => match convAll rest (i + 1) with
    | (l, some vs) => (i :: l, some (x :: vs))
    | (l, none) => (i :: l, none)
  | .thrower :: _ => ([i], none)

/-- the argument of the last re-entrant setTime executed during the conversions -/
def lastMut : List Arg → Option FV
  | [] => none
  | .thrower :: _ => none
  | .mut _ m :: rest => (lastMut rest).orElse (fun _ => some m)
  | _ :: rest => lastMut rest

def Setter.arity : Setter → Nat
  | .ms => 1 | .sec => 2 | .min => 3 | .hour => 4 | .date => 1 | .month => 2 | .year => 3 | .time => 1

/-- the time value of the object after the re-entrant setTime calls -/
def curAfter (tv : TV) (as : List Arg) : TV :=
  match lastMut as with
  | none => tv
  | some m => clipNumber m

/-- a setter call with scripted arguments: (new time value, outcome, log).  Step 1 of §15.9.5.27–.41, "let t be
    this time value", comes before the conversions: a valueOf that re-enters setTime on the same object changes
    the object (`cur`) but not t; the final step stores the result computed from t.  An exception leaves whatever
    the re-entrant calls stored. -/
def setUTCS (k : Setter) (tv : TV) (args : List Arg) : TV × Outcome × List Nat :=
  let as := args.take k.arity
  let cur := curAfter tv as
  match convAll as 0 with
  | (l, none) => (cur, .threw, l)
  | (l, some vs) => let tv' := setUTC k tv vs; (tv', .ret tv', l)

def runSettersS (tv : TV) : List (Setter × List Arg) → TV × List (Outcome × List Nat)
  | [] => (tv, [])
  | (k, a) :: rest =>
    let (tv', o, l) := setUTCS k tv a
    let (fin, rs) := runSettersS tv' rest
    (fin, (o, l) :: rs)

def dateUTCS (args : List Arg) : Outcome × List Nat :=
  match convAll (args.take 7) 0 with
  | (l, none) => (.threw, l)
  | (l, some vs) => (.ret (dateUTC vs), l)

-- §15.9.1.7–.9 local time ------------------------------------------------------------------

/-- the host zone as ES5 sees it: LocalTZA (ms, constant) and DaylightSavingTA(t) (ms, a function of the UTC
    time value only).  `us2007` / `eu1996` are the current daylight rules of America/New_York and Europe/London,
    written from the rule text (second Sunday of March 2:00 local to first Sunday of November 2:00 local;
    last Sunday of March 1:00 UTC to last Sunday of October 1:00 UTC). -/
inductive Zone where
  | fixed (offsetSec : Int)
  | us2007
  | eu1996
deriving DecidableEq, Repr

def LocalTZA : Zone → Int
  | .fixed o => o * 1000
  | .us2007 => -18000000
  | .eu1996 => 0

/-- day number of the n-th (1-based) Sunday of month m (0-based) in year y -/
def nthSunday (y m n : Int) : Int :=
  let first := MakeDay y m 1
  first + (7 - (first + 4) % 7) % 7 + 7 * (n - 1)
/-- day number of the last Sunday of a 31-day month m in year y -/
def lastSunday31 (y m : Int) : Int :=
  let last := MakeDay y m 31
  last - (last + 4) % 7

def DaylightSavingTA (z : Zone) (t : Int) : Int :=
  let y := YearFromTime t
  match z with
  | .fixed _ => 0
  | .us2007 =>
    -- 2:00 local standard time = 07:00 UTC; 2:00 local daylight time = 06:00 UTC
    if nthSunday y 2 2 * 86400000 + 25200000 ≤ t ∧ t < nthSunday y 10 1 * 86400000 + 21600000 then 3600000 else 0
  | .eu1996 =>
    if lastSunday31 y 2 * 86400000 + 3600000 ≤ t ∧ t < lastSunday31 y 9 * 86400000 + 3600000 then 3600000 else 0

/-- §15.9.1.9 -/
def LocalTime (z : Zone) (t : Int) : Int := t + LocalTZA z + DaylightSavingTA z t
def UTC (z : Zone) (t : Int) : Int := t - LocalTZA z - DaylightSavingTA z (t - LocalTZA z)

/-- the local getters and getYear (B.2.4), getTimezoneOffset (§15.9.5.26) -/
def observeLocal (z : Zone) (tv : TV) : List TV :=
  match tv with
  | none => List.replicate 10 none
  | some t =>
    let l := LocalTime z t
    [some (YearFromTime l), some (MonthFromTime l), some (DateFromTime l), some (WeekDay l), some (HourFromTime l),
     some (MinFromTime l), some (SecFromTime l), some (msFromTime l), some (YearFromTime l - 1900), some ((t - l) / 60000)]

inductive LSetter | ms | sec | min | hour | date | month | year | year2
deriving DecidableEq, Repr

def LSetter.base : LSetter → Setter
  | .ms => .ms | .sec => .sec | .min => .min | .hour => .hour | .date => .date | .month => .month | .year => .year | .year2 => .year
def LSetter.arity : LSetter → Nat
  | .year2 => 1 | k => k.base.arity

/-- §15.9.5.28–.40 (local variants) and B.2.5 setYear: t = LocalTime(this time value) (setFullYear and setYear: +0
    when it is NaN), recompose as for the UTC variant, then TimeClip(UTC(·)). -/
def setLocal (z : Zone) (k : LSetter) (tv : TV) (args : List FV) : TV :=
  let args := args.take k.arity
  let loc : TV := match tv with
    | some t => some (LocalTime z t)
    | none => if k = .year ∨ k = .year2 then some 0 else none
  let raw : Option Int := match k with
    | .year2 => match loc, argOr args 0 0 with
      | some t, some y => some (MakeDate (MakeDay (fullYear y) (MonthFromTime t) (DateFromTime t)) (TimeWithinDay t))
      | _, _ => none
    | _ => setUTCRaw k.base loc args
  (raw.map (UTC z)).bind TimeClip

def runLocalSetters (z : Zone) (tv : TV) : List (LSetter × List FV) → TV × List TV
  | [] => (tv, [])
  | (k, a) :: rest =>
    let tv' := setLocal z k tv a
    let (fin, rs) := runLocalSetters z tv' rest
    (fin, tv' :: rs)

/-- a local setter call with scripted arguments -/
def setLocalS (z : Zone) (k : LSetter) (tv : TV) (args : List Arg) : TV × Outcome × List Nat :=
  let as := args.take k.arity
  let cur := curAfter tv as
  match convAll as 0 with
  | (l, none) => (cur, .threw, l)
  | (l, some vs) => let tv' := setLocal z k tv vs; (tv', .ret tv', l)

def runLocalSettersS (z : Zone) (tv : TV) : List (LSetter × List Arg) → TV × List (Outcome × List Nat)
  | [] => (tv, [])
  | (k, a) :: rest =>
    let (tv', o, l) := setLocalS z k tv a
    let (fin, rs) := runLocalSettersS z tv' rest
    (fin, (o, l) :: rs)

/-- §15.9.3.1 new Date(year, month [, date [, hours [, minutes [, seconds [, ms]]]]]): TimeClip(UTC(MakeDate(…))) -/
def dateLocal (z : Zone) (args : List FV) : TV := ((dateUTCRaw args).map (UTC z)).bind TimeClip

-- §15.9.1.15 / §15.9.5.43 -------------------------------------------------------------

/-- `w` decimal digits of n (most significant first), as ASCII bytes -/
def digits (w : Nat) (n : Nat) : List Nat :=
  match w with
  | 0 => []
  | w + 1 => digits w (n / 10) ++ [48 + n % 10]

inductive Str where
  | ok (bytes : List Nat)
  | rangeError
  | null
deriving DecidableEq, Repr

/-- §15.9.1.15 YYYY-MM-DDTHH:mm:ss.sssZ; years outside 0..9999 use the expanded form
    ±YYYYYY of §15.9.1.15.1. -/
def isoString (t : Int) : List Nat :=
  let y := YearFromTime t
  let yy : List Nat :=
    if 0 ≤ y ∧ y ≤ 9999 then digits 4 y.toNat
    else if y < 0 then 45 :: digits 6 (-y).toNat      -- '-'
    else 43 :: digits 6 y.toNat                        -- '+'
  yy ++ [45] ++ digits 2 (MonthFromTime t + 1).toNat ++ [45] ++ digits 2 (DateFromTime t).toNat ++ [84]
     ++ digits 2 (HourFromTime t).toNat ++ [58] ++ digits 2 (MinFromTime t).toNat ++ [58]
     ++ digits 2 (SecFromTime t).toNat ++ [46] ++ digits 3 (msFromTime t).toNat ++ [90]

/-- §15.9.5.43: a non-finite time value throws RangeError -/
def toISOString (tv : TV) : Str :=
  match tv with
  | none => .rangeError
  | some t => .ok (isoString t)

/-- §15.9.5.44 on an unmodified Date object: null for a non-finite time value, else toISOString -/
def toJSON (tv : TV) : Str :=
  match tv with
  | none => .null
  | some t => .ok (isoString t)

/-- Date.parse(x.toISOString()) = x.valueOf() (§15.9.4.2) -/
def parseOfISO (t : Int) : TV := some t

-- §15.9.1.15 Date.parse on `YYYY-MM-DDTHH:mm[:ss[.sss]](Z|±HH:mm)` -----------------------------------

/-- the element values the format allows: MM 01–12, DD 01–(days of the month), HH 00–24 with 24 only as 24:00:00.000,
    mm 00–59, ss 00–59; offset HH 00–23 (24 is avoided by the generator), mm 00–59.  Illegal values give NaN. -/
def parseFields (y mo dd hh mi ss ms sg oh om : Int) : TV :=
  let dim := MakeDay y mo 1 - MakeDay y (mo - 1) 1
  if mo < 1 ∨ 12 < mo ∨ dd < 1 ∨ dd > dim ∨ hh > 24 ∨ (hh = 24 ∧ (mi ≠ 0 ∨ ss ≠ 0 ∨ ms ≠ 0)) ∨ mi ≥ 60 ∨ ss ≥ 60 ∨ oh ≥ 24 ∨ om ≥ 60 then none
  else TimeClip (MakeDate (MakeDay y (mo - 1) dd) (MakeTime hh mi ss ms) - sg * ((oh * 60 + om) * 60000))

/-- x.valueOf() = Date.parse(x.toUTCString()) = Date.parse(x.toString()) when the milliseconds are zero (§15.9.4.2) -/
def parseOfUTCString (tv : TV) : TV := tv

inductive Prim | numFinite | numNaN | numInf | strNonNumeric | strNumeric | undef | boolTrue
deriving DecidableEq, Repr
inductive JsonOut | null | called | typeError
deriving DecidableEq, Repr

/-- §15.9.5.44: null only if ToPrimitive(O, Number) is a Number that is not finite; else call toISOString
    (TypeError if it is not callable) -/
def toJSONGeneric (p : Prim) (isoCallable : Bool) : JsonOut :=
  match p with
  | .numNaN => .null
  | .numInf => .null
  | _ => if isoCallable then .called else .typeError

end OttoVerif.C12.Spec
