/-  `ottomodel_c04` — reads C04 requests on stdin, one reply line per request.  Core-only imports. -/
import OttoVerif.Base.Proto
import OttoVerif.C04.Driver
open OttoVerif

def main (_args : List String) : IO UInt32 := do
  Proto.loop (← IO.getStdin) (← IO.getStdout) C04.Driver.handle
  return 0
