/-  `ottomodel_c10` — reads C10 requests on stdin, one reply line per request.  Core-only imports. -/
import OttoVerif.Base.Proto
import OttoVerif.C10.Driver
open OttoVerif

def main (_args : List String) : IO UInt32 := do
  Proto.loop (← IO.getStdin) (← IO.getStdout) C10.Driver.handle
  return 0
