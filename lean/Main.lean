/-  `ottomodel <property>` — reads requests on stdin, one reply line per request.  Core-only. -/
import OttoVerif.Base.Proto
import OttoVerif.C05.Driver
open OttoVerif

def main (args : List String) : IO UInt32 := do
  let stdin ← IO.getStdin
  let stdout ← IO.getStdout
  match args with
  | ["C05"] => Proto.loop stdin stdout C05.Driver.handle; return 0
  | _ => IO.eprintln "usage: ottomodel <property>"; return 2
