/-  `ottomodel_c01` — reads C01 requests on stdin, one reply line per request.  Core-only imports. -/
import OttoVerif.Base.Proto
import OttoVerif.C01.Driver
import OttoVerif.C01.FnDriver
import OttoVerif.C01.CallDriver
open OttoVerif

def main (_args : List String) : IO UInt32 := do
  Proto.loop (← IO.getStdin) (← IO.getStdout) (fun ws => match C01.CallDriver.handle ws with
    | some r => r
    | none => match C01.FnDriver.handle ws with | some r => r | none => C01.Driver.handle ws)
  return 0
