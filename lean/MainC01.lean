/-  `ottomodel_c01` — reads C01 requests on stdin, one reply line per request.  Core-only imports. -/
import OttoVerif.Base.Proto
import OttoVerif.C01.Driver
open OttoVerif

def main (_args : List String) : IO UInt32 := do
  Proto.loop (← IO.getStdin) (← IO.getStdout) C01.Driver.handle
  return 0
