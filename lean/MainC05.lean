/-  `ottomodel_c05` — reads C05 requests on stdin, one reply line per request.  Core-only imports. -/
import OttoVerif.Base.Proto
import OttoVerif.C05.Driver
open OttoVerif

def main (_args : List String) : IO UInt32 := do
  Proto.loop (← IO.getStdin) (← IO.getStdout) C05.Driver.handle
  return 0
