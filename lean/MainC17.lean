/-  `ottomodel_c17` — reads C17 requests on stdin, one reply line per request.  Core-only imports. -/
import OttoVerif.Base.Proto
import OttoVerif.C17.Driver
open OttoVerif

def main (_args : List String) : IO UInt32 := do
  Proto.loop (← IO.getStdin) (← IO.getStdout) C17.Driver.handle
  return 0
