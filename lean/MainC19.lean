/-  `ottomodel_c19` — reads C19 requests on stdin, one reply line per request.  Core-only imports. -/
import OttoVerif.Base.Proto
import OttoVerif.C19.Driver
open OttoVerif

def main (_args : List String) : IO UInt32 := do
  Proto.loop (← IO.getStdin) (← IO.getStdout) C19.Driver.handle
  return 0
