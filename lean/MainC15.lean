/-  `ottomodel_c15` — reads C15 requests on stdin, one reply line per request.  Core-only imports. -/
import OttoVerif.Base.Proto
import OttoVerif.C15.Driver
open OttoVerif

def main (_args : List String) : IO UInt32 := do
  Proto.loop (← IO.getStdin) (← IO.getStdout) C15.Driver.handle
  return 0
