/-  `ottomodel_c14` — reads C14 requests on stdin, one reply line per request.  Core-only imports. -/
import OttoVerif.Base.Proto
import OttoVerif.C14.Driver
open OttoVerif

def main (_args : List String) : IO UInt32 := do
  Proto.loop (← IO.getStdin) (← IO.getStdout) C14.Driver.handle
  return 0
