/-  `ottomodel_c08` — reads C08 requests on stdin, one reply line per request.  Core-only imports. -/
import OttoVerif.Base.Proto
import OttoVerif.C08.Driver
open OttoVerif

def main (_args : List String) : IO UInt32 := do
  Proto.loop (← IO.getStdin) (← IO.getStdout) C08.Driver.handle
  return 0
