/-  `ottomodel_c16` — reads C16 requests on stdin, one reply line per request.  Core-only imports. -/
import OttoVerif.Base.Proto
import OttoVerif.C16.Driver
open OttoVerif

def main (_args : List String) : IO UInt32 := do
  Proto.loop (← IO.getStdin) (← IO.getStdout) C16.Driver.handle
  return 0
