import OttoVerif.Audit
import OttoVerif.C05.Theorems
import OttoVerif.C05.ObjTheorems
import OttoVerif.C05.Ops2Theorems
#audit_modules OttoVerif.C05.Theorems OttoVerif.C05.ObjTheorems OttoVerif.C05.Ops2Theorems
