/-  `ottomodel_c20` — reads C20 requests on stdin, one reply line per request.  Core-only imports. -/
import OttoVerif.Base.Proto
import OttoVerif.C20.Driver
open OttoVerif

def main (_args : List String) : IO UInt32 := do
  Proto.loop (← IO.getStdin) (← IO.getStdout) C20.Driver.handle
  return 0
