/-  `ottomodel_c12` — reads C12 requests on stdin, one reply line per request.  Core-only imports. -/
import OttoVerif.Base.Proto
import OttoVerif.C12.Driver
open OttoVerif

def main (_args : List String) : IO UInt32 := do
  Proto.loop (← IO.getStdin) (← IO.getStdout) C12.Driver.handle
  return 0
