/-  `ottomodel_c18` — reads C18 requests on stdin, one reply line per request.  Core-only imports. -/
import OttoVerif.Base.Proto
import OttoVerif.C18.Driver
open OttoVerif

def main (_args : List String) : IO UInt32 := do
  Proto.loop (← IO.getStdin) (← IO.getStdout) C18.Driver.handle
  return 0
