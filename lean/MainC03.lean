/-  `ottomodel_c03` — reads C03 requests on stdin, one reply line per request.  Core-only imports. -/
import OttoVerif.Base.Proto
import OttoVerif.C03.Driver
open OttoVerif

def main (_args : List String) : IO UInt32 := do
  Proto.loop (← IO.getStdin) (← IO.getStdout) C03.Driver.handle
  return 0
