/-  `ottomodel_c06` — reads C06 requests on stdin, one reply line per request.  Core-only imports. -/
import OttoVerif.Base.Proto
import OttoVerif.C06.Driver
open OttoVerif

def main (_args : List String) : IO UInt32 := do
  Proto.loop (← IO.getStdin) (← IO.getStdout) C06.Driver.handle
  return 0
