/-  `ottomodel_c09` — reads C09 requests on stdin, one reply line per request.  Core-only imports. -/
import OttoVerif.Base.Proto
import OttoVerif.C09.Driver
open OttoVerif

def main (_args : List String) : IO UInt32 := do
  Proto.loop (← IO.getStdin) (← IO.getStdout) C09.Driver.handle
  return 0
