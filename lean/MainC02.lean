/-  `ottomodel_c02` — reads C02 requests on stdin, one reply line per request.  Core-only imports. -/
import OttoVerif.Base.Proto
import OttoVerif.C02.Driver
open OttoVerif

def main (_args : List String) : IO UInt32 := do
  Proto.loop (← IO.getStdin) (← IO.getStdout) C02.Driver.handle
  return 0
