#!/bin/bash
# tools_seed_confirm.sh <worktree> <patch.diff>   confirm a seeded change in its scratch worktree:
#   (1) builds, (2) the existing suite passes with it, (3) the demo fails with it, (4) the demo passes without it.
set -u
WT=$1; P=$2
export GOFLAGS=-mod=mod GOPROXY=off GOSUMDB=off GOTOOLCHAIN=local
cd $WT || exit 2
git diff --quiet && git apply $P
b=$(go build ./... 2>&1 | tail -1); echo "build: ${b:-ok}"
s=$(go test -vet=off -count=1 -skip 'Seeded' ./... 2>&1 | grep -v "no test files" | tr '\n' ' '); echo "suite-with-change: $s"
d=$(go test -vet=off -count=1 -run 'Seeded' . 2>&1 | tail -1); echo "demo-with-change: $d"
git apply -R $P
d2=$(go test -vet=off -count=1 -run 'Seeded' . 2>&1 | tail -1); echo "demo-without-change: $d2"
git apply $P
