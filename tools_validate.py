#!/usr/bin/env python3
"""validate MANIFEST.json and evidence/*.json against the schemas (run with python3-vt)"""
import json, glob, sys, jsonschema
ok = True
try:
    jsonschema.validate(json.load(open('MANIFEST.json')), json.load(open('/root/.vp/MANIFEST.schema.json')))
except Exception as e:
    ok = False; print('MANIFEST:', str(e)[:500])
es = json.load(open('/root/.vp/EVIDENCE.schema.json'))
for f in sorted(glob.glob('evidence/*.json')):
    try:
        jsonschema.validate(json.load(open(f)), es)
    except Exception as e:
        ok = False; print(f, str(e)[:500])
m = json.load(open('MANIFEST.json'))
ids = {c['property_id'] for c in m['checks']} | {c['property_id'] for c in m.get('not_applicable', [])}
want = {json.loads(l)['id'] for l in open('properties.jsonl')}
if ids != want:
    ok = False; print('property coverage mismatch', sorted(want ^ ids))
print('schemas ok' if ok else 'SCHEMA PROBLEMS')
sys.exit(0 if ok else 1)
