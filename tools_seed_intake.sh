#!/bin/bash
# tools_seed_intake.sh <seed-name e.g. C08-3> <check-id>...   archive a finished seeding agent's worktree
# (/tmp/seed/<name>) into seeded/<name>/, confirm it there, remove the worktree, evaluate it (VERIF_REPO).
set -u
N=$1; shift
D=/verif/seeded/$N; W=/tmp/seed/$N
mkdir -p $D
if [ -d $W ]; then
  (cd $W && git diff > $D/patch.diff; cp SEEDED.md $D/ 2>/dev/null; find . -name 'seeded_demo_test.go' -not -path './.git/*' | head -1 | xargs -I{} cp {} $D/)
  (echo "== $N"; /verif/tools_seed_confirm.sh $W $D/patch.diff) > $D/confirm.txt 2>&1
  git -C /repo worktree remove --force $W
fi
grep -h "demo-w\|build\|suite" $D/confirm.txt | cut -c1-60 | tr '\n' ';'; echo
cd /verif && ./tools_seed_eval2.sh seeded/$N "$@" 2>&1 | grep -A6 "CAUGHT\|MISSED" | cut -c1-220
