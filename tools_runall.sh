#!/bin/bash
# run every claimed check (quick tier unless TIER is set), one summary line each
cd /verif
for id in $(python3 -c "import json; print(' '.join(c['property_id'] for c in json.load(open('MANIFEST.json'))['checks']))"); do
  out=$(./check $id --tier ${TIER:-quick} 2>&1); rc=$?
  echo "rc=$rc $(echo "$out" | tail -1 | cut -c1-110) $(echo "$out" | grep -c '^VIOLATION') violation-lines"
done
